"""C08 - bad input and bad grammars are reported as TatSu errors at valid positions."""
from __future__ import annotations

import sys
from pathlib import Path

sys.path.insert(0, str(Path(__file__).resolve().parent.parent))
import vlib
from vlib import Check, ModelRun, sx
import enginelib as E
import enginegen as G
import enginerun as R

PID = 'C08'
ALPHA = ['1', '_', '+', '-', '.', 'e', 'a', '²', '٣', ' ', 'T', 'r', 'u']
WORDS = ['true', 'True', 'false', 'False', 'tru', 'falsey']


# ------------------------------------------------------------------ M1: matchers, exhaustive
def shard_matchers(col, shard_i, nshards, maxlen):
    from tatsu.input import cursor as C
    mr = ModelRun('Matchers')
    strings = [s for i, s in enumerate(vlib.all_strings(''.join(ALPHA[:10]), maxlen)) if i % nshards == shard_i]
    rng = col.rng
    for _ in range(200):
        strings.append(''.join(rng.choice(ALPHA + WORDS) for _ in range(rng.randint(1, 4))))
    reqs, meta = [], []

    class Cur:  # the minimal cursor the module-level match functions need
        def __init__(self, s, pos, namechars):
            self.textstr, self.pos, self.namechars = s, pos, namechars

        def goto(self, p):
            self.pos = max(0, min(len(self.textstr), p))

    for s in strings:
        chars = set(s)
        dec = ' '.join(str(ord(c)) for c in chars if c.isdecimal())
        alp = ' '.join(str(ord(c)) for c in chars if c.isalpha())
        aln = ' '.join(str(ord(c)) for c in chars if c.isalnum())
        for pos in range(len(s) + 1):
            for kind, fn in (('uint', C.matchuint), ('int', C.matchint), ('float', C.matchfloat), ('name', C.matchname), ('bool', C.matchbool)):
                nch = '-' if (kind == 'name' and len(s) % 2) else ''
                cur = Cur(s, pos, set(nch))
                try:
                    v = fn(cur)
                    impl = None if v is None else (cur.pos - pos, v)
                except Exception as e:  # noqa
                    impl = ('raises', type(e).__name__)
                reqs.append(f'(m {kind} ({dec}) ({alp}) ({aln}) {sx(nch)} {sx(s[pos:])})')
                meta.append((s, pos, kind, impl))
    replies = mr.ask(reqs)
    for (s, pos, kind, impl), rep in zip(meta, replies):
        col.case(['m', s, pos, kind], nontrivial=len(s) > pos)
        col.count('matcher.' + kind + ('.match' if isinstance(impl, tuple) and impl[0] != 'raises' else '.none' if impl is None else '.raises'))
        if isinstance(impl, tuple) and impl[0] == 'raises':
            col.violation(f'oracle:matcher-raises:{kind}:{impl[1]}', f'@{kind} raises {impl[1]} instead of failing',
                          {'oracle': 'matchers never raise', 'text': s, 'pos': pos, 'kind': kind, 'exception': impl[1]})
            continue
        model = None if rep == 'none' else int(rep[1])
        mval = (rep[2] == '1') if (kind == 'bool' and rep != 'none') else None
        ilen = None if impl is None else impl[0]
        if model != ilen or (kind == 'bool' and impl is not None and impl[1] != mval):
            col.violation(f'M1:{kind}', f'@{kind} differs from Matchers.v',
                          {'correspondence': 'M1 matchers', 'text': s, 'pos': pos, 'kind': kind, 'impl': str(impl), 'model': str(rep)})
        if impl is not None and not (0 < impl[0] <= len(s) - pos):
            col.violation(f'oracle:matcher-bounds:{kind}', 'a match is empty or leaves the text',
                          {'oracle': 'match bounds', 'text': s, 'pos': pos, 'kind': kind, 'impl': str(impl)})


# ------------------------------------------------------------------ engine-level robustness oracle
UNI = ['a', 'b', '1', ' ', '\n', '\r', '\r\n', '\t', '\x00', '\x0b', '\x1c', '²', '٣', ' ', 'é', '\U0001f600', ',', '+', 'x', 'if',
       'true', '-', '_', '.', '"', "'", '\\', '(', ')']


def with_metas(rng, e):
    k = E.kind(e)
    if k in ('tok', 'pat') and rng.random() < 0.25:
        return ('meta', rng.choice(['int', 'uint', 'float', 'bool', 'name']))
    if k in ('seq', 'choice'):
        return (k, [with_metas(rng, x) for x in e[1]])
    if k in ('group', 'skipgroup', 'opt', 'skipto'):
        return (k, with_metas(rng, e[1]))
    if k == 'rep':
        return ('rep', e[1], e[2], e[3], with_metas(rng, e[4]))
    if k == 'look':
        return ('look', e[1], with_metas(rng, e[2]))
    if k == 'named':
        return ('named', e[1], e[2], with_metas(rng, e[3]))
    if k == 'over':
        return ('over', e[1], with_metas(rng, e[2]))
    return e


def check_failure(col, exc, text, where, case):
    """A reported failure carries a position inside the text whose line/col/text agree, and renders."""
    from tatsu.exceptions import FailedParse
    if not isinstance(exc, FailedParse):
        return
    try:
        pos = exc.pos
        msg = str(exc)
        info = exc.info if hasattr(exc, 'info') else None
    except Exception as e:  # noqa
        col.violation(f'oracle:failure-does-not-render:{where}:{type(e).__name__}', 'a reported failure cannot be rendered',
                      {'oracle': 'message renders', 'case': case, 'exception': repr(e)})
        return
    if not (0 <= pos <= len(text)):
        col.violation(f'oracle:failure-position-out-of-text:{where}', f'failure position {pos} outside the text (len {len(text)})',
                      {'oracle': 'failure position', 'case': case, 'pos': pos})
    if info is not None:
        try:
            line_ok = 0 <= info.line and info.col >= 0 and info.start <= min(pos, max(0, len(text) - 1) if text else 0) <= max(info.end, info.start)
            lines = text.splitlines(True)
            text_ok = (not lines) or info.text == (lines[min(info.line, len(lines) - 1)] if info.line < len(lines) else info.text)
        except Exception as e:  # noqa
            line_ok, text_ok = False, False
        if not (line_ok and text_ok):
            col.violation(f'oracle:failure-lineinfo-inconsistent:{where}', 'line/column/source line of a failure disagree with its position',
                          {'oracle': 'failure lineinfo', 'case': case, 'pos': pos, 'info': str(info)[:300]})


def shard_engine(col, shard_i, ngrammars, ninputs):
    import tatsu
    from tatsu.exceptions import TatSuException
    from tatsu.input.buffer import Buffer
    rng = col.rng
    for gi in range(ngrammars):
        g = G.gen_grammar(rng, G.GenCfg(), depth=rng.choice([2, 3]))
        g['rules'] = [(n, d, with_metas(rng, e)) for n, d, e in g['rules']]
        if rng.random() < 0.15:
            g['directives']['whitespace'] = rng.choice(['[ ]*', r'\s*', 'x*'])     # patterns that can match empty
        if rng.random() < 0.1:
            g['directives']['eol_comments'] = rng.choice(['#.*', '(?m)#.*$', ''])
        gtext = E.grammar_text(g)
        m = R.compile_grammar(g)
        if isinstance(m, tuple):
            col.count('grammar.' + m[0])
            if m[0] in ('compile-timeout', 'compile-recursion') or (m[0] == 'compile-error' and m[1] not in TATSU_NAMES()):
                col.violation(f'oracle:compile:{m[0]}:{m[1] if len(m) > 1 else ""}', 'compiling a generated grammar raised a foreign exception / hung',
                              {'oracle': 'compile raises only TatSu errors', 'grammar': gtext, 'outcome': m})
            continue
        for k in range(ninputs):
            text = ''.join(rng.choice(UNI) for _ in range(rng.randint(0, 8)))
            if k == 0:
                text = ''
            for kind in ('text', 'buffer'):
                for pinfo in (False, True):
                    case = {'grammar': gtext, 'text': text, 'input': kind, 'parseinfo': pinfo}
                    col.case(['eng', gtext, text, kind, pinfo], nontrivial=bool(text))

                    def run():
                        inp = text if kind == 'text' else Buffer(text)
                        try:
                            m.parse(inp, parseinfo=pinfo)
                            return ('ok', None)
                        except TatSuException as e:
                            return ('tatsu', e)
                        except RecursionError as e:
                            return ('recursion', e)
                        except Exception as e:  # noqa
                            return ('foreign', e)
                    out = R.with_timeout(run, 5)
                    col.count(f'engine.{kind}.{out[0]}')
                    if out[0] == 'timeout':
                        col.violation(f'oracle:hang:{kind}', 'a parse does not terminate',
                                      {'oracle': 'no hang', 'case': case})
                    elif out[0] == 'foreign':
                        col.violation(f'oracle:foreign-exception:{kind}:{type(out[1]).__name__}',
                                      f'parse raised {type(out[1]).__name__}, not a TatSu error',
                                      {'oracle': 'only TatSu exceptions', 'case': case, 'exception': repr(out[1])[:300]})
                    elif out[0] == 'recursion':
                        col.violation(f'oracle:recursion:{kind}', 'unbounded recursion on a non-left-recursive grammar',
                                      {'oracle': 'bounded recursion', 'case': case})
                    elif out[0] == 'tatsu':
                        check_failure(col, out[1], text, kind, case)


_TN = None


def TATSU_NAMES():
    global _TN
    if _TN is None:
        import tatsu.exceptions as X
        _TN = {n for n in dir(X) if isinstance(getattr(X, n), type) and issubclass(getattr(X, n), X.TatSuException)}
    return _TN


def mutate(rng, s):
    if not s:
        return s
    r = rng.random()
    i = rng.randrange(len(s))
    if r < 0.3:
        return s[:i] + s[i + 1:]
    if r < 0.6:
        return s[:i] + rng.choice("'\"/\\(){}[]|~@:=;$&!+*?<>.,#%`^-_ \n\t0aZ²\x00") + s[i:]
    if r < 0.8 and len(s) > 1:
        j = min(len(s) - 1, i + 1)
        return s[:i] + s[j] + s[i] + s[j + 1:]
    return s[:i] + rng.choice("'\"/\\(){}[]|~@:=;") + s[i + 1:]


def shard_compile(col, shard_i, n):
    import tatsu
    from tatsu.exceptions import TatSuException
    rng = col.rng
    for _ in range(n):
        g = G.gen_grammar(rng, G.GenCfg(), depth=rng.choice([2, 3]))
        if rng.random() < 0.3:
            g['rules'] = [(nm, ['name'] if rng.random() < 0.2 else d, e) for nm, d, e in g['rules']]
            g['keywords'] = ['if', 'then']
        text = E.grammar_text(g)
        for _k in range(rng.randint(1, 3)):
            text = mutate(rng, text)
        col.case(['compile', text], nontrivial=True)

        def run():
            try:
                tatsu.compile(text, name='M')
                return ('ok', None)
            except TatSuException as e:
                return ('tatsu', e)
            except RecursionError as e:
                return ('recursion', e)
            except Exception as e:  # noqa
                return ('foreign', e)
        out = R.with_timeout(run, 10)
        col.count('compile.' + out[0])
        if out[0] in ('timeout', 'foreign', 'recursion'):
            small = text
            exname = type(out[1]).__name__ if out[0] != 'timeout' else 'timeout'
            col.violation(f'oracle:compile-{out[0]}:{exname}', f'compiling a grammar text ended in {exname}, not a TatSu error',
                          {'oracle': 'compile raises only TatSu errors', 'grammar': small, 'exception': repr(out[1])[:300] if out[1] else None})
        elif out[0] == 'tatsu':
            check_failure(col, out[1], text, 'compile', {'grammar': text})


# ---- a reference to an undefined rule, in every syntactic position, must be reported when the grammar is compiled ----
UNDEF_POSITIONS = {
    'sequence-element': "start = 'a' missing 'b' ;",
    'first-element': "start = missing 'b' ;",
    'choice-option': "start = 'a' | missing ;",
    'optional': "start = 'a' [missing] ;",
    'closure': "start = {missing} ;",
    'positive-closure': "start = {missing}+ ;",
    'join-element': "start = ','%{missing} ;",
    'join-separator': "start = missing%{'a'} ;",
    'positive-join-separator': "start = missing%{'a'}+ ;",
    'gather-separator': "start = missing.{'a'} ;",
    'positive-gather-separator': "start = missing.{'a'}+ ;",
    'left-join-separator': "start = missing<{'a'}+ ;",
    'right-join-separator': "start = missing>{'a'}+ ;",
    'lookahead': "start = &missing 'a' ;",
    'negative-lookahead': "start = !missing 'a' ;",
    'named': "start = n:missing ;",
    'named-list': "start = n+:missing ;",
    'override': "start = 'a' @:missing ;",
    'group': "start = ('a' missing) ;",
    'skip-group': "start = (?: missing) 'a' ;",
    'skip-to': "start = ->missing ;",
    'second-rule': "start = r ;\nr = 'a' missing ;",
    'rule-include': "start = >missing 'a' ;",
    'based-rule': "start = b ;\nb < missing = 'a' ;",
    'nested': "start = {['a' | (&'b' ','%{n:missing})]} ;",
}


def shard_undefined(col, shard_i):
    import tatsu
    from tatsu.exceptions import GrammarError, TatSuException
    for where, g in UNDEF_POSITIONS.items():
        col.case(['undefined-rule', where], nontrivial=True)
        col.count('undefined.positions')
        try:
            m = tatsu.compile(g, name='U')
            outcome = 'compiles'
        except GrammarError:
            outcome = 'GrammarError'
        except TatSuException as e:
            outcome = 'tatsu:' + type(e).__name__
        except Exception as e:  # noqa
            outcome = 'foreign:' + type(e).__name__
        # GrammarError is the documented report; another TatSu parse error of the grammar text (rule include / based rule
        # are resolved while the text is read) is a report too
        if outcome == 'compiles' or outcome.startswith('foreign:'):
            col.violation(f'oracle:undefined-rule-not-reported:{where}:{outcome}',
                          f'a grammar that refers to an undefined rule ({where}) is not rejected by tatsu.compile: {outcome}',
                          {'oracle': 'undefined rule references are reported at compile time', 'grammar': g, 'outcome': outcome})


def main():
    chk = Check(PID)
    chk.rule = ('M1: the five character-level matchers on ALL strings over {1 _ + - . e a superscript-2 arabic-3 space} up to length 4 (quick) / 5 '
                '(thorough) at every position, implementation vs Matchers.v; engine: random grammars with @meta expressions and whitespace/comment '
                'patterns that can match empty x unicode texts (controls, CR/LF/CRLF, LS, non-decimal digits, astral) x {TextLines, Buffer} x '
                '{parseinfo}; compile: generated grammar texts with 1-3 random insertions/deletions/transpositions. Checked: exception class, hang, '
                'recursion, failure position/line info, message renders.')
    chk.trusted += ['Python int()/float() accept the literals [+-]?D(_?D)* with D = str.isdecimal (checked on every matched slice by M1)',
                    'unicode predicates are oracles per string; the engine-level and compile-level parts are implementation oracles']
    chk.coq()
    ok, out = vlib.build_modelrun('Matchers')
    chk.obligation('modelrun_Matchers builds', 'build', ok, out[-500:])
    if ok:
        if chk.quick:
            vlib.run_sharded(chk, shard_matchers, 14, extra=(14, 4))
            vlib.run_sharded(chk, shard_engine, 14, extra=(14, 8))
            vlib.run_sharded(chk, shard_compile, 14, extra=(60,))
            vlib.run_sharded(chk, shard_undefined, 1, procs=1)
        else:
            vlib.run_sharded(chk, shard_matchers, 28, extra=(28, 5))
            vlib.run_sharded(chk, shard_engine, 28, extra=(40, 10))
            vlib.run_sharded(chk, shard_compile, 28, extra=(400,))
            vlib.run_sharded(chk, shard_undefined, 1, procs=1)
        chk.obligation('M1: matchers vs Matchers.v (exhaustive small scope)', 'correspondence',
                       not any(v['signature'].startswith('M1') for v in chk.violations))
        chk.obligation('no foreign exception / hang / unbounded recursion; failures at valid positions (implementation only)', 'oracle',
                       not any(v['signature'].startswith('oracle:') for v in chk.violations))
        if not chk.quick:
            chk.exhaustive = True
    return chk.finish()


if __name__ == '__main__':
    sys.exit(main())
