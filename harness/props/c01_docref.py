"""C01 (documentation reference) - the implementation against an interpreter of the DOCUMENTED semantics.

harness/props/c01.py compares tatsu with a Coq model that is faithful to the CODE, so a deviation of the code from the
documentation that the model reproduces is invisible to it.  This file holds an independent interpreter (`DocRef`, plain
Python, no tatsu import) of what /repo/docs/syntax.rst and /repo/docs/ast.rst prescribe for the core fragment of the grammar
IR of harness/enginelib.py, and a differential driver (`run`) that classifies every disagreement by a stable signature.

How a disagreement is classified: `DocRef` takes a set of QUIRKS.  Every quirk switches the reference to what the
implementation does at ONE place where it leaves the documentation (they are listed in DEVIATIONS with the sentence of the
docs they contradict).  The signature of a disagreement is the smallest set of quirks under which the reference reproduces the
implementation's result; when no set does, the case is shrunk and tried again, and what is left is 'docref:unexplained:...'
(to be looked at by hand: a mistake of the reference, a silent spot of the docs, or a new deviation).

Run:   PYTHONPATH=/verif/harness:/repo /venv/bin/python /verif/harness/props/c01_docref.py [seed [ngrammars [ninputs]]]
       (exit 0 when every disagreement has a signature listed in DEVIATIONS and every DEVIATIONS example / quotation replays)
API:   run(chk_or_None, seed, ngrammars, ninputs) -> {'cases', 'agree', 'skipped', 'findings': {signature: {'count', 'example'}}}
       run_corpus(chk_or_None, seed)  the fixed corpus (DEVIATIONS examples, probes, all pairs of element kinds)
       ref_outcome(grammar_ir, text, start=None, quirks=())  the reference alone;  verify_deviations()  self-check
"""
from __future__ import annotations

import json
import keyword
import random
import re
import sys
from pathlib import Path

sys.path.insert(0, str(Path(__file__).resolve().parent.parent))

# ---------------------------------------------------------------------------------------------------------------------
# (b) Places where the docs are silent or ambiguous: the reference follows the implementation there.
DOC_SILENT = [
    'S01 whitespace before {}: syntax.rst says of patterns "Unlike other expressions, this one does not advance over whitespace" '
    'but names no position for closures, groups, lookaheads, `{}`; the reference skips whitespace exactly before tokens, constants, '
    '`()`, `$` and at entry of rules that are not token rules (what the implementation does), nowhere else',
    'S02 "/./ ... works exactly like the ?\'.\' pattern" vs "matches the next position in the input": a newline is matched by /./ '
    '(implementation) although the pattern `.` does not match it; the reference matches any character',
    'S03 rule names with leading underscores: docs speak of names that "begin with an uppercase letter"; the implementation strips '
    'leading underscores first (`_EXPR` does not skip whitespace). The docs give only the sufficient condition; reference follows the code',
    'S04 `->e`: docs give BOTH "equivalent to { !e /./ } e" and "Whitespace and comments will be skipped at each step"; the two differ '
    'when e can match inside a whitespace run, and the literal equivalence would put the list of skipped characters in the AST. '
    'Reference: probe e, else skip whitespace, else one character; value = value of e only (implementation)',
    'S05 a closure iteration that consumes nothing: docs silent (PEG would loop). Implementation: the FIRST iteration is kept even '
    'when empty (`{[\'a\']}` on \'\' is [None]), a later iteration without progress fails as an iteration (ends the closure, or fails it '
    'when a cut was passed in that iteration)',
    'S06 value of one closure iteration / of a separator: nothing -> None, one element -> the element, several -> a list '
    '(docs only show [e, s, e, ...]); a FIRST iteration without value gives a None element, a later one adds nothing unless a kept '
    "separator stands before it (`{(?:'a')}` on 'a a' is [None], `','%{(?:'a')}` on 'a,a' is [None, ',', None]) - odd, but the docs "
    'say nothing about iterations without value',
    'S07 names bound inside a closure body, a `(?: )` group or a lookahead: docs speak of group/optional/closure "transferred to the '
    'outer scope only on success"; nothing on `(?: )` and lookaheads. Implementation: closure iterations transfer, `(?: )` and '
    'lookaheads never bind (the name stays None)',
    'S08 a name that occurs in a NESTED choice is present (None) in the AST whichever nested option parses ("only the names in the '
    'option that parses will be present" is read as speaking of the options of the rule itself, through plain groups)',
    'S09 an unmatched `+:` name is [] (ast.rst only says None for names not found); a `+:` name bound to an optional that did not '
    'match gets a None element (`n+:[\'a\']` on \'\' is {n: [None]}); a name used with both `:` and `+:` in one scope is a list',
    'S10 override mixed with names: an override that was executed wins over the names of the rule; an override that was not '
    'executed (untaken optional) leaves the names / the plain elements',
    'S11 several overrides in one rule accumulate like a name bound several times (syntax.rst shows `ab: @:\'a\' {@:\'b\'}` without '
    'saying so); `@+:` after a plain `@:` appends',
    'S12 cut scoping belongs to property C05: the reference commits within option / optional / closure iteration / rule and treats a '
    'group without alternatives as transparent, as the implementation does. NOT checked here, for C05 to judge: syntax.rst says '
    '"The effect of ~ is scoped to the nearest enclosing brackets (group, optional, closure), the enclosing choice, or the enclosing '
    "rule\" - by that sentence start = ('a' ~) 'b' | 'a' on 'a' would try the second option (the cut ended with its group); the "
    'implementation fails',
    'S13 a join whose separator matched but whose next element did not: follows the documented equivalences '
    '(s%{e}+ == e {s ~ e} fails; s%{e} == s%{e}+|{} gives [] at the START position, dropping the elements already matched)',
    'S14 nameguard: docs say "if text is alphanumeric"; implementation asks for an identifier-like token (first char alphabetic). The '
    'generators use alphabetic tokens only, so the two readings coincide here',
    'S15 constants: only literals without `{` are generated; the value is ast.literal_eval of the text (applied again while the result '
    'is a string that evaluates), else the text',
    'S16 a name bound to a value and later, in the same scope, to an optional that did not match, or the reverse: see DEVIATIONS '
    "['docref:name-rebound-none-is-order-dependent'] - the docs do not say whether None counts as an item, but the implementation's "
    'answer depends on the order, so no reading of the docs gives it',
    'S17 where whitespace was skipped before a constant, `()` or `$`, the position stays after it (seen by a following pattern)',
    'S18 the value bound by name:e / @:e when e contributes nothing (cut, `$`, lookahead, `(?: )`, unmatched optional) is None',
]

# ---------------------------------------------------------------------------------------------------------------------
# (c) Genuine deviations of the implementation from what the docs say.
#     signature -> {'docs': '<file>: <sentence>', 'strength': 'clear' | 'weak', 'quirk': name of the DocRef quirk that
#     reproduces the implementation, 'example': {'ir': grammar IR, 'grammar': its text, 'input', 'implementation', 'documented'}}
#     (`verify_deviations()` replays every example on the implementation and on the reference and checks every quotation
#     against the files in /repo/docs; results are in the canonical form of enginelib.canon: tuples as {'tuple': [..]}, dicts as {'dict': {..}})
def _g(*rules):
    return {'rules': [(n, [], e) for n, e in rules], 'directives': {}, 'keywords': []}


def _t(x):
    return ('tok', x)


_AB = ('group', ('seq', [_t('a'), _t('b')]))
_Q_ENTRY = ('ast.rst: "`AST`_ entries are single values if only one item was associated with a name, or ``tuple`` if more than '
            'one item was matched."')
_Q_NAMES = ('ast.rst: "a ``dict``-derived object (``AST``) that contains one item for every named element in the grammar rule" + '
            '"The value for named elements that were not found during the parse (perhaps because they are optional) is ``None``."')
_Q_ELEMS = ('syntax.rst: "When there are no named items in a rule or choice, the `AST`_ consists of the elements parsed by the '
            'rule, either a single item or a ``list``."')
_Q_OVER = 'syntax.rst: "The override operator. Make the `AST`_ for the complete rule or choice be the `AST`_ for ``e``."'

DEVIATIONS: dict = {
    'docref:override-list-flattened-into-caller': {
        'docs': _Q_OVER + ' + ' + _Q_ELEMS + ' (the AST of r is the list [a, b]; start parsed two elements, r and c)',
        'strength': 'clear', 'quirk': 'openrule',
        'note': 'KNOWN_FINDINGS D1a; the same open list is spliced when the call is the first element of an option / optional '
                "(start = 'x' [r]) and wherever it is inside a named group (n:('x' r))",
        'example': {'ir': _g(('start', ('seq', [('call', 'r'), _t('c')])), ('r', ('over', False, _AB))),
                    'grammar': "start = r 'c' ;\nr = @:('a' 'b') ;\n", 'input': 'a b c',
                    'implementation': ['ok', ['a', 'b', 'c']], 'documented': ['ok', [['a', 'b'], 'c']]}},
    'docref:names-missing:lone-optional': {
        'docs': _Q_NAMES, 'strength': 'clear', 'quirk': 'define',
        'note': "names are pre-set to None / [] only by a sequence, an option of a choice and a MATCHING optional; "
                "with 'x' in front (start = 'x' [n:'a']) the result is {n: None}",
        'example': {'ir': _g(('start', ('opt', ('named', False, 'n', _t('a'))))),
                    'grammar': "start = [n:'a'] ;\n", 'input': '',
                    'implementation': ['ok', None], 'documented': ['ok', {'dict': {'n': None}}]}},
    'docref:names-missing:lone-closure': {
        'docs': _Q_NAMES, 'strength': 'clear', 'quirk': 'define',
        'example': {'ir': _g(('start', ('rep', False, None, False, ('named', False, 'n', _t('a'))))),
                    'grammar': "start = {n:'a'} ;\n", 'input': '',
                    'implementation': ['ok', []], 'documented': ['ok', {'dict': {'n': None}}]}},
    'docref:names-missing:lone-named': {
        'docs': _Q_NAMES, 'strength': 'clear', 'quirk': 'define',
        'note': "a name in an untaken option of a choice nested in a named element; start = 'x' v:(m:'b' | 'c') gives {m: None, v: 'c'}",
        'example': {'ir': _g(('start', ('named', False, 'v', ('choice', [('named', False, 'm', _t('b')), _t('c')])))),
                    'grammar': "start = v:(m:'b' | 'c') ;\n", 'input': 'c',
                    'implementation': ['ok', {'dict': {'v': 'c'}}], 'documented': ['ok', {'dict': {'m': None, 'v': 'c'}}]}},
    'docref:names-missing:lone-lookahead': {
        'docs': _Q_NAMES, 'strength': 'clear', 'quirk': 'define',
        'note': "start = 'x' !(n:'a') gives {n: None}",
        'example': {'ir': _g(('start', ('look', True, ('named', False, 'n', _t('a'))))),
                    'grammar': "start = !(n:'a') ;\n", 'input': '',
                    'implementation': ['ok', None], 'documented': ['ok', {'dict': {'n': None}}]}},
    'docref:names-missing:lone-skipgroup': {
        'docs': _Q_NAMES, 'strength': 'clear', 'quirk': 'define',
        'note': "start = 'x' (?:n:'a') gives {n: None}",
        'example': {'ir': _g(('start', ('skipgroup', ('named', False, 'n', _t('a'))))),
                    'grammar': "start = (?:n:'a') ;\n", 'input': 'a',
                    'implementation': ['ok', None], 'documented': ['ok', {'dict': {'n': None}}]}},
    'docref:names-missing:sep': {
        'docs': _Q_NAMES, 'strength': 'clear', 'quirk': 'define',
        'note': 'a name in the separator of a join is not pre-set even by an enclosing sequence: the same rule returns a list or '
                "a dict depending on the input ('x a,a' gives {n: ','})",
        'example': {'ir': _g(('start', ('seq', [_t('x'), ('rep', False, ('group', ('named', False, 'n', _t(','))), False, _t('a'))]))),
                    'grammar': "start = 'x' (n:',')%{'a'} ;\n", 'input': 'x a',
                    'implementation': ['ok', ['x', ['a']]], 'documented': ['ok', {'dict': {'n': None}}]}},
    'docref:pattern-multigroup-not-tuple': {
        'docs': 'syntax.rst: "The returned AST_ has the semantics of ``re.findall(pattern, text)[0]`` (a `tuple` if there is more '
                'than one group), so use ``(?:)`` for groups that should not be in the resulting AST_."',
        'strength': 'clear', 'quirk': 'patgroup',
        'note': 'util/itertools.py str_from_match keeps the first group only',
        'example': {'ir': _g(('start', ('pat', '(a)(b)?'))), 'grammar': 'start = /(a)(b)?/ ;\n', 'input': 'ab',
                    'implementation': ['ok', 'a'], 'documented': ['ok', {'tuple': ['a', 'b']}]}},
    'docref:nested-override-leaks-internal-dict': {
        'docs': _Q_OVER + " (the AST for the group (@:'a') is 'a'; no reading yields a dict with the internal key __vallue__)",
        'strength': 'clear', 'quirk': 'overdict',
        'note': "Override._parse returns {_AT_: value}; the same dict is what n:(@:'a') binds (invisible there because the override wins)",
        'example': {'ir': _g(('start', ('over', False, ('group', ('over', False, _t('a')))))),
                    'grammar': "start = @:(@:'a') ;\n", 'input': 'a',
                    'implementation': ['ok', ['a', {'dict': {'__vallue__': 'a'}}]], 'documented': ['ok', ['a', 'a']]}},
    'docref:name-rebound-group-value-flattened': {
        'docs': _Q_ENTRY + ' (two items were associated with n: the list [a, b] and c)',
        'strength': 'clear', 'quirk': 'nameflat',
        'note': "order dependent: n:'c' n:('a' 'b') gives ['c', ['a', 'b']]",
        'example': {'ir': _g(('start', ('seq', [('named', False, 'n', _AB), ('named', False, 'n', _t('c'))]))),
                    'grammar': "start = n:('a' 'b') n:'c' ;\n", 'input': 'a b c',
                    'implementation': ['ok', {'dict': {'n': ['a', 'b', 'c']}}], 'documented': ['ok', {'dict': {'n': [['a', 'b'], 'c']}}]}},
    'docref:name-rebound-none-is-order-dependent': {
        'docs': _Q_ENTRY + " (only one item, 'a', was matched for n)",
        'strength': 'clear', 'quirk': 'namenone',
        'note': "n:['b'] n:'a' on 'a' gives {n: 'a'}: whether an unmatched optional counts as an item depends on the order",
        'example': {'ir': _g(('start', ('seq', [('named', False, 'n', _t('a')), ('named', False, 'n', ('opt', _t('b')))]))),
                    'grammar': "start = n:'a' n:['b'] ;\n", 'input': 'a',
                    'implementation': ['ok', {'dict': {'n': ['a', None]}}], 'documented': ['ok', {'dict': {'n': 'a'}}]}},
    'docref:void-value-dropped': {
        'docs': 'syntax.rst: "The empty expression. Succeed without advancing over input. Its value is the empty tuple ``()``."',
        'strength': 'clear', 'quirk': 'void',
        'note': "the implementation itself gives () where a name looks (n:() is {n: ()}, n:('a' ()) is {n: ['a', ()]}) but drops it "
                "from the elements of a rule (start = () is None). NB the C01 brief assumed `()` contributes nothing; the docs say otherwise",
        'example': {'ir': _g(('start', ('seq', [_t('a'), 'void']))), 'grammar': "start = 'a' () ;\n", 'input': 'a',
                    'implementation': ['ok', 'a'], 'documented': ['ok', ['a', {'tuple': []}]]}},
    'docref:none-rule-value-dropped-when-first': {
        'docs': 'syntax.rst: "The parser returns an `AST`_ value for each rule depending on what was parsed: ... None" + ' + _Q_ELEMS,
        'strength': 'weak', 'quirk': 'none',
        'note': "the docs do not say whether a rule whose value is None is an element of its caller; the implementation answers both "
                "ways: start = 'x' r gives ['x', None], start = r 'x' gives 'x' (and n:('x' r) gives {n: 'x'}), so one of them deviates "
                'under any reading. The reference takes the rule value as one element (property C01)',
        'example': {'ir': _g(('start', ('seq', [('call', 'r'), _t('x')])), ('r', ('look', True, _t('a')))),
                    'grammar': "start = r 'x' ;\nr = !'a' ;\n", 'input': 'x',
                    'implementation': ['ok', 'x'], 'documented': ['ok', [None, 'x']]}},
    'docref:override-rebound-group-value-flattened': {
        'docs': _Q_OVER + ' + ' + _Q_ENTRY,
        'strength': 'weak', 'quirk': 'overflat',
        'note': "the docs do not say what several overrides in one rule give (DOC_SILENT S11: they accumulate like a name); the "
                "accumulation is order dependent: @:'c' @:('a' 'b') gives ['c', ['a', 'b']]",
        'example': {'ir': _g(('start', ('seq', [('over', False, _AB), ('over', False, _t('c'))]))),
                    'grammar': "start = @:('a' 'b') @:'c' ;\n", 'input': 'a b c',
                    'implementation': ['ok', ['a', 'b', 'c']], 'documented': ['ok', [['a', 'b'], 'c']]}},
}

# quirk -> signature (a quirk makes the reference behave like the implementation at that one place)
QUIRK_SIGNATURE: dict = {
    'void': 'void-value-dropped',
    'none': 'none-rule-value-dropped-when-first',
    'openrule': 'override-list-flattened-into-caller',
    'define': 'names-missing',
    'nameflat': 'name-rebound-group-value-flattened',
    'namenone': 'name-rebound-none-is-order-dependent',
    'overflat': 'override-rebound-group-value-flattened',
    'patgroup': 'pattern-multigroup-not-tuple',
    'overdict': 'nested-override-leaks-internal-dict',
}


def kind(e):
    return e if isinstance(e, str) else e[0]


# =====================================================================================================================
# The reference interpreter
# =====================================================================================================================
class Fail(Exception):
    """PEG failure; .cut: a cut was passed in the innermost enclosing cut scope before the failure"""

    def __init__(self, cut=False):
        Exception.__init__(self)
        self.cut = cut


class Unsupported(Exception):
    pass


class OutOfBudget(Exception):
    pass


class Dual:
    """(quirk 'overdict' only) an element whose contribution to the rule differs from the value a name / override around it sees"""

    def __init__(self, items, rv):
        self.items = items
        self.rv = rv


def undual(items):
    if not any(isinstance(x, Dual) for x in items):
        return items
    out = []
    for x in items:
        if isinstance(x, Dual):
            out.extend(undual(x.items))
        else:
            out.append(x)
    return out


class Open(list):
    """The value of a group of several elements: a list that is still 'open' inside the implementation.  The documented
    semantics never looks at the difference (an Open is a list); only quirks do."""


_DICT_ATTRS = set(dir(dict))


def safe_name(name: str) -> str:
    """syntax.rst: 'If name collides with any attribute or method of dict, or is a Python keyword, an underscore (_) will be
    appended to the name.'"""
    while name in _DICT_ATTRS or keyword.iskeyword(name):
        name += '_'
    return name


def const_value(text: str):
    """syntax.rst: 'If the text evaluates to a Python literal (with ast.literal_eval()), that will be the returned value.'"""
    import ast as pyast
    v = text
    for _ in range(8):
        if not isinstance(v, str):
            break
        try:
            w = pyast.literal_eval(v.strip())
        except (ValueError, SyntaxError):
            break
        if w == v:
            break
        v = w
    return v


def strip_groups(e):
    while kind(e) == 'group':
        e = e[1]
    return e


def static_names(e, with_sep=True):
    """(single names, list names) that occur in e, not looking into called rules (with_sep: also in the separators of joins)"""
    single, lst = set(), set()

    def go(x):
        k = kind(x)
        if k == 'named':
            (lst if x[1] else single).add(safe_name(x[2]))
            go(x[3])
        elif k in ('seq', 'choice'):
            for y in x[1]:
                go(y)
        elif k in ('group', 'skipgroup', 'opt', 'skipto'):
            go(x[1])
        elif k == 'rep':
            if with_sep and x[2] is not None:
                go(x[2])
            go(x[4])
        elif k == 'look':
            go(x[2])
        elif k == 'over':
            go(x[2])
    go(e)
    return single - lst, lst


ALL_QUIRKS = ('void', 'none', 'openrule', 'define', 'nameflat', 'namenone', 'overflat', 'patgroup', 'overdict')


class DocRef:
    def __init__(self, g, text: str, quirks=(), budget=200000, define_kinds=None):
        self.rules = {}
        for name, deco, e in g['rules']:
            if deco:
                raise Unsupported('decorators')
            self.rules[name] = e
        self.first = g['rules'][0][0]
        ws = r'\s+'
        for dname, dval in (g.get('directives') or {}).items():
            if dname == 'whitespace':
                ws = dval
            else:
                raise Unsupported('directive ' + dname)
        if g.get('keywords'):
            raise Unsupported('keywords')
        self.ws = re.compile(ws) if ws else None
        self.nameguard = self.ws is not None
        self.text = text
        self.q = frozenset(quirks)
        self.define_kinds = define_kinds    # the 'define' quirk restricted to rule bodies of these kinds ('sep': join separators)
        self.budget = budget
        self.active = set()
        self.depth = 0
        self._names = {}
        self.lone = set()       # kinds of the bodies of invoked rules whose names only the rule-level definition provides

    # ------------------------------------------------------------------ lexical level
    def skip_ws(self, pos):
        if self.ws is None:
            return pos
        while True:
            m = self.ws.match(self.text, pos)
            if not m or m.end() == pos:
                return pos
            pos = m.end()

    def token(self, tok, pos):
        pos = self.skip_ws(pos)
        if not tok or not self.text.startswith(tok, pos):
            raise Fail()
        end = pos + len(tok)
        if self.nameguard and tok.isalnum() and tok[0].isalpha() and end < len(self.text) and self.text[end].isalnum():
            raise Fail()
        return end

    def pattern(self, pat, pos):
        m = re.compile(pat).match(self.text, pos)
        if m is None:
            raise Fail()
        # syntax.rst: "The returned AST has the semantics of re.findall(pattern, text)[0] (a tuple if there is more than one group)"
        groups = tuple('' if x is None else x for x in m.groups())
        if len(groups) == 0:
            v = m.group()
        elif len(groups) == 1:
            v = groups[0]
        elif 'patgroup' in self.q:
            v = groups[0]
        else:
            v = groups
        return m.end(), v

    # ------------------------------------------------------------------ names
    def quirk_define(self, k):
        return 'define' in self.q and (self.define_kinds is None or k in self.define_kinds)

    def names_of(self, e):
        r = self._names.get(id(e))
        if r is None:
            # the implementation does not look into the separator of a join (Join.defines_* = exp only)
            r = static_names(e, with_sep=not self.quirk_define('sep'))
            if r != static_names(e, with_sep=False):
                self.lone.add('sep')
            self._names[id(e)] = r
        return r

    def define(self, env, e):
        single, lst = self.names_of(e)
        if not single and not lst:
            return env
        new = None
        for n in sorted(lst):
            if n not in env:
                new = new or dict(env)
                new[n] = (('defL',),)
        for n in sorted(single):
            if n not in (new or env):
                new = new or dict(env)
                new[n] = (('defS',),)
        return new or env

    @staticmethod
    def bind(env, name, islist, value):
        new = dict(env)
        new[name] = env.get(name, ()) + ((('add' if islist else 'set'), value),)
        return new

    def entry_value(self, events, flatq, noneq):
        """The AST entry of one name from what happened to it, in order.
        ast.rst: 'AST entries are single values if only one item was associated with a name, or [a list] if more than one item was
        matched. There's a provision in the grammar syntax (the +: operator) to force an AST entry to be a [list] even if only one
        element was matched. The value for named elements that were not found during the parse (perhaps because they are
        optional) is None.'"""
        if flatq in self.q or noneq in self.q:
            # what the implementation does: fold with cstadd / cstaddlist (an open list as accumulator is extended)
            missing = object()
            cur = missing
            for ev in events:
                if ev[0] == 'defL':
                    if cur is missing:
                        cur = Open()
                elif ev[0] == 'defS':
                    if cur is missing:
                        cur = None
                else:
                    v = ev[1]
                    if isinstance(v, Open) and flatq not in self.q:
                        v = list(v)
                    if v is None and noneq not in self.q and ev[0] == 'set':
                        if cur is missing:
                            cur = None
                        continue
                    c = None if cur is missing else cur
                    if c is None:
                        cur = Open([v]) if ev[0] == 'add' else v
                    elif isinstance(c, Open):
                        cur = Open([*c, v])
                    else:
                        cur = Open([c, v])
            return None if cur is missing else cur
        aslist = any(ev[0] in ('defL', 'add') for ev in events)
        vals = []
        for ev in events:
            if ev[0] == 'set':
                if ev[1] is not None:           # an optional that did not match was "not found": no item
                    vals.append(ev[1])
            elif ev[0] == 'add':
                vals.append(ev[1])               # S09
        if not aslist and len(vals) == 1:
            return vals[0]                       # (possibly an Open: the caller closes it)
        if not aslist and not vals:
            return None
        return Open(list(v) if isinstance(v, Open) else v for v in vals)

    # ------------------------------------------------------------------ element lists
    def state_items(self, items):
        """items that leave a scope of the implementation's state stack (option, optional, closure iteration, rule body)"""
        items = undual(items)
        if 'none' in self.q:
            # cstadd(None, None) is None: None-valued elements vanish while nothing else has been collected
            i = 0
            out = []
            while i < len(items) and (items[i] is None or (items[i] == () and 'void' in self.q)):
                if items[i] is not None:
                    out.append(items[i])
                i += 1
            items = out + items[i:]
        if 'openrule' in self.q:
            j = 0
            while j < len(items) and items[j] == () and 'void' in self.q:
                j += 1
            if j < len(items) and isinstance(items[j], Open):
                items = items[:j] + list(items[j]) + items[j + 1:]
        return items

    def cst_value(self, items):
        """value of a rule without names, of a closure iteration, of a separator: nothing -> None, one element -> the element,
        several -> the list of them"""
        items = self.state_items(items)
        if 'void' in self.q:
            items = [x for x in items if x != ()]
        if not items:
            return None
        if len(items) == 1:
            v = items[0]
            return list(v) if isinstance(v, Open) else v
        return [list(v) if isinstance(v, Open) else v for v in items]

    def exp_value(self, items):
        """value of e in name:e / @:e - 'the result of e'"""
        items = [x.rv if isinstance(x, Dual) else x for x in items]
        if 'none' in self.q:
            items = [x for x in items if x is not None]
        if 'openrule' in self.q and len(items) > 1:
            out = []
            for x in items:
                if isinstance(x, Open):
                    out.extend(x)
                else:
                    out.append(x)
            items = out
        if not items:
            return None
        if len(items) == 1:
            return items[0]
        return Open(list(v) if isinstance(v, Open) else v for v in items)

    # ------------------------------------------------------------------ rules
    def is_token_rule(self, name):
        return name.lstrip('_')[:1].isupper()         # S03

    def call_rule(self, name, pos):
        if name not in self.rules:
            raise Unsupported('no rule ' + name)
        if not self.is_token_rule(name):
            pos = self.skip_ws(pos)
        key = (name, pos)
        if key in self.active:
            raise Unsupported('left recursion')
        self.depth += 1
        if self.depth > 60:
            raise OutOfBudget()
        self.active.add(key)
        try:
            body = self.rules[name]
            env = {}
            if not self.quirk_define(kind(strip_groups(body))):
                # ast.rst: "a dict-derived object (AST) that contains one item for every named element in the grammar rule";
                # syntax.rst: "name is bound in the option in which it appears, or in the rule when there are no options."
                b = strip_groups(body)
                if kind(b) != 'choice':
                    env = self.define(env, b)
                    if env and kind(b) != 'seq':
                        self.lone.add(kind(b))
            try:
                pos, items, env, _ = self.ev(body, pos, env)
            except Fail:
                raise Fail(False) from None
            return pos, self.rule_value(items, env)
        finally:
            self.active.discard(key)
            self.depth -= 1

    def rule_value(self, items, env):
        if '@' in env:
            # syntax.rst: "The override operator. Make the AST for the complete rule or choice be the AST for e."
            v = self.entry_value(env['@'], 'overflat', 'namenone')
            if isinstance(v, Open) and 'openrule' not in self.q:
                v = list(v)
            return v
        if env:
            # ast.rst: "a dict-derived object (AST) that contains one item for every named element in the grammar rule";
            # syntax.rst: "When a rule has named elements, the unnamed ones are excluded from the AST (they are ignored)."
            out = {}
            for n, events in env.items():
                v = self.entry_value(events, 'nameflat', 'namenone')
                out[n] = list(v) if isinstance(v, Open) else v
            return out
        # syntax.rst: "When there are no named items in a rule or choice, the AST consists of the elements parsed by the rule,
        # either a single item or a list."
        return self.cst_value(items)

    # ------------------------------------------------------------------ expressions
    def ev(self, e, pos, env):
        """-> (pos, elements contributed to the enclosing sequence, env, a cut was passed in the current cut scope)"""
        self.budget -= 1
        if self.budget < 0:
            raise OutOfBudget()
        k = kind(e)
        if k == 'tok':
            return self.token(e[1], pos), [e[1]], env, False
        if k == 'pat':
            p, v = self.pattern(e[1], pos)
            return p, [v], env, False
        if k == 'const':
            if '{' in e[1]:
                raise Unsupported('interpolated constant')
            return self.skip_ws(pos), [const_value(e[1])], env, False
        if k == 'void':
            # syntax.rst: "The empty expression. Succeed without advancing over input. Its value is the empty tuple ()."
            return self.skip_ws(pos), [()], env, False
        if k == 'cut':
            return pos, [], env, True
        if k == 'eof':
            p = self.skip_ws(pos)
            if p < len(self.text):
                raise Fail()
            return p, [], env, False
        if k == 'dot':
            if pos >= len(self.text):
                raise Fail()
            return pos + 1, [self.text[pos]], env, False
        if k == 'empty':
            # syntax.rst: "Empty closure. Match nothing and produce an empty list as AST."
            return pos, [[]], env, False
        if k == 'seq':
            env = self.define(env, e)
            items, cut = [], False
            for x in e[1]:
                try:
                    pos, it, env, c = self.ev(x, pos, env)
                except Fail as f:
                    raise Fail(cut or f.cut) from None
                items = items + it
                cut = cut or c
            return pos, items, env, cut
        if k == 'choice':
            for o in e[1]:
                try:
                    p, it, env2, _ = self.ev(o, pos, self.define(env, o))
                    return p, self.state_items(it), env2, False
                except Fail as f:
                    if f.cut:
                        raise Fail(False) from None
            raise Fail(False)
        if k == 'group':
            return self.ev(e[1], pos, env)
        if k == 'skipgroup':
            # syntax.rst: "A non-capturing group. Like in a () group, match e, but this time do not capture what was parsed."
            try:
                p, _, _, _ = self.ev(e[1], pos, env)
            except Fail:
                raise Fail(False) from None
            return p, [], env, False
        if k == 'opt':
            inner = e[1]
            if 'define' in self.q and (kind(inner) == 'opt' or (kind(inner) == 'rep' and not inner[1])):
                return self.ev(inner, pos, env)           # the implementation optimises the optional away
            try:
                p, it, env2, _ = self.ev(inner, pos, self.define(env, inner))
                return p, self.state_items(it), env2, False
            except Fail as f:
                if f.cut:
                    raise Fail(False) from None
                return pos, [], env, False
        if k == 'look':
            try:
                self.ev(e[2], pos, env)
                ok = True
            except Fail:
                ok = False
            if ok == bool(e[1]):
                raise Fail(False)
            return pos, [], env, False
        if k == 'skipto':
            n = len(self.text)
            while pos < n:
                try:
                    self.ev(e[1], pos, env)
                    break
                except Fail:
                    pass
                p = self.skip_ws(pos)
                pos = p if p != pos else pos + 1
            return self.ev(e[1], pos, env)
        if k == 'call':
            p, v = self.call_rule(e[1], pos)
            # a rule's value is ONE element of its caller
            return p, [v], env, False
        if k == 'named':
            p, it, env, c = self.ev(e[3], pos, env)
            return p, it, self.bind(env, safe_name(e[2]), e[1], self.exp_value(it)), c
        if k == 'over':
            p, it, env, c = self.ev(e[2], pos, env)
            v = self.exp_value(it)
            # syntax.rst: "Like =e, but make the AST always be a list."
            first = e[1] and '@' not in env
            env = self.bind(env, '@', first, v)
            if 'overdict' in self.q:
                it = [Dual(it, {'__vallue__': [v] if first else v})]
            return p, it, env, c
        if k == 'rep':
            return self.rep(e, pos, env)
        raise Unsupported(k)

    def rep(self, e, pos0, env0):
        _, plus, sep, omit, x = e
        # syntax.rst: {x} == B -> xB | eps ; {x}+ == B -> xB | x ; s%{e}+ parses as e {s ~ e} ; s%{e} == s%{e}+ | {}
        try:
            pos, it, env, first_cut = self.ev(x, pos0, env0)
        except Fail as f:
            if plus or f.cut:
                raise Fail(False) from None
            return pos0, [[]], env0, False
        out = [self.cst_value(it)]
        while True:
            p, en, cut = pos, env, False
            elems = []
            try:
                if sep is not None:
                    p, its, en, c = self.ev(sep, p, en)
                    if not omit:
                        elems.append(self.cst_value(its))
                    cut = True
                p, it, en, c = self.ev(x, p, en)
                cut = cut or c
                elems.append(self.cst_value(it))
                if p == pos:
                    raise Fail(cut)                          # S05
            except Fail as f:
                if cut or f.cut:
                    if plus or first_cut:
                        raise Fail(False) from None
                    return pos0, [[]], env0, False           # S13
                break
            while elems and elems[0] is None:           # S06: a later iteration without value adds nothing
                elems = elems[1:]
            out += elems
            pos, env = p, en
        return pos, [out], env, False

    # ------------------------------------------------------------------ entry
    def parse(self, start=None):
        try:
            _, v = self.call_rule(start or self.first, 0)
        except Fail:
            return ('fail', None)
        return ('ok', canon(v))


def canon(v):
    """same canonical form as enginelib.canon"""
    if isinstance(v, dict):
        return {'dict': dict(sorted((str(k), canon(x)) for k, x in v.items()))}
    if isinstance(v, tuple):
        return {'tuple': [canon(x) for x in v]}
    if isinstance(v, list):
        return [canon(x) for x in v]
    if isinstance(v, bool):
        return {'bool': v}
    if v is None or isinstance(v, (int, str)):
        return v
    return {'other': type(v).__name__}


def ref_outcome(g, text, start=None, quirks=(), define_kinds=None):
    """('ok', canon) | ('fail', None) | ('unsupported', why) | ('budget', None)"""
    try:
        return DocRef(g, text, quirks, define_kinds=define_kinds).parse(start)
    except Unsupported as e:
        return ('unsupported', str(e))
    except (OutOfBudget, RecursionError):
        return ('budget', None)


# =====================================================================================================================
# Differential driver
# =====================================================================================================================
def explain(g, text, start, impl):
    """smallest set of quirks under which the reference gives the implementation's outcome; None when there is none"""
    import itertools
    for n in range(1, 4):
        for qs in itertools.combinations(ALL_QUIRKS, n):
            if ref_outcome(g, text, start, qs) == impl:
                return qs
    if ref_outcome(g, text, start, ALL_QUIRKS) == impl:
        return ALL_QUIRKS
    return None


_LONE = {'opt': 'lone-optional', 'rep': 'lone-closure', 'named': 'lone-named', 'look': 'lone-lookahead',
         'skipgroup': 'lone-skipgroup', 'skipto': 'lone-skipto', 'over': 'lone-override', 'sep': 'sep'}


def lost_name_places(g, text, start, qs, impl):
    """the kinds of rule bodies (and 'sep') for which the missing rule-level definition of names explains the implementation"""
    import itertools
    r = DocRef(g, text)
    try:
        r.parse(start)
    except Exception:  # noqa
        pass
    kinds = sorted(r.lone)
    for n in range(1, len(kinds) + 1):
        for ks in itertools.combinations(kinds, n):
            if ref_outcome(g, text, start, qs, define_kinds=set(ks)) == impl:
                return sorted(_LONE.get(k, 'lone-' + k) for k in ks)
    return sorted(_LONE.get(k, 'lone-' + k) for k in kinds)


def signature_of(g, text, start, impl, ref):
    if impl[0] == 'exc':
        return 'docref:impl-exception:' + str(impl[1])
    qs = explain(g, text, start, impl)
    if qs is None:
        import enginerun as R
        return f'docref:unexplained:{R.kinds_signature(R.Case(g, text, start))}:impl={impl[0]}:ref={ref[0]}'
    parts = []
    for q in qs:
        s = QUIRK_SIGNATURE[q]
        if q == 'define':
            s = s + ':' + ','.join(lost_name_places(g, text, start, qs, impl))
        parts.append(s)
    return 'docref:' + '+'.join(parts)


def signature_parts(sig):
    """'docref:a+names-missing:x,y' -> ['docref:a', 'docref:names-missing:x', 'docref:names-missing:y']"""
    out = []
    for part in sig[len('docref:'):].split('+'):
        if part.startswith('names-missing:'):
            out += ['docref:names-missing:' + k for k in part[len('names-missing:'):].split(',')]
        else:
            out.append('docref:' + part)
    return out


def _outcomes(c):
    import enginerun as R
    m = R.compile_grammar(c.g)
    if isinstance(m, tuple):
        return None, None
    io, _ = R.impl_outcome(c, m)
    return io, ref_outcome(c.g, c.text, c.start)


def _new_stats():
    return {'cases': 0, 'agree': 0, 'skipped': {}, 'findings': {}}


def _compare(stats, chk, c, shrink=True, verbose=False):
    import enginerun as R
    import enginelib as E

    def skip(why):
        stats['skipped'][why] = stats['skipped'].get(why, 0) + 1
        if chk is not None:
            chk.count('docref.skipped.' + why)

    io, ro = _outcomes(c)
    if io is None:
        return skip('uncompilable')
    if io[0] in ('timeout', 'recursion'):
        return skip('impl-' + io[0])
    if ro[0] in ('unsupported', 'budget'):
        return skip('ref-' + ro[0])
    stats['cases'] += 1
    if chk is not None:
        chk.case(json.dumps([E.grammar_text(c.g), c.text, c.start]), nontrivial=len(c.text) > 0)
        chk.count('docref.cases')
    if io == ro:
        stats['agree'] += 1
        return None
    sig = signature_of(c.g, c.text, c.start, io, ro)
    small = c
    if shrink and (sig not in stats['findings'] or 'unexplained' in sig):
        def bad(cc, want=sig):
            a, b = _outcomes(cc)
            if a is None or a[0] in ('timeout', 'recursion') or b[0] in ('unsupported', 'budget') or a == b:
                return False
            if 'unexplained' in want:
                return True
            return signature_of(cc.g, cc.text, cc.start, a, b) == want
        small = R.shrink_case(c, bad, budget=600)
        io, ro = _outcomes(small)
        if 'unexplained' in sig:
            sig = signature_of(small.g, small.text, small.start, io, ro)
    ent = stats['findings'].setdefault(sig, {'count': 0, 'example': None})
    ent['count'] += 1
    ex = {'grammar': E.grammar_text(small.g), 'input': small.text, 'start': small.start,
          'implementation': list(io), 'documented': list(ro)}
    size = len(ex['grammar']) + len(ex['input'])
    if ent['example'] is None or (small is not c and size < ent.get('_size', 1 << 30)):
        ent['example'] = ex
        ent['_size'] = size
    if verbose:
        print(sig, json.dumps(ex), flush=True)
    if chk is not None:
        chk.count('docref.' + sig)
    return sig


def _finish(stats):
    for ent in stats['findings'].values():
        ent.pop('_size', None)
    return stats


def run(chk, seed=0, ngrammars=300, ninputs=10, shrink=True, verbose=False, gencfg=None):
    """Random grammars (enginegen.gen_grammar, `ngrammars` of them, the generator settings of harness/props/c01.py unless
    `gencfg` overrides GenCfg fields) with about `ninputs` inputs each (enginegen.gen_inputs; the first rule and sometimes
    another rule as start): the implementation (enginerun.compile_grammar / impl_outcome) against DocRef.  Returns
        {'cases': compared, 'agree': n, 'skipped': {why: n}, 'findings': {signature: {'count': n, 'example': {...}}}}
    `chk`: a vlib.Check (cases and counts are recorded on it; nothing is reported as a violation) or None."""
    import enginegen as G
    import enginerun as R
    rng = random.Random(seed)
    stats = _new_stats()
    for gi in range(ngrammars):
        kw = {'ws_patterns': gi % 7 == 0}
        kw.update(gencfg or {})
        g = G.gen_grammar(rng, G.GenCfg(**kw), depth=rng.choice([2, 3, 3, 4]))
        starts = [None]
        if len(g['rules']) > 1 and rng.random() < 0.3:
            starts.append(rng.choice(g['rules'][1:])[0])
        for st in starts:
            for t in G.gen_inputs(rng, g, ninputs, st):
                _compare(stats, chk, R.Case(g, t[:48], st), shrink, verbose)
    return _finish(stats)


# ---- fixed corpus: the examples of DEVIATIONS, hand-written probes for places the random generator cannot reach (names in a
# ---- join separator, a name bound twice, ...) and every pair of element kinds in one sequence (the pool of c01.shard_shapes)
def _probes():
    T, P = _t, (lambda x: ('pat', x))
    S = lambda *a: ('seq', list(a))                                         # noqa: E731
    C = lambda *a: ('choice', list(a))                                      # noqa: E731
    N = lambda n, e: ('named', False, n, e)                                 # noqa: E731
    NL = lambda n, e: ('named', True, n, e)                                 # noqa: E731
    Gp = lambda e: ('group', e)                                             # noqa: E731
    Opt = lambda e: ('opt', e)                                              # noqa: E731
    Rep = lambda e, plus=False, sep=None, omit=False: ('rep', plus, sep, omit, e)   # noqa: E731
    out = [(d['example']['ir'], [d['example']['input']]) for d in DEVIATIONS.values()]
    out += [
        (_g(('start', S(T('x'), Rep(T('a'), sep=Gp(N('n', T(',')))))),), ['x', 'x a', 'x a,a']),
        (_g(('start', S(N('n', T('a')), N('n', Opt(T('b'))))),), ['a', 'a b']),
        (_g(('start', S(N('n', Opt(T('b'))), N('n', T('a')))),), ['a', 'b a']),
        (_g(('start', S(N('n', T('c')), N('n', _AB))),), ['c a b']),
        (_g(('start', S(('over', False, T('c')), ('over', False, _AB))),), ['c a b']),
        (_g(('start', S(T('x'), ('look', False, N('n', T('a'))), T('a'))),), ['x a']),
        (_g(('start', S(T('x'), ('skipgroup', N('n', T('a'))))),), ['x a']),
        (_g(('start', ('skipto', N('n', T('b')))),), ['zzb', 'b', 'zz']),
        (_g(('start', S(T('x'), ('skipto', T('b')))),), ['x zz b', 'x  b', 'x b b']),
        (_g(('start', S(T('x'), ('skipto', P(r' b')))),), ['x  b', 'x b']),
        (_g(('start', S(N('n', T('a')), NL('n', T('b')))),), ['a b']),
        (_g(('start', S(NL('n', T('a')), N('n', T('b')))),), ['a b']),
        (_g(('start', NL('n', Opt(T('a')))),), ['', 'a']),
        (_g(('start', C(S(N('n', T('a')), T('x')), S(N('m', T('a')), T('y')))),), ['a y', 'a x', 'a']),
        (_g(('start', S(T('x'), Gp(C(N('n', T('a')), N('m', T('b')))))),), ['x a', 'x b']),
        (_g(('start', S(Rep(S(N('n', T('a')), T('b'))), T('a'))),), ['a b a', 'a b a b a', 'a']),
        (_g(('start', S(Opt(S(N('n', T('a')), T('b'))), T('a'))),), ['a b a', 'a']),
        (_g(('start', S(T('a'), 'dot')),), ['a b', 'a\nb', 'ab', 'a']),
        (_g(('start', S(T('a'), ('const', 'k'), P(r'\s*b'))),), ['a b', 'ab']),
        (_g(('start', S(T('a'), 'void', P(r'\s*b'))),), ['a b']),
        (_g(('start', S(T('a'), 'empty', P(r'\s*b'))),), ['a b']),
        (_g(('start', S(T('a'), 'eof')),), ['a ', 'a b', 'a']),
        (_g(('start', S(T('if'), T('x'))),), ['ifx', 'if x', 'if_x']),
        (_g(('start', Rep(T('a'), sep=T(','), plus=True)),), ['a,a', 'a,', 'a , a ,', '']),
        (_g(('start', S(Rep(T('a'), sep=T(',')), Opt(T(',')))),), ['a,a', 'a,', 'a , a ,', '', ',']),
        (_g(('start', Rep(S(T('a'), T('b')), sep=T(','), omit=True)),), ['a b,a b', 'a b, a', 'a b']),
        (_g(('start', Rep(T('a'), sep=Gp(S(T(','), T('+'))))),), ['a,+a', 'a,+ a , + a', 'a,a']),
        (_g(('start', Rep(S(T('a'), 'cut', T('b')))),), ['a b a b', 'a b a c', 'a c', '']),
        (_g(('start', Rep(Opt(T('a')))),), ['', 'a', 'a a']),
        (_g(('start', Rep(('skipgroup', T('a')))),), ['', 'a', 'a a']),
        (_g(('start', Rep(('skipgroup', T('a')), sep=T(','))),), ['a,a', 'a']),
        (_g(('start', C(S(T('a'), 'cut', T('b')), T('a'))),), ['a b', 'a']),
        (_g(('start', C(S(Gp(S(T('a'), 'cut')), T('b')), T('a'))),), ['a b', 'a']),
        (_g(('start', C(S(Opt(S(T('a'), 'cut', T('c'))), T('a')), T('a'))),), ['a c a', 'a']),
        (_g(('start', S(('call', 'Up'), ('call', 'low'))), ('Up', P('[ab]')), ('low', P('[ab]'))), ['a b', ' a b', 'ab', 'a  b']),
        (_g(('start', S(T('a'), ('call', '_Up'))), ('_Up', P('[ab]'))), ['a b', 'ab']),
        (_g(('start', S(T('x'), ('call', 'r'), T('y'))), ('r', Rep(T('a')))), ['x y', 'x a a y']),
        (_g(('start', S(T('x'), ('call', 'r'))), ('r', S(N('n', T('a')), T('b')))), ['x a b']),
        (_g(('start', S(T('x'), Opt(('call', 'r')))), ('r', ('over', False, _AB))), ['x a b', 'x']),
        (_g(('start', N('n', Gp(S(T('x'), ('call', 'r'))))), ('r', ('over', False, _AB))), ['x a b']),
        (_g(('start', S(T('x'), ('call', 'r'))), ('r', ('look', False, T('a')))), ['x a']),
        (_g(('start', N('n', Gp(S(T('x'), ('call', 'r'))))), ('r', ('look', False, T('a')))), ['x a']),
        (_g(('start', S(('over', True, T('a')), Rep(S(T(','), ('over', True, T('a')))))),), ['a', 'a,a,a']),
        (_g(('start', S(T('('), ('over', False, ('call', 'r')), T(')'))), ('r', Rep(T('a')))), ['( a a )', '()']),
        (_g(('start', S(N('n', T('a')), Opt(('over', False, T('b'))))),), ['a', 'a b']),
        (_g(('start', N('n', 'void')),), ['']),
        (_g(('start', N('n', Gp(S(T('a'), 'void')))),), ['a']),
        (_g(('start', ('over', False, 'void')),), ['']),
        (_g(('start', N('items', T('a'))),), ['a']),
        (_g(('start', N('n', ('const', '42'))),), ['']),
    ]
    return out


SHAPE_POOL = [
    ('tok', 'a'), ('pat', r'\d+'),
    ('rep', False, None, False, ('tok', 'a')), ('rep', True, None, False, ('tok', 'b')),
    ('rep', False, ('tok', ','), False, ('tok', 'a')), ('rep', True, ('tok', ','), True, ('tok', 'b')),
    ('group', ('seq', [('tok', 'b'), ('tok', 'c')])), ('opt', ('seq', [('tok', 'b'), ('tok', 'c')])), ('opt', ('tok', 'b')),
    ('choice', [('seq', [('tok', 'b'), ('tok', 'c')]), ('tok', 'a')]),
    ('call', 'lst'), ('call', 'one'), ('call', 'clo'), ('call', 'ovr'), ('call', 'non'), ('call', 'dic'),
    ('named', False, 'n', ('tok', 'a')), ('named', True, 'm', ('tok', 'b')), ('over', False, ('tok', 'c')),
    'empty', 'void', ('const', 'k'), ('look', False, ('tok', 'a')), ('skipgroup', ('tok', 'a')),
    ('named', False, 'n', ('group', ('seq', [('tok', 'b'), ('tok', 'c')]))), ('named', False, 'n', ('rep', False, None, False, ('tok', 'a'))),
    ('named', False, 'n', ('call', 'ovr')), ('over', True, ('tok', 'c')), ('over', False, ('group', ('seq', [('tok', 'b'), ('tok', 'c')]))),
]
SHAPE_AUX = [('lst', [], ('seq', [('tok', 'a'), ('tok', 'b')])), ('one', [], ('tok', 'a')), ('clo', [], ('rep', False, None, False, ('tok', 'c'))),
             ('ovr', [], ('over', False, ('group', ('seq', [('tok', 'a'), ('tok', 'b')])))), ('non', [], ('look', False, ('tok', 'a'))),
             ('dic', [], ('seq', [('named', False, 'k', ('tok', 'a')), ('tok', 'b')]))]


def run_corpus(chk, seed=0, shrink=True, verbose=False, part=(0, 1)):
    """The fixed corpus: DEVIATIONS examples, hand-written probes, and every ordered pair of SHAPE_POOL in one sequence with
    sampled sentences.  Same result shape as `run`."""
    import itertools
    import enginegen as G
    import enginerun as R
    rng = random.Random(seed)
    stats = _new_stats()
    # part = (i, n): this call handles every n-th item starting at i (the corpus is spread over the check's worker processes)
    for j, (g, texts) in enumerate(_probes()):
        if j % part[1] != part[0]:
            continue
        for t in texts:
            _compare(stats, chk, R.Case(g, t), shrink, verbose)
    for j, pair in enumerate(itertools.product(SHAPE_POOL, repeat=2)):
        if j % part[1] != part[0]:
            continue
        g = {'rules': [('start', [], ('seq', list(pair)))] + SHAPE_AUX, 'directives': {}, 'keywords': []}
        texts = {''}
        for _ in range(3):
            texts.add(G.join_lexemes(rng, G.sample_sentence(rng, g, g['rules'][0][2]), gaps=(' ',)))
        full = []
        for e in pair:      # the sentence in which every optional part is present
            k = kind(e)
            if k == 'rep':
                one = G.sample_sentence(rng, g, e[4])
                sep = G.sample_sentence(rng, g, e[2]) if e[2] is not None else []
                full += one + sep + one
            elif k == 'opt':
                full += G.sample_sentence(rng, g, e[1])
            else:
                full += G.sample_sentence(rng, g, e)
        texts.add(' '.join(full))
        for t in sorted(texts):
            _compare(stats, chk, R.Case(g, t), shrink, verbose)
    return _finish(stats)


def verify_deviations(repo=None):
    """Replay every DEVIATIONS example on the implementation and the reference, check its signature, and check that every
    quoted sentence stands in the docs.  -> list of problems (empty when all is as recorded)."""
    import os
    import enginelib as E
    import enginerun as R
    repo = repo or os.environ.get('VERIF_REPO', '/repo')
    docs = {}
    for f in ('syntax.rst', 'ast.rst', 'semantics.rst'):
        try:
            docs[f] = ' '.join(Path(repo, 'docs', f).read_text(encoding='utf-8').split())
        except OSError:
            docs[f] = ''
    problems = []
    for q in ALL_QUIRKS:
        if not any(d['quirk'] == q for d in DEVIATIONS.values()):
            problems.append(f'quirk {q} has no entry in DEVIATIONS')
    for sig, d in DEVIATIONS.items():
        ex = d['example']
        if E.grammar_text(ex['ir']) != ex['grammar']:
            problems.append(f'{sig}: grammar text is {E.grammar_text(ex["ir"])!r}')
        io, ro = _outcomes(R.Case(ex['ir'], ex['input']))
        if io is None or list(io) != ex['implementation']:
            problems.append(f'{sig}: implementation gives {io!r}')
        if ro is None or list(ro) != ex['documented']:
            problems.append(f'{sig}: reference gives {ro!r}')
        if io is not None and ro is not None and io != ro:
            got = signature_of(ex['ir'], ex['input'], None, io, ro)
            if got != sig:
                problems.append(f'{sig}: classified as {got}')
        # every "..." that follows '<file>: ' must be a sentence (or clause) of that file
        fname = None
        for piece in re.split(r'(\w+\.rst: )', d['docs']):
            if piece.endswith('.rst: '):
                fname = piece[:-2]
                continue
            for quote in re.findall(r'"([^"]+)"', piece):
                for frag in quote.split(' ... '):
                    if fname and ' '.join(frag.split()) not in docs.get(fname, ''):
                        problems.append(f'{sig}: quotation not found in {fname}: {frag!r}')
    return problems


def merge_stats(*all_stats):
    out = _new_stats()
    for st in all_stats:
        out['cases'] += st['cases']
        out['agree'] += st['agree']
        for k, v in st['skipped'].items():
            out['skipped'][k] = out['skipped'].get(k, 0) + v
        for sig, ent in st['findings'].items():
            cur = out['findings'].setdefault(sig, {'count': 0, 'example': None})
            cur['count'] += ent['count']
            a, b = cur['example'], ent['example']
            if a is None or (b is not None and len(b['grammar']) + len(b['input']) < len(a['grammar']) + len(a['input'])):
                cur['example'] = b
    return out


def print_table(st, title):
    print(f"== {title}: compared {st['cases']}, agree {st['agree']}, disagree {st['cases'] - st['agree']}, skipped {st['skipped']}")
    print(f"{'signature':78s} {'count':>6s}  minimal example")
    for sig, ent in sorted(st['findings'].items(), key=lambda kv: (-kv[1]['count'], kv[0])):
        ex = ent['example'] or {}
        gtxt = ' '.join((ex.get('grammar') or '').split('\n')).strip()
        print(f"{sig:78s} {ent['count']:6d}  {gtxt}  on {ex.get('input')!r}"
              f"{'' if not ex.get('start') else ' start=' + ex['start']}:  implementation {json.dumps(ex.get('implementation'))}"
              f"  documented {json.dumps(ex.get('documented'))}")
    print()


def main(argv):
    seed = int(argv[1]) if len(argv) > 1 else 0
    ngrammars = int(argv[2]) if len(argv) > 2 else 300
    ninputs = int(argv[3]) if len(argv) > 3 else 10
    problems = verify_deviations()
    print('DEVIATIONS examples and quotations:', 'all verified' if not problems else 'PROBLEMS')
    for pr in problems:
        print('  ', pr)
    a = run(None, seed, ngrammars, ninputs)
    print_table(a, f'random (seed {seed}, {ngrammars} grammars x ~{ninputs} inputs)')
    # the same generator with the rarer constructs (names, overrides, `()`) made frequent
    b = run(None, seed + 1, max(1, ngrammars // 2), ninputs, gencfg={'names': 0.3, 'overrides': 0.15, 'voids': 0.08, 'consts': 0.06})
    print_table(b, f'random, names/overrides/voids boosted (seed {seed + 1})')
    c = run_corpus(None, seed)
    print_table(c, 'fixed corpus (DEVIATIONS examples, probes, pairs of element kinds)')
    tot = merge_stats(a, b, c)
    print_table(tot, 'TOTAL')
    unknown = sorted({p for sig in tot['findings'] for p in signature_parts(sig) if p not in DEVIATIONS})
    if unknown:
        print('signatures NOT listed in DEVIATIONS (a mistake of the reference, a silent spot of the docs, or a new deviation):')
        for u in unknown:
            print('  ', u)
    return 1 if (unknown or problems) else 0


if __name__ == '__main__':
    sys.exit(main(sys.argv))
