"""C14 - serialized grammar models reload to equivalent parsers; asjson always terminates and is dumpable."""
from __future__ import annotations

import dataclasses
import enum
import inspect
import json
import pickle
import re
import signal
import sys
import types
import weakref
from collections.abc import Mapping
from functools import cached_property
from pathlib import Path
from types import SimpleNamespace
from typing import Any, NamedTuple

sys.path.insert(0, str(Path(__file__).resolve().parent.parent))
import vlib
from vlib import Check, ModelRun, parse_sx

PID = 'C14'
sys.setrecursionlimit(4000)


# ===================================================================== s-expression encoding
def S(s: str) -> str:
    return '(' + ' '.join(str(ord(c)) for c in s) + ')'


def sx_list(items) -> str:
    return '(' + ' '.join(items) + ')'


def dec_str(x) -> str:
    if x == 'nil' or x == []:
        return ''
    return ''.join(chr(int(c)) for c in x)


class Unsupported(Exception):
    pass


BIG = 2 ** 61


# ===================================================================== real object graph -> heap
class HeapBuilder:
    """Translates a live Python object graph into the heap of Lib/Json.v.  The classification mirrors the
    dispatch order of asjson.dfs; everything below it (traversal, seen set, __pub__, ordering, rendering)
    is the model's business."""

    def __init__(self, tatsu_mods):
        self.t = tatsu_mods
        self.ids: dict[int, int] = {}
        self.nodes: dict[int, str] = {}
        self.keep: list = []
        self.dcfields: dict[str, list] = {}

    def val(self, x) -> str:
        t = self.t
        if x is None:
            return 'none'
        if isinstance(x, bool):
            return f'(b {1 if x else 0})'
        if isinstance(x, int):
            if abs(x) >= BIG:
                raise Unsupported('bigint')
            return f'(i {x})'
        if isinstance(x, float):
            return f'(f {S(repr(x))})'
        if isinstance(x, t.Style):
            return f'(y {S(repr(x))})'
        if isinstance(x, str):
            return f'(s {S(x)})'
        return f'(r {self.node(x)})'

    def node(self, x) -> int:
        t = self.t
        if id(x) in self.ids:
            return self.ids[id(x)]
        n = len(self.ids) + 1
        self.ids[id(x)] = n
        self.keep.append(x)
        ty = S(type(x).__name__)
        sentinel = object()
        if inspect.getattr_static(x, '__json__', sentinel) is not sentinel:     # runtime Protocol check is static
            if isinstance(x, type):
                kind = 'type'
            else:
                fn = getattr(type(x), '__json__', None)
                if fn is not t.AsJSONMixin.__json__:
                    raise Unsupported(f'custom __json__ {type(x).__name__}')
                pubfn = getattr(type(x), '__pub__', None)
                if pubfn is t.Rule.__pub__:
                    fl = 'rule'
                elif pubfn is t.BaseNode.__pub__:
                    fl = 'node'
                elif pubfn is t.AsJSONMixin.__pub__:
                    fl = 'mixin'
                else:
                    raise Unsupported(f'custom __pub__ {type(x).__name__}')
                dc = [f.name for f in dataclasses.fields(x)] if dataclasses.is_dataclass(x) else []
                self.dcfields.setdefault(type(x).__name__, dc)
                attrs = []
                for k, v in vars(x).items():
                    if inspect.ismethod(v):
                        continue
                    if isinstance(getattr(type(x), k, None), cached_property):
                        continue    # is_readonly_property: cached_property values never are public
                    if k.startswith('_'):
                        attrs.append(f'({S(k)} none)')      # never public: value irrelevant
                    else:
                        attrs.append(f'({S(k)} {self.val(v)})')
                kind = f'(obj {fl} {sx_list(S(f) for f in dc)} {sx_list(attrs)})'
        elif isinstance(x, enum.Enum):
            kind = f'(enum {self.val(x.value)})'
        elif isinstance(x, (weakref.ReferenceType, *weakref.ProxyTypes)):
            kind = 'weak'
        elif isinstance(x, tuple) and hasattr(x, '_fields') and hasattr(x, '_asdict') and len(x) > 0:
            kind = f'(named {sx_list(f"({S(str(k))} {self.val(v)})" for k, v in x._asdict().items())})'
        elif isinstance(x, Mapping):
            kind = f'(map {sx_list(f"({S(str(k))} {self.val(v)})" for k, v in x.items())})'
        elif isinstance(x, (list, tuple, set)):
            kind = f'(seq {sx_list(self.val(e) for e in x)})'
        elif isinstance(x, (bytes, bytearray)):
            kind = f'(opaque {S(repr(x))})'
        elif isinstance(x, (frozenset, type({}.keys()), type({}.values()), range)):
            kind = f'(seq {sx_list(self.val(e) for e in x)})'
        else:
            try:
                iter(x)
                raise Unsupported(f'iterable {type(x).__name__}')
            except TypeError:
                pass
            kind = f'(opaque {S(repr(x))})'
        self.nodes[n] = f'({n} ({ty} {kind}))'
        return n

    def heap(self) -> str:
        return sx_list(self.nodes[i] for i in sorted(self.nodes))


REF_RE = re.compile(r'^(.*)@0x([0-9A-F]+)$', re.S)


def canon_real_json(x, hb: HeapBuilder):
    """asjson output of the real code -> comparable structure (ids mapped to model ids)."""
    if x is None or isinstance(x, bool):
        return x
    if isinstance(x, int):
        return x
    if isinstance(x, float):
        return ('float', repr(x))
    if isinstance(x, str):
        m = REF_RE.match(x)
        if m:
            try:
                rid = int(m.group(2), 16)
            except ValueError:
                rid = None
            if rid in hb.ids:
                return f'{m.group(1)}@0x{hb.ids[rid]:X}'
        return str(x)
    if isinstance(x, list):
        return [canon_real_json(e, hb) for e in x]
    if isinstance(x, dict):
        return ('obj', [(k, canon_real_json(v, hb)) for k, v in x.items()])
    if isinstance(x, type) and id(x) in hb.ids:
        return ('py', hb.ids[id(x)])
    return ('raw', type(x).__name__)


def canon_obj_order(x, dcfields):
    """BaseNode.__pub__ orders the attributes that are not dataclass fields by the iteration order of a set
    (hash order): compare those as a sorted tail on both sides."""
    if isinstance(x, list):
        return [canon_obj_order(e, dcfields) for e in x]
    if isinstance(x, tuple) and x and x[0] == 'obj':
        items = [(k, canon_obj_order(v, dcfields)) for k, v in x[1]]
        if items and items[0][0] == '__class__' and isinstance(items[0][1], str) and items[0][1] in dcfields:
            dc = dcfields[items[0][1]]
            head = [kv for kv in items[1:] if kv[0] in dc or kv[0] == 'exp']
            tail = sorted((kv for kv in items[1:] if not (kv[0] in dc or kv[0] == 'exp')), key=lambda kv: kv[0])
            items = [items[0]] + head + tail
        return ('obj', items)
    return x


def model_json_to_py(r):
    if r == 'null':
        return None
    if r == 'oof':
        return ('oof',)
    tag = r[0]
    if tag == 'b':
        return r[1] == '1'
    if tag == 'i':
        return int(r[1])
    if tag == 'f':
        return ('float', dec_str(r[1]))
    if tag == 's':
        return dec_str(r[1])
    if tag == 'a':
        return [model_json_to_py(e) for e in r[1]]
    if tag == 'o':
        return ('obj', [(dec_str(k), model_json_to_py(v)) for k, v in r[1]])
    if tag == 'py':
        return ('py', int(r[1]))
    raise ValueError(f'model json {r!r}')


def json_to_sx(x) -> str:
    """json.loads-like value -> model json"""
    if x is None:
        return 'null'
    if isinstance(x, bool):
        return f'(b {1 if x else 0})'
    if isinstance(x, int):
        return f'(i {x})'
    if isinstance(x, float):
        return f'(f {S(repr(x))})'
    if isinstance(x, str):
        return f'(s {S(x)})'
    if isinstance(x, list):
        return f'(a {sx_list(json_to_sx(e) for e in x)})'
    if isinstance(x, dict):
        return f'(o {sx_list(f"({S(k)} {json_to_sx(v)})" for k, v in x.items())})'
    raise Unsupported(type(x).__name__)


class Timeout(Exception):
    pass


class time_limit:
    def __init__(self, seconds):
        self.seconds = seconds

    def __enter__(self):
        def handler(signum, frame):
            raise Timeout()
        self.old = signal.signal(signal.SIGALRM, handler)
        signal.alarm(self.seconds)

    def __exit__(self, *a):
        signal.alarm(0)
        signal.signal(signal.SIGALRM, self.old)


# ===================================================================== tatsu imports + harness classes
def load_tatsu():
    import tatsu
    import tatsu.api
    from tatsu import peg
    from tatsu.contexts import AST
    from tatsu.ngcodegen.grammar_gen import parsermodel_gen
    from tatsu.objectmodel import Node, nodedataclass
    from tatsu.config import ParserConfig
    from tatsu.input import NullText
    from tatsu.objectmodel.basenode import BaseNode
    from tatsu.peg import Grammar, Rule
    from tatsu.util import fromjson as fj_mod
    from tatsu.util.asjson import AsJSONMixin, asjson
    from tatsu.util.fromjson import JSONBase, fromjson
    from tatsu.ztyle import Color, Style

    class C14Mix(AsJSONMixin):
        pass

    @nodedataclass
    class C14Bin(Node):
        left: Any = None
        right: Any = None
        tag: Any = dataclasses.field(init=False, default=None)

    @nodedataclass
    class C14Leaf(Node):
        pass

    class C14Color(enum.Enum):
        RED = 1
        NAME = 'f{x'
        LST = ('a', 2)

    class C14NT(NamedTuple):
        a: Any
        b: Any

    class C14Assoc(enum.Enum):
        LEFT = 'left'
        RIGHT = 'right'

    class C14Op(enum.Enum):
        # members declared with several values, some of which only asjson() knows how to render
        ADD = ('+', 10, C14Assoc.LEFT, frozenset({'num'}))
        POW = ['^', 30, C14Assoc.RIGHT, (C14Color.RED, C14Color.LST)]
        NEG = {'symbol': '-', 'assoc': C14Assoc.RIGHT, 'kinds': (frozenset({C14Assoc.LEFT}),)}
        NT = C14NT(C14Assoc.LEFT, (1, 2))
        ONE = (C14Assoc.LEFT,)
        NONE = ()

    @nodedataclass
    class C14Rec(Node):
        a: Any = None
        b: Any = None
        c: Any = None

    class C14Opaque:
        def __repr__(self):
            return '<opaque f{>'

    SENT = ('<unset>',)

    @dataclasses.dataclass
    class C14Data(JSONBase):
        a: Any = SENT
        b: Any = SENT
        c: Any = dataclasses.field(init=False, default=SENT)

    class C14Plain(JSONBase):
        pass

    return SimpleNamespace(**locals())


# ===================================================================== J1: asjson vs model on object graphs
SCALARS = [None, True, False, 0, 1, -5, 2 ** 40, 1.5, -0.0, 'a', '', 'f{x', '\\e[1m', 'list@0x1', '~', '{a:b}', 'é']


def hashable_det(rng, t, objs):
    """a hashable value whose hash does not depend on an address (the iteration order of the set it goes into is the same
    in every run): strings, numbers, enum members (hashed by name), tuples of those"""
    members = [o for o in objs if isinstance(o, enum.Enum)] + list(t.C14Assoc) + list(t.C14Color)[:2] + [t.C14Op.ADD, t.C14Op.ONE]
    r = rng.random()
    if r < 0.4:
        return rng.choice(['a', 'b', 'f{', '', 1, 2, 0, None, 1.5])
    if r < 0.75:
        return rng.choice(members)      # (Enum members hash by name, whatever their value)
    return (rng.choice(['a', 'f{', 1]), rng.choice(members[-6:]))


def gen_set(rng, t, objs):
    """set / frozenset whose elements are scalars, enum members, tuples - or one object hashed by identity (a node, a
    weakref, an opaque object): elements that only asjson() knows how to render"""
    r = rng.random()
    if r < 0.25:
        elems = [rng.choice(['a', 'b', 'f{']), rng.choice([1, 2])]
    elif r < 0.45:
        byid = [o for o in objs if not isinstance(o, (dict, list, set, enum.Enum, tuple, bytes, type, str))]
        elems = [rng.choice(byid)] if byid else [t.C14Assoc.LEFT]
        try:
            hash(elems[0])
        except Exception:   # noqa: BLE001
            elems = [t.C14Assoc.LEFT]
    else:
        elems = [hashable_det(rng, t, objs) for _ in range(rng.randint(1, 3))]
    return (frozenset if rng.random() < 0.5 else set)(elems)


def dyn_enum_member(rng, t, pick, shells, objs):
    """a member of a new Enum class whose value is drawn from the graph: a tuple / list / dict / set of anything (other members,
    nodes, namedtuples, sets, shells that get their edges later - so the member may sit on a cycle through its own value)"""
    k = rng.choice(['tuple', 'tuple', 'list', 'shell', 'dict', 'set', 'nt', 'member', 'scalar'])
    if k == 'tuple':
        value = tuple(pick() for _ in range(rng.randint(1, 4)))
    elif k == 'list':
        value = [pick() for _ in range(rng.randint(0, 3))]
    elif k == 'shell':
        value = rng.choice(shells)
    elif k == 'dict':
        value = {rng.choice(['a', 'b', 1, 'f{k']): pick() for _ in range(rng.randint(1, 3))}
    elif k == 'set':
        value = gen_set(rng, t, objs)
    elif k == 'nt':
        value = t.C14NT(pick(), pick())
    elif k == 'member':
        value = (rng.choice(['+', 1]), rng.choice(list(t.C14Assoc) + list(t.C14Op) + [o for o in objs if isinstance(o, enum.Enum)]))
    else:
        value = rng.choice(SCALARS)
    try:
        cls = enum.Enum('C14Dyn', [('A', value), ('B', ('other',))])
    except Exception:   # noqa: BLE001   (Enum hashes the value: Style.__hash__ raises; a list is looked up by equality)
        cls = enum.Enum('C14Dyn', [('A', [value]), ('B', ('other',))])
    return cls.A


def gen_graph(rng, t, n):
    """n mutable shells + derived immutable objects, then random edges (sharing and cycles)."""
    shells = []
    for _ in range(n):
        k = rng.choice(['dict', 'dict', 'AST', 'list', 'list', 'mix', 'bin', 'bin', 'leaf'])
        if k == 'dict':
            shells.append({})
        elif k == 'AST':
            shells.append(t.AST())
        elif k == 'list':
            shells.append([])
        elif k == 'mix':
            shells.append(t.C14Mix())
        elif k == 'bin':
            shells.append(t.C14Bin())
        else:
            shells.append(t.C14Leaf())
    objs = list(shells)
    for _ in range(rng.randint(0, 3)):
        k = rng.choice(['tuple', 'nt', 'weak', 'enum', 'enum', 'opaque', 'bytes', 'set', 'type', 'style'])
        pick = lambda: rng.choice(objs) if rng.random() < 0.6 else rng.choice(SCALARS)
        if k == 'tuple':
            objs.append(tuple(pick() for _ in range(rng.randint(0, 3))))
        elif k == 'nt':
            objs.append(t.C14NT(pick(), pick()))
        elif k == 'weak':
            target = rng.choice([o for o in shells if not isinstance(o, (dict, list))] or [t.C14Leaf()])
            objs.append(weakref.ref(target))
        elif k == 'enum':
            r = rng.random()
            if r < 0.25:
                objs.append(rng.choice(list(t.C14Color)))
            elif r < 0.5:
                objs.append(rng.choice(list(t.C14Op) + list(t.C14Assoc)))
            else:
                objs.append(dyn_enum_member(rng, t, pick, shells, objs))
        elif k == 'opaque':
            objs.append(t.C14Opaque())
        elif k == 'bytes':
            objs.append(b'f{x')
        elif k == 'set':
            objs.append(gen_set(rng, t, objs))
        elif k == 'type':
            objs.append(rng.choice([t.C14Leaf, t.C14Mix, int]))
        else:
            objs.append(t.Style('hi', bold=True, color=t.Color.always()))
    has_type = any(isinstance(o, type) and hasattr(o, '__json__') for o in objs)

    def pick():
        r = rng.random()
        if r < 0.55:
            return rng.choice(objs)
        return rng.choice(SCALARS)

    for o in shells:
        if isinstance(o, t.AST):
            for _ in range(rng.randint(0, 3)):
                dict.__setitem__(o, rng.choice(['a', 'b', 'exp', '_p', 'ast']), pick())
        elif isinstance(o, dict):
            for _ in range(rng.randint(0, 3)):
                o[rng.choice(['a', 'b', 1, '1', None, '__class__', 'f{k'])] = pick()
        elif isinstance(o, list):
            for _ in range(rng.randint(0, 3)):
                o.append(pick())
        elif isinstance(o, t.C14Mix):
            for _ in range(rng.randint(0, 4)):
                setattr(o, rng.choice(['x', 'y', '_hidden', '__dunder', 'ast', 'exp']), pick())
        elif isinstance(o, t.C14Bin):
            for name in rng.sample(['left', 'right', 'tag', 'ast', 'ctx', 'parseinfo', 'zextra', '_priv'], rng.randint(0, 5)):
                setattr(o, name, pick())
            if rng.random() < 0.2:
                o._parent_ref = weakref.ref(rng.choice([s for s in shells if not isinstance(s, (dict, list))]))
            if rng.random() < 0.15:
                del o.__dict__['left']       # attribute missing from vars(self)
        else:
            if rng.random() < 0.7:
                o.ast = pick()
            if rng.random() < 0.2:
                o.only = pick()
    root = rng.choice(objs) if rng.random() < 0.3 else shells[0]
    return root, objs, has_type


def compare_asjson(chk: Check, t, mr_reqs, cases, root, label, bkeys_sx, expect_dumpable=True):
    """queue a model request for asjson(root) and record the real result"""
    hb = HeapBuilder(t)
    try:
        v = hb.val(root)
        heap = hb.heap()
    except Unsupported as e:
        chk.count('J1.unsupported.' + str(e).replace(' ', '-'))
        return False
    except RecursionError:
        chk.count('J1.unsupported.too-deep')
        return False
    try:
        with time_limit(20):
            real = t.asjson(root)
        outcome = ('ok', canon_real_json(real, hb))
        try:
            json.dumps(real)
            dump_ok = True
        except (TypeError, ValueError) as e:
            dump_ok = False
    except Timeout:
        outcome = ('timeout',)
        dump_ok = False
    except RecursionError:
        outcome = ('recursion',)
        dump_ok = False
    except Exception as e:   # noqa: BLE001
        outcome = ('raise', type(e).__name__)
        dump_ok = False
    mr_reqs.append(f'(asjson {bkeys_sx} {heap} {v})')
    cases.append((label, outcome, dump_ok, len(hb.ids), expect_dumpable, hb))
    return True


def settle_asjson(chk: Check, replies, cases, reqs):
    bad = 0
    for rep, (label, outcome, dump_ok, n, expect_dumpable, hb), req in zip(replies, cases, reqs):
        chk.evaluations += 1
        mp = canon_obj_order(model_json_to_py(rep), hb.dcfields)
        if outcome[0] != 'ok':
            bad += 1
            chk.violation(f'oracle:asjson-{outcome[0]}', f'asjson did not return ({outcome}) on {label}',
                          {'oracle': 'asjson terminates', 'case': label, 'outcome': outcome, 'request': req[:4000]})
            continue
        if mp != canon_obj_order(outcome[1], hb.dcfields):
            bad += 1
            chk.violation('corr:J1-asjson', f'asjson differs from Json.v on {label}',
                          {'correspondence': 'J1 asjson', 'case': label, 'impl': repr(outcome[1])[:3000],
                           'model': repr(mp)[:3000], 'request': req[:6000]})
        if expect_dumpable and not dump_ok:
            bad += 1
            chk.violation('oracle:asjson-not-dumpable', f'json.dumps(asjson(x)) fails on {label}',
                          {'oracle': 'dumpable', 'case': label, 'impl': repr(outcome[1])[:3000]})
    return bad


def run_j1_graphs(chk: Check, t, mr: ModelRun, bkeys_sx):
    rng = chk.rng
    reqs, cases = [], []
    n = 700 if chk.quick else 8000
    for it in range(n):
        size = rng.choice([1, 2, 2, 3, 3, 4, 5, 6])
        root, objs, has_type = gen_graph(rng, t, size)
        ok = compare_asjson(chk, t, reqs, cases, root, f'graph#{it}', bkeys_sx, expect_dumpable=not has_type)
        if ok:
            chk.case(reqs[-1], nontrivial=size > 1)
            chk.count('J1.graphs')
            if has_type:
                chk.count('J1.graphs.with-class-object')
    replies = mr.ask(reqs)
    bad = settle_asjson(chk, replies, cases, reqs)
    def has_ref(p):
        if isinstance(p, str):
            return bool(REF_RE.match(p))
        if isinstance(p, list):
            return any(has_ref(e) for e in p)
        if isinstance(p, tuple) and p and p[0] == 'obj':
            return any(has_ref(v) for _, v in p[1])
        return False
    chk.count('J1.graphs.with-reference-string', sum(1 for r in replies if has_ref(model_json_to_py(r))))
    chk.obligation('J1:asjson vs Json.v on generated object graphs (sharing, cycles, weakrefs, nodes)', 'correspondence', bad == 0)
    if reqs:
        chk.sample({'J1.request': reqs[min(5, len(reqs) - 1)][:600]})


# ===================================================================== J1b: fromjson vs model
RISKY = ['f{', 'f{a', 'f{a:>3}', '\\e[', '\\e[1mhi\\e[0m', '\\e', 'xf{', ' f{', 'F{', '~', '{', '}', ':', 'a:b', '',
         'x', 'Token', '\x1b[1m']


def gen_json(rng, depth, classes):
    r = rng.random()
    if depth > 3 or r < 0.4:
        k = rng.random()
        if k < 0.5:
            return rng.choice(RISKY)
        return rng.choice([None, True, False, 0, 1, -3, 2.5, 0.0, 'plain'])
    if r < 0.6:
        return [gen_json(rng, depth + 1, classes) for _ in range(rng.randint(0, 3))]
    d = {}
    keys = rng.sample(['a', 'b', 'c', 'zz', 'f{k', '__class__x', '_u'], rng.randint(0, 4))
    pos = rng.randint(0, len(keys))
    withcls = rng.random() < 0.6
    for i, k in enumerate(keys + [None]):
        if i == pos and withcls:
            d['__class__'] = rng.choice(classes + classes + ['NoSuchClass', '', None, 0, 1, True, False, [], ['x'], {}, {'a': 1}, 0.0, 2.5])
        if k is not None:
            d[k] = gen_json(rng, depth + 1, classes)
    return d


def canon_py(x, t):
    """fromjson result of the real code -> pyv shape of the model"""
    if x is None:
        return 'none'
    if isinstance(x, bool):
        return ('b', x)
    if isinstance(x, int):
        return ('i', x)
    if isinstance(x, float):
        return ('f', repr(x))
    if isinstance(x, t.Style):
        return ('style',)
    if isinstance(x, str):
        return ('s', x)
    if isinstance(x, (list, tuple)):
        return ('l', [canon_py(e, t) for e in x])
    if isinstance(x, dict):
        return ('d', [(k, canon_py(v, t)) for k, v in x.items()])
    if isinstance(x, SimpleNamespace):
        return ('ns', [(k, canon_py(v, t)) for k, v in vars(x).items()])
    if isinstance(x, t.C14Data):
        items = [(f, getattr(x, f)) for f in ('a', 'b', 'c')]
        return ('obj', 'C14Data', sorted((k, canon_py(v, t)) for k, v in items if v is not t.SENT))
    if isinstance(x, t.C14Plain):
        return ('obj', 'C14Plain', sorted((k, canon_py(v, t)) for k, v in vars(x).items()))
    return ('other', type(x).__name__)


def model_pyv(r, sort_obj=True):
    if r == 'none':
        return 'none'
    if r == 'error':
        return ('error',)
    tag = r[0]
    if tag == 'b':
        return ('b', r[1] == '1')
    if tag == 'i':
        return ('i', int(r[1]))
    if tag == 'f':
        return ('f', dec_str(r[1]))
    if tag == 's':
        return ('s', dec_str(r[1]))
    if tag == 'style':
        return ('style',)
    if tag == 'l':
        return ('l', [model_pyv(e, sort_obj) for e in r[1]])
    if tag == 'd':
        return ('d', [(dec_str(k), model_pyv(v, sort_obj)) for k, v in r[1]])
    if tag == 'ns':
        return ('ns', [(dec_str(k), model_pyv(v, sort_obj)) for k, v in r[1]])
    if tag == 'obj':
        items = [(dec_str(k), model_pyv(v, sort_obj)) for k, v in r[2]]
        return ('obj', dec_str(r[1]), sorted(items) if sort_obj else items)
    raise ValueError(f'model pyv {r!r}')


def has_tag(p, tag):
    if isinstance(p, tuple):
        if p and p[0] == tag:
            return True
        return any(has_tag(e, tag) for e in p[1:])
    if isinstance(p, list):
        return any(has_tag(e, tag) for e in p)
    return False


def run_j1b_fromjson(chk: Check, t, mr: ModelRun):
    rng = chk.rng
    reg_sx = sx_list([f'({S("C14Data")} (dc ({S("a")} {S("b")})))', f'({S("C14Plain")} plain)'])
    reqs, expect = [], []
    n = 700 if chk.quick else 8000
    for it in range(n):
        j = gen_json(rng, 0, ['C14Data', 'C14Plain'])
        try:
            real = ('ok', canon_py(t.fromjson(j), t))
        except TypeError as e:
            real = ('error', type(e).__name__)
        except Exception as e:   # noqa: BLE001
            real = ('raise', type(e).__name__, str(e)[:100])
        reqs.append(f'(fromjson {reg_sx} {json_to_sx(j)})')
        expect.append((j, real))
        chk.case('fromjson:' + json.dumps(j, sort_keys=True), nontrivial=isinstance(j, (dict, list)) and bool(j))
        chk.count('J1b.fromjson')
    bad = 0
    for rep, (j, real), req in zip(mr.ask(reqs), expect, reqs):
        mp = model_pyv(rep)
        if has_tag(mp, 'error'):
            mp = ('error',)
        agree = (real[0] == 'ok' and real[1] == mp) or (real[0] == 'error' and mp == ('error',))
        if not agree and real[0] == 'raise' and has_tag(mp, 'style'):
            agree = True          # Style.from_raw itself rejected the text: same branch, D9 family
            chk.count('J1b.style-from_raw-raises')
        if has_tag(mp, 'style'):
            chk.count('J1b.sniffed-style')
        if not agree:
            bad += 1
            chk.violation('corr:J1b-fromjson', f'fromjson differs from Json.v on {json.dumps(j)[:300]}',
                          {'correspondence': 'J1b fromjson', 'input': j, 'impl': repr(real)[:2000], 'model': repr(mp)[:2000]})
    chk.obligation('J1b:fromjson vs Json.v on generated JSON (class markers, registry, style-like strings)', 'correspondence', bad == 0)


# ===================================================================== grammar generator
SAFE_TOKENS = ['a', 'b', 'c', '+', '-', 'if', 'x1', '(', ')', ',', ';']
RISKY_TOKENS = ['f{', 'f{a', 'f{a:b}', '\\e[', '\\e[1m', '~', '{', '}', ':', '::', 'a:b', '{}', '@', '%', 'f{}}', '~~', '"', "'", 'é']
PATTERNS = [(r'\d+', ['1', '42']), (r'[a-z]+', ['ab', 'q']), (r'f{2}', ['ff']), (r'x{1,2}:', ['x:', 'xx:']),
            (r'[~]+', ['~', '~~']), (r'\w+', ['w1']), (r'f{1}[{]', ['f{']), (r'(?i)k', ['k', 'K'])]
CONSTS = ['c', 'null', 'f{a', 'f{x:>4}', '~', 'a:b', '{', '\\e[0m', 'two words']
# the plain third of the grammars holds no string that the JSON loader takes for a style (listed findings D9a/D9b): there
# the JSON path is compared to the end
PLAIN_PATTERNS = [p for p in PATTERNS if not p[0].startswith(('f{', '\\e['))]
PLAIN_CONSTS = [c for c in CONSTS if not c.startswith(('f{', '\\e['))]
# constants whose value is falsy or not a string: `` is '' (the way to give an absent part the value ''), `0` is the int 0,
# `False`, `0.0`, `None`; values that a printer / loader taking "falsy" for "unset" loses
EDGE_CONSTS = ['', '', '', '0', 'False', '0.0', 'None', 'True', ' ', '1', '-1', '1.5', 'x y', 'None']
FALSY_CONSTS = ('', '0', 'False', '0.0')
NAMES = ['a', 'b', 'n', 'val', 'op']
CLASSES = ['Foo', 'Bar', 'Baz']
# rule names: the name of a rule carries no meaning except through position (the first rule is the entry point), an upper-case
# initial (token rule) and the reserved-word check of @name rules
RULE_NAMES = ['start', 'document', 'expr', 'item', 'value', 'main', 'stmt', 'a_b', 'body', 'atom', 'z9', 'Tok', 'NUM', 'begin',
              'rules', 'grammar', 'type']
IDENT_NAMES = ['ident', 'name', 'word', 'Id']
IDENT_ATOMS = [('pat', r'[a-z]+', ['ab', 'q', 'iffy']), ('pat', r'[a-z]+', ['ab', 'q', 'then']), ('pat', r'\w+', ['w1', 'K', 'elsewhere']),
               ('pat', r'(?i)[a-z]+', ['ab', 'IF', 'Else']), ('pat', r'[A-Za-z_][A-Za-z0-9_]*', ['x_1', 'If', 'k']), ('meta', 'name')]


class GrammarGen:
    def __init__(self, rng, risky: float):
        self.rng = rng
        self.risky = risky
        self.rules: list[str] = []

    def tok(self):
        rng = self.rng
        if rng.random() < self.risky:
            return ('tok', rng.choice(RISKY_TOKENS))
        return ('tok', rng.choice(SAFE_TOKENS))

    def atom(self, depth):
        rng = self.rng
        r = rng.random()
        if r < 0.45:
            return self.tok()
        if r < 0.6:
            p = rng.choice((PATTERNS if self.risky else PLAIN_PATTERNS) if rng.random() < max(self.risky, 0.3) else PATTERNS[:2])
            return ('pat', p[0], p[1])
        if r < 0.75 and self.later:
            return ('call', rng.choice(self.later))
        if r < 0.8:
            if rng.random() < 0.3:
                return ('const', rng.choice(EDGE_CONSTS))
            return ('const', rng.choice((CONSTS if self.risky else PLAIN_CONSTS) if rng.random() < max(self.risky, 0.3) else CONSTS[:2]))
        if r < 0.83:
            if rng.random() < 0.15:
                return ('alert', rng.choice(EDGE_CONSTS), rng.randint(1, 2))
            return ('alert', rng.choice(CONSTS[:3] if self.risky else CONSTS[:2]), rng.randint(1, 2))
        if r < 0.87:
            return ('meta', rng.choice(['int', 'uint', 'float', 'name']))
        if r < 0.9:
            return ('dot',)
        if depth < 3:
            return rng.choice([('group', self.expr(depth + 1)), ('skipgroup', self.expr(depth + 1))])
        return self.tok()

    def term(self, depth):
        rng = self.rng
        r = rng.random()
        if depth >= 3 or r < 0.5:
            return self.atom(depth)
        k = rng.choice(['opt', 'clo', 'pclo', 'join', 'pjoin', 'gather', 'pgather', 'ljoin', 'rjoin', 'emptyclo',
                        'la', 'nla', 'skipto', 'cut', 'void', 'eol'])
        if k in ('opt', 'clo', 'pclo'):
            return (k, self.expr(depth + 1))
        if k in ('join', 'pjoin', 'gather', 'pgather', 'ljoin', 'rjoin'):
            return (k, self.tok(), self.expr(depth + 1))
        if k in ('la', 'nla', 'skipto'):
            return (k, self.atom(depth + 1))
        return (k,)

    def element(self, depth):
        rng = self.rng
        r = rng.random()
        if r < 0.6:
            return self.term(depth)
        if r < 0.75:
            return ('named', rng.choice(NAMES), self.term(depth))
        if r < 0.85:
            return ('namedlist', rng.choice(NAMES), self.term(depth))
        if r < 0.9:
            return ('override', self.term(depth))
        if r < 0.94:
            return ('overridelist', self.term(depth))
        if self.earlier and r < 0.97:
            return ('include', rng.choice(self.earlier))      # `>rule` needs a rule that is already defined
        return self.term(depth)

    def seq(self, depth):
        return ('seq', [self.element(depth) for _ in range(self.rng.randint(1, 3))])

    def expr(self, depth):
        if self.rng.random() < 0.3 and depth < 3:
            return ('choice', [self.seq(depth + 1) for _ in range(self.rng.randint(2, 3))])
        return self.seq(depth)

    def grammar(self):
        rng = self.rng
        # reserved words are drawn first: a grammar that has them mostly also has a rule that checks them
        keywords = []
        r = rng.random()
        if r < 0.15:
            keywords = ['if']
        elif r < 0.3:
            keywords = rng.sample(['if', 'then', 'else', 'K'], rng.randint(2, 3))
        if keywords and rng.random() < self.risky:
            keywords.append('f{kw')
        nrules = rng.choice([1, 1, 2, 3, 4, 5])
        if rng.random() < 0.45:
            names = ['start'] + [f'r{i}' for i in range(1, nrules)]
            if nrules > 2 and rng.random() < 0.3:
                names[-1] = 'Tok'
        else:
            # the entry point is the FIRST rule whatever it is called; a rule called `start` may sit anywhere or be absent,
            # and the order of definition is not the alphabetical one
            names = rng.sample(RULE_NAMES, nrules)
            if 'start' not in names and nrules > 1 and rng.random() < 0.5:
                names[rng.randrange(1, nrules)] = 'start'
        ident = None
        if rng.random() < (0.65 if keywords else 0.08):
            # an identifier rule (checked against the reserved words), defined last so that every rule may call it
            ident = rng.choice([n for n in IDENT_NAMES if n not in names])
            names.append(ident)
            nrules += 1
        rules = []
        for i, name in enumerate(names):
            self.later = names[i + 1:]
            self.earlier = names[:i]
            body = self.expr(0)
            if name == ident:
                k = rng.random()
                word = rng.choice(IDENT_ATOMS)
                body = ('seq', [word]) if k < 0.7 else ('choice', [('seq', [word]), ('seq', [('tok', rng.choice(['if', 'K', 'x1']))])])
            elif ident and (i == 0 or rng.random() < 0.3):
                call = ('call', ident)
                use = rng.choice([call, call, ('pclo', ('seq', [call])), ('named', 'n', call), ('namedlist', 'n', call),
                                  ('join', ('tok', ','), ('seq', [call])), ('opt', ('seq', [call]))])
                if body[0] == 'choice':
                    body = ('seq', [('group', body)])
                items = list(body[1])
                items.insert(rng.randint(0, len(items)), use)
                body = ('seq', items)
            if i == 0 and rng.random() < 0.7:
                body = ('seq', [('group', body), ('eof',)]) if body[0] == 'choice' else ('seq', body[1] + [('eof',)])
            rule = {'name': name, 'exp': body, 'decorators': [], 'params': [], 'kwparams': [], 'base': None, 'style': 'bracket'}
            r = rng.random()
            if r < 0.15:
                rule['params'] = [rng.choice(CLASSES)]
                rule['style'] = rng.choice(['bracket', 'colons', 'paren'])
            elif r < 0.25:
                rule['params'] = rng.sample(CLASSES, 2)
                rule['style'] = rng.choice(['bracket', 'paren'])
            elif r < 0.35:
                rule['params'] = rng.choice([[], [rng.choice(CLASSES)]])
                key = '__class__' if rng.random() < self.risky * 0.5 else rng.choice(['k', 'mode'])
                rule['kwparams'] = [(key, rng.choice(['1', 'x', "'f{v'" if rng.random() < self.risky else "'v'"]))]
                rule['style'] = 'paren'
            if rng.random() < 0.12:
                rule['decorators'].append('nomemo')
            if name == ident or rng.random() < 0.08:
                rule['decorators'].append(rng.choice(['name', 'name', 'name', 'isname']))
            if i > 0 and name != ident and rng.random() < 0.12 and not rule['params'] and not rule['kwparams']:
                rule['base'] = rng.choice([n for n in names[:i]])
            rules.append(rule)
        directives = []
        if rng.random() < 0.5:
            directives.append(('grammar', rng.choice(['G', 'Calc', 'Tst'])))
        # every option is drawn over its whole value space: values that switch a default ON (truthy), values that
        # switch a default OFF (False / None / '' - falsy but meaningful) and the bare form `@@name` (= True)
        if rng.random() < 0.4:
            ws = rng.choice([r'/[ \t]+/', r'/\s+/', "' '", r'/f{0}[ ]+/' if self.risky and rng.random() < max(self.risky, 0.2) else r'/[ ]+/',
                             'None', 'None', 'False', "''"])      # (`//` is left to C13: pretty() of that model raises, D8g)
            directives.append(('whitespace', ws))
        if rng.random() < 0.25:
            directives.append(('nameguard', rng.choice(['True', 'False', 'False', None])))
        if rng.random() < 0.2:
            directives.append(('ignorecase', rng.choice(['True', 'True', 'False', None])))
        if rng.random() < 0.2:
            directives.append(('parseinfo', rng.choice(['True', 'True', 'False', None])))
        if rng.random() < 0.1:
            directives.append(('memoization', rng.choice(['True', 'False', 'False'])))
        if rng.random() < 0.15:
            directives.append(('comments', r'/\(\*.*?\*\)/'))
        if rng.random() < 0.15:
            directives.append(('eol_comments', r'/#.*?$/'))
        if rng.random() < 0.15:
            directives.append(('namechars', rng.choice(["'-'", "'f{'" if self.risky and rng.random() < max(self.risky, 0.3) else "'_'"])))
        if rng.random() < 0.1:
            directives.append(('left_recursion', rng.choice(['True', 'False'])))
        return {'directives': directives, 'keywords': keywords, 'rules': rules}


def q(s: str) -> str:
    body = s.replace('\\', '\\\\').replace('\n', '\\n').replace('\t', '\\t')
    if "'" in s and '"' not in s:
        return '"' + body + '"'
    return "'" + body.replace("'", "\\'") + "'"


def needs_group(e):
    return e[0] in ('seq', 'choice', 'named', 'namedlist', 'override', 'overridelist', 'include')


def render(e, top=False) -> str:
    k = e[0]
    if k == 'tok':
        return q(e[1])
    if k == 'pat':
        return f'/{e[1]}/'
    if k == 'const':
        return f'`{e[1]}`'
    if k == 'alert':
        return '^' * e[2] + f'`{e[1]}`'
    if k == 'call':
        return e[1]
    if k == 'meta':
        return '@' + e[1]
    if k == 'dot':
        return '/./'
    if k == 'eof':
        return '$'
    if k == 'eol':
        return '$->'
    if k == 'cut':
        return '~'
    if k == 'void':
        return '()'
    if k == 'emptyclo':
        return '{}'
    if k == 'group':
        return f'({render(e[1], True)})'
    if k == 'skipgroup':
        return f'(?: {render(e[1], True)})'
    if k == 'opt':
        return f'[{render(e[1], True)}]'
    if k == 'clo':
        return f'{{{render(e[1], True)}}}*'
    if k == 'pclo':
        return f'{{{render(e[1], True)}}}+'
    if k in ('join', 'pjoin', 'gather', 'pgather', 'ljoin', 'rjoin'):
        op = {'join': '%', 'pjoin': '%', 'gather': '.', 'pgather': '.', 'ljoin': '<', 'rjoin': '>'}[k]
        plus = '' if k in ('join', 'gather') else '+'
        return f'{render(e[1])}{op}{{{render(e[2], True)}}}{plus}'
    if k in ('la', 'nla', 'skipto'):
        op = {'la': '&', 'nla': '!', 'skipto': '->'}[k]
        return op + wrap(e[1])
    if k == 'named':
        return f'{e[1]}:{wrap(e[2])}'
    if k == 'namedlist':
        return f'{e[1]}+:{wrap(e[2])}'
    if k == 'override':
        return f'@:{wrap(e[1])}'
    if k == 'overridelist':
        return f'@+:{wrap(e[1])}'
    if k == 'include':
        return '>' + e[1]
    if k == 'seq':
        return ' '.join(wrap(x) if x[0] in ('seq', 'choice') else render(x) for x in e[1])
    if k == 'choice':
        s = ' | '.join(render(x, True) for x in e[1])
        return s if top else f'({s})'
    raise ValueError(k)


def wrap(e):
    return f'({render(e, True)})' if needs_group(e) else render(e)


def render_grammar(g) -> str:
    out = []
    for name, value in g['directives']:
        out.append(f'@@{name}' if value is None else f'@@{name} :: {value}')
    if g['keywords']:
        kws = ' '.join(k if k.isalnum() else q(k) for k in g['keywords'])
        r0 = g['rules'][0]
        # `@@keyword :: a b` takes every following word that is not before ':' or '=': a first rule written
        # start(..) / start[..] / start < base needs the parenthesised form
        plain_head = not (r0['params'] or r0['kwparams'] or r0['base']) or \
            (r0['style'] == 'colons' and not r0['kwparams'] and len(r0['params']) == 1 and not r0['base'])
        out.append(f'@@keyword :: {kws}' if plain_head else f'@@keyword :: ({kws})')
    out.append('')
    for r in g['rules']:
        for d in r['decorators']:
            out.append('@' + d)
        ps = list(r['params']) + [f'{k}={v}' for k, v in r['kwparams']]
        head = r['name']
        if ps:
            if r['style'] == 'colons' and not r['kwparams'] and len(r['params']) == 1:
                head += '::' + ps[0]
            elif r['style'] == 'paren':
                head += '(' + ', '.join(ps) + ')'
            else:
                head += '[' + ', '.join(ps) + ']'
        if r['base']:
            head += ' < ' + r['base']
        out.append(f'{head} = {render(r["exp"], True)} ;')
        out.append('')
    return '\n'.join(out)


class NameTok(str):
    """a piece of input that a pattern / @name element matched: where an identifier (or a reserved word) may stand"""
    __slots__ = ()


def sentence(g, rng, e, depth, rulemap) -> list[str]:
    k = e[0]
    if depth > 12:
        return []
    if k == 'tok':
        return [e[1]]
    if k == 'pat':
        return [NameTok(rng.choice(e[2]))]
    if k in ('const', 'alert', 'cut', 'void', 'emptyclo', 'eof', 'la', 'nla'):
        return []
    if k == 'eol':
        return ['\n'] if rng.random() < 0.5 else []
    if k in ('call', 'include'):
        r = rulemap.get(e[1])
        return sentence(g, rng, r['exp'], depth + 1, rulemap) if r else []
    if k == 'meta':
        return [NameTok('nm')] if e[1] == 'name' else [{'int': '-12', 'uint': '7', 'float': '1.5'}[e[1]]]
    if k == 'dot':
        return ['z']
    if k in ('group', 'skipgroup', 'override', 'overridelist'):
        return sentence(g, rng, e[1], depth + 1, rulemap)
    if k in ('named', 'namedlist'):
        return sentence(g, rng, e[2], depth + 1, rulemap)
    if k == 'opt':
        return sentence(g, rng, e[1], depth + 1, rulemap) if rng.random() < 0.6 else []
    if k in ('clo', 'pclo'):
        out = []
        for _ in range(rng.randint(0 if k == 'clo' else 1, 3)):
            out += sentence(g, rng, e[1], depth + 1, rulemap)
        return out
    if k in ('join', 'pjoin', 'gather', 'pgather', 'ljoin', 'rjoin'):
        n = rng.randint(0 if k in ('join', 'gather') else 1, 3)
        out = []
        for i in range(n):
            if i:
                out.append(e[1][1])
            out += sentence(g, rng, e[2], depth + 1, rulemap)
        return out
    if k == 'skipto':
        return ['q', 'q'][:rng.randint(0, 2)] + sentence(g, rng, e[1], depth + 1, rulemap)
    if k == 'seq':
        out = []
        for x in e[1]:
            out += sentence(g, rng, x, depth + 1, rulemap)
        return out
    if k == 'choice':
        return sentence(g, rng, rng.choice(e[1]), depth + 1, rulemap)
    raise ValueError(k)


def option_sensitive(g, rng, toks):
    """renderings of one sentence whose acceptance depends on a parser option (whitespace skipping, name guard,
    case folding, comment skipping): always when the grammar sets the option, otherwise now and then"""
    if not toks:
        return []
    names = {n for n, _ in g['directives']} | set(g.get('settings', {}))
    out = []

    def want(opts, p=0.15):
        return bool(names & set(opts)) or rng.random() < p
    if want(('whitespace',)):
        out.append(''.join(toks))                                   # nothing to skip
        out.append(rng.choice(['\t', '\n', '  ', ' \t\n']).join(toks))     # other blanks than a single space
        out.append(' ' + ' '.join(toks) + rng.choice([' ', '\n']))         # leading / trailing blanks
    if want(('nameguard', 'namechars', 'ignorecase')):
        idx = [i for i, tk in enumerate(toks) if tk[-1:].isalnum()]
        if idx:
            i = rng.choice(idx)
            glued = list(toks)
            glued[i] = glued[i] + rng.choice(['x', 'fy', '1', '_', '-'])    # the token is a prefix of a longer name
            out.append(' '.join(glued))
            if i + 1 < len(toks):
                out.append(' '.join(toks[:i]) + ' ' + toks[i] + toks[i + 1] + ' ' + ' '.join(toks[i + 2:]))
    if want(('ignorecase',)):
        out.append(' '.join(toks).swapcase())
        out.append(' '.join(tk.capitalize() for tk in toks))
    if g['keywords'] or rng.random() < 0.05:
        # a reserved word (as declared, in another case, as the prefix of a longer name) where a name may stand
        idx = [i for i, tk in enumerate(toks) if isinstance(tk, NameTok)] or [i for i, tk in enumerate(toks) if tk[-1:].isalnum()]
        kws = [k for k in g['keywords'] if k.isalnum()] or ['if']
        for _ in range(2 if idx else 0):
            i = rng.choice(idx)
            kw = rng.choice(kws)
            kw = rng.choice([kw, kw, kw, kw.swapcase(), kw.capitalize(), kw + 'x', kw + '_'])
            out.append(' '.join(toks[:i] + [kw] + toks[i + 1:]))
    if 'comments' in names:
        i = rng.randrange(len(toks) + 1)
        out.append(' '.join(toks[:i] + ['(* c *)'] + toks[i:]))
    if 'eol_comments' in names:
        out.append(' '.join(toks) + ' # c')
        out.append('# c\n' + ' '.join(toks))
    return out


def rule_sentence(g, rng, rule, rulemap):
    toks = sentence(g, rng, rule['exp'], 0, rulemap)
    if rule.get('base'):
        toks = sentence(g, rng, rulemap[rule['base']]['exp'], 0, rulemap) + toks
    return toks


def entry_inputs(g, rng, n):
    """(text, start) pairs: parses that name their entry rule (any rule of the grammar, the first one, a missing one);
    without start= the entry point is the first rule, whatever the rules are called"""
    rulemap = {r['name']: r for r in g['rules']}
    out = []
    picks = [rng.choice(g['rules']) for _ in range(n)]
    if len(g['rules']) > 1:
        picks.append(g['rules'][-1])
    for rule in picks:
        toks = rule_sentence(g, rng, rule, rulemap)
        out.append((rng.choice([' ', ' ', '']).join(toks), rule['name']))
    toks = rule_sentence(g, rng, g['rules'][0], rulemap)
    out.append((' '.join(toks), rng.choice(['start', 'nosuchrule', g['rules'][-1]['name']])))
    seen, uniq = set(), []
    for item in out:
        if item not in seen:
            seen.add(item)
            uniq.append(item)
    return uniq


def sample_inputs(g, rng, n):
    rulemap = {r['name']: r for r in g['rules']}
    out = ['']
    for _ in range(n):
        toks = rule_sentence(g, rng, g['rules'][0], rulemap)
        s = rng.choice([' ', ' ', '']).join(toks)
        out.append(s)
        out += option_sensitive(g, rng, toks)
        r = rng.random()
        if r < 0.25 and s:
            i = rng.randrange(len(s))
            out.append(s[:i] + s[i + 1:])
        elif r < 0.4:
            out.append(s + rng.choice([' a', 'f{', '~', ' 1']))
        elif r < 0.5:
            out.append(s.upper())
    seen, uniq = set(), []
    for s in out:
        if s not in seen:
            seen.add(s)
            uniq.append(s)
    return uniq


def map_strings(e, f):
    """apply f to every token/constant/pattern text of an expression"""
    k = e[0]
    if k == 'tok':
        return ('tok', f(e[1]))
    if k == 'const':
        return ('const', f(e[1]))
    if k == 'alert':
        return ('alert', f(e[1]), e[2])
    if k == 'pat':
        np = f(e[1])
        return ('pat', np, e[2]) if np == e[1] else ('pat', '(?:)' + e[1], e[2])
    if k in ('seq', 'choice'):
        return (k, [map_strings(x, f) for x in e[1]])
    return tuple(map_strings(x, f) if isinstance(x, tuple) else x for x in e)


def neutralize(g, prefixes: tuple, cls_keys: bool):
    """copy of the grammar with the style-like strings (given prefixes) made harmless"""
    def f(s):
        return 'x' + s if prefixes and s.startswith(prefixes) else s

    def fq(v):   # quoted literal in directives / kwparams
        if v is None:
            return v
        for qt in ("'", '/'):
            if v.startswith(qt) and prefixes and v[1:].startswith(prefixes):
                return v[0] + ('x' if qt == "'" else '(?:)') + v[1:]
        return v
    out = {'directives': [(n, fq(v)) for n, v in g['directives']], 'keywords': [f(k) for k in g['keywords']], 'rules': []}
    for r in g['rules']:
        r2 = dict(r)
        r2['exp'] = map_strings(r['exp'], f)
        r2['kwparams'] = [('kk' if (cls_keys and k == '__class__') else k, fq(v)) for k, v in r['kwparams']]
        out['rules'].append(r2)
    return out


def falsy_consts(g, kinds=('const', 'alert')):
    """does the grammar hold a constant / alert whose value is falsy and not None (``, `0`, `False`, `0.0`)?"""
    def visit(e):
        if e[0] in kinds and e[1] in FALSY_CONSTS:
            return True
        return any(visit(x) if isinstance(x, tuple) else (isinstance(x, list) and any(visit(y) for y in x if isinstance(y, tuple)))
                   for x in e[1:])
    return any(visit(r['exp']) for r in g['rules'])


def neutralize_falsy(g, kinds=('const', 'alert')):
    """copy of the grammar with the falsy constants / alerts replaced by a plain one"""
    def fix(e):
        k = e[0]
        if k in kinds and e[1] in FALSY_CONSTS:
            return (k, 'c') + tuple(e[2:])
        if k in ('seq', 'choice'):
            return (k, [fix(x) for x in e[1]])
        return tuple(fix(x) if isinstance(x, tuple) else x for x in e)
    out = dict(g)
    out['rules'] = [dict(r, exp=fix(r['exp'])) for r in g['rules']]
    return out


# ===================================================================== oracle helpers
def parse_outcome(t, model, text, _limit=10, **kw):
    if isinstance(text, tuple):         # (text, start): a parse that names its entry rule
        text, kw = text[0], dict(kw, start=text[1])
    try:
        with time_limit(_limit):
            r = model.parse(text, **kw)
        try:
            return ('ok', json.dumps(t.asjson(r), sort_keys=True, default=repr))
        except Exception as e:   # noqa: BLE001
            return ('ok-unjsonable', type(e).__name__)
    except Timeout:
        return ('timeout',)
    except RecursionError:
        return ('err', 'RecursionError')
    except Exception as e:   # noqa: BLE001
        return ('err', type(e).__name__)


def ref_parses(chk, t, model, inputs, parse_kw):
    """reference outcomes; inputs on which the reference itself dies of unbounded recursion / runs out of time (a mismatch there is
    skipped anyway, see depth_sensitive) or is very slow are left out: every reload path would pay for them again"""
    import time
    kept, results = [], []
    began = time.monotonic()
    for item in inputs:
        t0 = time.monotonic()
        if t0 - began > 12.0:       # a grammar whose parses are slow throughout (exponential backtracking): a few inputs do
            chk.count('oracle.input-dropped.grammar-budget')
            continue
        r = parse_outcome(t, model, item, _limit=3, **parse_kw)
        if r[0] == 'timeout' or r[:2] == ('err', 'RecursionError') or time.monotonic() - t0 > 2.0:
            chk.count('oracle.input-dropped.' + ('timeout' if r[0] == 'timeout' else 'RecursionError' if r[0] == 'err' else 'slow'))
            continue
        kept.append(item)
        results.append(r)
    return kept, results


def _deeper(n, f):
    return f() if n == 0 else _deeper(n - 1, f)


DEPTH_SKIPS = [0]


def depth_sensitive(t, ref_model, item, want, kw):
    """Is the reference outcome of this input a matter of how deep the caller's stack happens to be?  A grammar that recurses
    without bound (e.g. through a lookahead, unmarked as left recursive) dies where the interpreter's limit is hit, and the
    engine turns some of those deaths into ordinary alternatives failing - the outcome then varies with the depth of the call.
    Such an input says nothing about the reload; asked only after a mismatch."""
    if want[:2] == ('err', 'RecursionError') or want[0] == 'timeout':
        DEPTH_SKIPS[0] += 1
        return True
    if ref_model is None:
        return False
    for d in (0, 9, 21, 34, 55, 80):
        if _deeper(d, lambda: parse_outcome(t, ref_model, item, **kw)) != want:
            DEPTH_SKIPS[0] += 1
            return True
    return False


def strip_ids(j):
    """asjson of a model with back-reference strings made comparable"""
    if isinstance(j, str):
        return re.sub(r'@0x[0-9A-F]+$', '@0x?', j)
    if isinstance(j, list):
        return [strip_ids(e) for e in j]
    if isinstance(j, dict):
        # BasedRule.rhs / baserule are derived from exp and the base rule by __post_init__ (rebuilt on reload)
        derived = ('rhs', 'baserule') if j.get('__class__') == 'BasedRule' else ()
        return {k: strip_ids(v) for k, v in j.items() if k not in derived}
    return j


def canon_setting(v):
    """a configuration value with its type (False, None, 0 and '' are different settings)"""
    if v is None or isinstance(v, (bool, int, float, str)):
        return (type(v).__name__, v)
    if isinstance(v, (tuple, list)):
        return (type(v).__name__, tuple(canon_setting(e) for e in v))
    if isinstance(v, types.ModuleType):
        return ('module', v.__name__)
    if isinstance(v, type):
        return ('class', f'{v.__module__}.{v.__qualname__}')
    if isinstance(v, re.Pattern):
        return ('re.Pattern', v.pattern, v.flags)
    if type(v).__name__ == 'UndefinedType':
        return ('Undefined',)
    if isinstance(v, C14Sem):
        return ('C14Sem', v.tag)
    return ('instance', type(v).__name__)


def canon_config(cfg):
    """the effective parser configuration: every field of the dataclass, read from the instance"""
    return {f.name: canon_setting(getattr(cfg, f.name, ('<missing>',))) for f in dataclasses.fields(cfg)}


def config_diff(c1, c2):
    return {k: (c1.get(k), c2.get(k)) for k in sorted(set(c1) | set(c2)) if c1.get(k) != c2.get(k)}


class C14Sem:
    """a picklable semantics object (module level: pickle finds it by name)"""
    def __init__(self, tag=0):
        self.tag = tag


def model_facts(t, m):
    return {
        'config': canon_config(m.config),
        'name': m.name,
        'rules': [(r.name, list(r.params or ()), dict(r.kwparams or {}), r.base, bool(r.is_name), bool(r.no_memo),
                   bool(r.is_lrec), bool(r.is_tokn)) for r in m.rules],
        'directives': dict(m.directives),
        'keywords': tuple(m.keywords),
        'pretty': m.pretty(),
        'asjson': strip_ids(m.asjson()),
    }


def diff_models(t, ref_facts, m2, ref_results, inputs, parse_kw, ref_model=None):
    """first difference class between the reference model and a reloaded one"""
    try:
        f2 = model_facts(t, m2)
    except Exception as e:   # noqa: BLE001
        return f'facts-raise-{type(e).__name__}', str(e)[:200]
    for key in ('rules', 'directives', 'keywords', 'name', 'pretty', 'asjson'):
        if ref_facts[key] != f2[key]:
            return f'{key}-differ', f'{str(ref_facts[key])[:300]} != {str(f2[key])[:300]}'
    for text, want in zip(inputs, ref_results):
        got = parse_outcome(t, m2, text, **parse_kw)
        if got != want and not depth_sensitive(t, ref_model, text, want, parse_kw):
            return 'parse-differs', f'input {text!r}: {want} != {got}'
    # the configuration the parses run with (Grammar.config): a setting that differs changes the language or the
    # ASTs for some input even if none of the sampled ones shows it
    if ref_facts['config'] != f2['config']:
        d = config_diff(ref_facts['config'], f2['config'])
        return 'config-differs:' + '+'.join(sorted(d)), str(d)[:400]
    return None, ''


def style_features(g):
    feats = set()

    def visit_str(s):
        if s.startswith('f{'):
            feats.add('string-startswith-f{')
        if s.startswith('\\e['):
            feats.add('string-startswith-\\e[')

    def visit(e):
        if e[0] in ('tok', 'const', 'alert', 'pat'):
            visit_str(e[1])
        for x in e[1:]:
            if isinstance(x, tuple):
                visit(x)
            elif isinstance(x, list):
                for y in x:
                    visit(y)
    for r in g['rules']:
        visit(r['exp'])
        for k, v in r['kwparams']:
            if k == '__class__':
                feats.add('dict-key-__class__')
            visit_str(v.strip("'"))
    for n, v in g['directives']:
        if v is not None:
            visit_str(v[1:] if v[:1] in "'/" else v)
    for k in g['keywords']:
        visit_str(k)
    return feats


SETTINGS_POOL = [
    ('nameguard', [False, False, True]), ('whitespace', ['', '', '[ ]+', '\\s+', None]), ('ignorecase', [True, False]),
    ('left_recursion', [False]), ('memoization', [False]), ('prune_memos_on_cut', [False]), ('parseinfo', [True, False]),
    ('namechars', ['-', '_', '']), ('comments', ['\\(\\*.*?\\*\\)', '']), ('eol_comments', ['#.*?$', '']), ('perlinememos', [0, 0.5, 2]),
    ('colorize', [False]), ('trace_length', [0, 10]), ('trace_separator', ['', '>']), ('heart_bps', [0]), ('source', ['', 'g.tatsu']),
    ('start', [None, 'start']),
]


def draw_settings(rng, lo=1, hi=3):
    return {name: rng.choice(values) for name, values in rng.sample(SETTINGS_POOL, rng.randint(lo, hi))}


def check_settings_model(chk: Check, t, g, text, gname, rng, proto, parse_kw, blob=None):
    """Grammar(name, rules, directives=, keywords=, **settings) / config=ParserConfig(**settings): the settings live only in
    Grammar.config, which travels with the pickle (JSON and model source carry rules, directives and keywords only)"""
    settings = draw_settings(rng)
    via_config = rng.random() < 0.5
    try:
        with time_limit(20):
            base = fresh_rules_model(t, text, gname + 'S', blob)
            if via_config:
                ms = t.Grammar(base.name, base.rules, directives=dict(base.directives), keywords=base.keywords,
                               config=t.ParserConfig(**settings))
            else:
                ms = t.Grammar(base.name, base.rules, directives=dict(base.directives), keywords=base.keywords, **settings)
    except Exception as e:   # noqa: BLE001   (e.g. left_recursion=False on a left-recursive grammar)
        chk.count(f'oracle.settings-model-rejected.{type(e).__name__}')
        return 0
    chk.count('oracle.settings-models')
    for k in settings:
        chk.count(f'oracle.settings-models.{k}')
    g2 = dict(g, settings=settings)
    inputs = sample_inputs(g2, rng, 3 if chk.quick else 6) + entry_inputs(g2, rng, 1 if chk.quick else 2)
    chk.case(f'settings-model:{sorted(settings.items(), key=str)}:{text}', nontrivial=True)
    try:
        fresh_blob = pickle.dumps(ms, protocol=proto)
        inputs, ref_results = ref_parses(chk, t, ms, inputs, parse_kw)
        ref = model_facts(t, ms)
    except Exception as e:   # noqa: BLE001
        chk.violation(f'pickle:settings-model-raises-{type(e).__name__}', f'a model built with settings cannot be pickled/described: {e!r}'[:300],
                      {'oracle': 'pickle.dumps(Grammar(..., **settings))', 'grammar': text, 'settings': repr(settings)})
        return 1
    for when, blob in (('fresh', fresh_blob), ('after-parsing', None)):
        try:
            with time_limit(30):
                m2 = pickle.loads(blob if blob is not None else pickle.dumps(ms, protocol=proto))
            why, detail = diff_models(t, ref, m2, ref_results, inputs, parse_kw, ms)
        except Timeout:
            why, detail = 'load-timeout', ''
        except Exception as e:   # noqa: BLE001
            why, detail = f'load-raises-{type(e).__name__}', str(e)[:300]
        if why:
            chk.violation(f'pickle:settings-model:{why}',
                          f'a model built with {"config=ParserConfig(**s)" if via_config else "**s"}, s={settings!r}, reloaded from '
                          f'pickle ({when}) differs ({why}): {detail[:200]}',
                          {'oracle': 'pickle.loads(pickle.dumps(Grammar(name, rules, directives=, keywords=, **settings)))',
                           'grammar': text, 'settings': repr(settings), 'via_config': via_config, 'difference': why,
                           'detail': detail, 'pickled': when, 'protocol': proto})
            return 1
    return 0


def fresh_rules_model(t, text, name, blob):
    """a model of the same grammar with its own rule objects (a Grammar links its rules to itself): the copy that was
    pickled before the first parse if there is one (cheap), else a new compile"""
    if isinstance(blob, bytes):
        try:
            return pickle.loads(blob)
        except Exception:   # noqa: BLE001
            pass
    return t.tatsu.compile(text, name=name)


def check_parser_class(chk: Check, t, g, text, gname, ns, m, inputs, ref_results, parse_kw, rng, blob=None):
    """<Name>Parser of the generated module: built plain / with settings, parse() with and without per-parse settings, must
    behave as the model the source was generated from (same outcomes and ASTs on the same inputs, entry rules included).
    parse() of the generated class has asmodel=True as its default (Grammar.parse: False), so asmodel is always passed."""
    cls = ns.get(f'{gname}Parser')
    if not isinstance(cls, type):
        chk.violation('source:parser-class:missing', f'the generated module has no class {gname}Parser',
                      {'oracle': 'generated <Name>Parser', 'grammar': text})
        return 1
    chk.count('oracle.parser-class')
    base_kw = dict({'asmodel': False}, **parse_kw)
    settings = draw_settings(rng, 1, 2)
    settings.pop('start', None)
    # every parse that names its entry rule, every rendering with a reserved word, and some of the rest
    entry = [i for i, x in enumerate(inputs) if isinstance(x, tuple)]
    plain = [i for i, x in enumerate(inputs) if not isinstance(x, tuple)]
    kwds = [k.upper() for k in g['keywords'] if k.isalnum()]
    resv = [i for i in plain if kwds and any(w.strip('_x').upper() in kwds or w.upper() in kwds for w in re.split(r'\W+', inputs[i]))]
    rest = [i for i in plain if i not in resv]
    n = 8 if chk.quick else 16
    first = sorted(entry + resv[:n] + rng.sample(rest, min(n, len(rest))))
    plans = [('Parser().parse(text)', 'plain', {}, {}, m, {i: ref_results[i] for i in first})]
    mode = rng.choice(['ctor', 'ctor-config', 'parse', 'parse-config'])
    picked = sorted(rng.sample(first, min(6 if chk.quick else 12, len(first))))
    if mode.startswith('ctor'):
        # Parser(**s) / Parser(config=ParserConfig(**s)) is the model with these settings underneath its directives
        try:
            with time_limit(20):
                base = fresh_rules_model(t, text, gname + 'P', blob)
                ms = t.Grammar(base.name, base.rules, directives=dict(base.directives), keywords=base.keywords, **settings)
            want = {i: parse_outcome(t, ms, inputs[i], **parse_kw) for i in picked}
            ctor = {'config': t.ParserConfig(**settings)} if mode == 'ctor-config' else settings
            plans.append((f'Parser({"config=ParserConfig(**s)" if mode == "ctor-config" else "**s"}).parse(text)', mode, ctor, {}, ms, want))
        except Exception as e:   # noqa: BLE001  (e.g. left_recursion=False on a left-recursive grammar)
            chk.count(f'oracle.parser-class.settings-rejected.{type(e).__name__}')
    else:
        per = {'config': t.ParserConfig(**settings)} if mode == 'parse-config' else settings
        want = {i: parse_outcome(t, m, inputs[i], **dict(parse_kw, **per)) for i in picked}
        plans.append((f'Parser().parse(text, {"config=ParserConfig(**s)" if mode == "parse-config" else "**s"})', mode, {}, per, m, want))
    bad = 0
    for what, shape, ctor, per, ref_model, want in plans:
        # (a reference that dies of unbounded recursion / runs out of time under these settings: skipped anyway, not paid twice)
        want = {i: w for i, w in want.items() if w[0] != 'timeout' and w[:2] != ('err', 'RecursionError')}
        try:
            with time_limit(20):
                parser = cls(**ctor)
        except Exception as e:   # noqa: BLE001
            chk.violation(f'source:parser-class:init-raises-{type(e).__name__}', f'{what}: {e!r}'[:300],
                          {'oracle': 'generated <Name>Parser', 'grammar': text, 'call': what, 'settings': repr(settings)})
            return 1
        start_ignored = False
        for i, w in sorted(want.items()):
            got = parse_outcome(t, parser, inputs[i], **dict(base_kw, **per))
            chk.evaluations += 1
            if got == w or depth_sensitive(t, ref_model, inputs[i], w, dict(parse_kw, **per)):
                continue
            if isinstance(inputs[i], tuple):
                # the same input parsed by the model from its default entry rule: did the parser drop start= ?
                # (asked of the parser itself, from this very frame: the model's default parse may be depth-sensitive)
                if start_ignored or got == parse_outcome(t, parser, inputs[i][0], **dict(base_kw, **per)):
                    if not start_ignored:
                        chk.violation('source:parser-class:start-ignored',
                                      f'{what.replace("text", "text, start=" + repr(inputs[i][1]), 1)} of the generated parser parses from the '
                                      f'default entry rule: {w} != {got}'[:400],
                                      {'oracle': 'generated <Name>Parser parses like the model it was generated from', 'grammar': text,
                                       'call': what, 'input': inputs[i][0], 'start': inputs[i][1], 'model': w, 'parser': got})
                    start_ignored = True
                    bad = 1
                    continue
            # what the model itself answers when a complete default configuration is laid over it for this parse (the
            # generated parse() builds ParserConfig.new(config, **settings) and passes it as config=): did the defaults of
            # the fields that are never None (parseinfo, memoization, left_recursion, ...) displace directives / settings?
            try:
                laid = t.ParserConfig.new(per.get('config'), **{k: v for k, v in per.items() if k != 'config'})
                probe = parse_outcome(t, ref_model, inputs[i], **dict(parse_kw, config=laid))
            except Exception:   # noqa: BLE001
                probe = None
            if probe == got:
                chk.violation('source:parser-class:default-config-over-directives',
                              f'{what} of the generated parser answers as the model does under a complete default configuration '
                              f'on {inputs[i]!r}: {w} != {got}'[:400],
                              {'oracle': 'generated <Name>Parser parses like the model it was generated from', 'grammar': text,
                               'call': what, 'settings': repr(settings) if (ctor or per) else None, 'input': inputs[i],
                               'model': w, 'parser': got})
                bad = 1
                continue
            kwsens = bool(g['keywords']) and 'KeywordError' in (str(got) + str(w))
            chk.violation(f'source:parser-class:{shape}:parse-differs' + (':reserved-word' if kwsens else ''),
                          f'{what} of the generated parser differs from the model on {inputs[i]!r}: {w} != {got}'[:400],
                          {'oracle': 'generated <Name>Parser parses like the model it was generated from', 'grammar': text,
                           'call': what, 'settings': repr(settings) if (ctor or per) else None, 'input': inputs[i],
                           'model': w, 'parser': got})
            return 1
    return bad


def load_json_path(t, m, variant):
    if variant == 0:
        return t.Grammar.load(json.loads(json.dumps(m.asjson())))
    if variant == 1:
        return t.Grammar.loads(m.asjsons())
    return t.tatsu.api.load_json_grammar(json.dumps(m.asjson()))


def load_source_path(t, src_text, name):
    ns: dict = {}
    exec(compile(src_text, f'<generated {name}>', 'exec'), ns)   # noqa: S102
    return ns['GRAMMAR_MODEL'], ns




def run_oracle(chk: Check, t, mr: ModelRun, bkeys_sx, reg_sx):
    rng = chk.rng
    ngr = 84 if chk.quick else 900
    j1_reqs, j1_cases = [], []
    j2_reqs, j2_cases = [], []
    nbad = {'json': 0, 'pickle': 0, 'source': 0, 'dump': 0}
    nsem = [0]
    compiled = 0
    try:
        alert_defect = t.peg.Alert(literal=0, level=1).literal is None     # (D14e, probe of the tree under test)
    except Exception:   # noqa: BLE001
        alert_defect = False
    for it in range(ngr):
        risky = 0.0 if it % 3 == 0 else (0.15 if it % 3 == 1 else 0.5)
        g = GrammarGen(rng, risky).grammar()
        text = render_grammar(g)
        gname = f'C14G{it}'
        try:
            with time_limit(20):
                m = t.tatsu.compile(text, name=gname)
        except Timeout:
            chk.count('oracle.compile-timeout')
            continue
        except Exception as e:   # noqa: BLE001
            chk.count(f'oracle.grammar-rejected.{type(e).__name__}')
            continue
        compiled += 1
        feats = style_features(g)
        chk.case('grammar:' + text, nontrivial=len(g['rules']) > 1 or bool(feats))
        chk.count('oracle.grammars')
        chk.count('oracle.grammars.risky' if feats else 'oracle.grammars.plain')
        inputs = sample_inputs(g, rng, 4 if chk.quick else 8) + entry_inputs(g, rng, 2 if chk.quick else 4)
        if any(r['name'] == 'start' for r in g['rules'][1:]):
            chk.count('oracle.grammars.start-rule-not-first')
        if g['keywords'] and any(r['decorators'] and set(r['decorators']) & {'name', 'isname'} for r in g['rules']):
            chk.count('oracle.grammars.keywords-and-name-rule')
        parse_kw = {}
        if it % 4 == 1:
            parse_kw = {'asmodel': True}
        elif it % 4 == 2:
            parse_kw = {'parseinfo': True}
        # pickled before the first parse (no cached optimized model yet) and, below, after parsing
        proto = rng.choice([2, 3, 4, 5])
        try:
            fresh_blob = pickle.dumps(m, protocol=proto)
        except Exception as e:   # noqa: BLE001
            fresh_blob = e
        inputs, ref_results = ref_parses(chk, t, m, inputs, parse_kw)
        for s, r in zip(inputs, ref_results):
            chk.count('oracle.parses.' + r[0])
        try:
            ref = model_facts(t, m)
        except Exception as e:   # noqa: BLE001
            chk.violation(f'oracle:model-facts-raise-{type(e).__name__}', f'asjson()/pretty() of a compiled model raises: {e!r}'[:300],
                          {'oracle': 'model.asjson() / pretty()', 'grammar': text})
            continue

        def check_path(path, loader, ref_facts, build_variant, ref_model=m):
            """returns (diffclass, detail) of the reload through one serialization path for grammar text"""
            try:
                with time_limit(30):
                    m2 = loader()
            except Timeout:
                return 'load-timeout', ''
            except Exception as e:   # noqa: BLE001
                return f'load-raises-{type(e).__name__}', str(e)[:300]
            return diff_models(t, ref_facts, m2, ref_results, inputs, parse_kw, ref_model)

        # ---- JSON
        variant = it % 3
        why, detail = check_path('json', lambda: load_json_path(t, m, variant), ref, variant)
        if why:
            nbad['json'] += 1
            sigs, small_text = attribute_json(t, g, gname, variant, why)
            for sig in sigs:
                chk.violation(sig, f'grammar reloaded from JSON differs ({why}): {detail[:200]}',
                              {'oracle': 'Grammar.load(json.loads(json.dumps(m.asjson())))', 'grammar': small_text,
                               'difference': why, 'detail': detail, 'variant': variant})
        # ---- pickle
        def unpickle_fresh():
            if isinstance(fresh_blob, Exception):
                raise fresh_blob
            return pickle.loads(fresh_blob)
        for when, loader in (('after-parsing', lambda: pickle.loads(pickle.dumps(m, protocol=proto))), ('fresh', unpickle_fresh)):
            why, detail = check_path('pickle', loader, ref, 0)
            if why:
                nbad['pickle'] += 1
                chk.violation(f'pickle:{why}', f'grammar reloaded from pickle ({when}, protocol {proto}) differs ({why}): {detail[:200]}',
                              {'oracle': 'pickle.loads(pickle.dumps(m))', 'grammar': text, 'difference': why, 'detail': detail,
                               'pickled': when, 'protocol': proto})
                break
        # ---- pickle of a model whose configuration was given to the constructor (not written in the grammar text)
        if it % 2 == 1:
            nbad['pickle'] += check_settings_model(chk, t, g, text, gname, rng, proto, parse_kw, fresh_blob)
        # ---- model source (emits the optimized model)
        src_ns: dict = {}
        try:
            mo = m.optimized()
            ref_o = model_facts(t, mo)
            src = t.tatsu.api.to_parsermodel_sourcecode(text, name=gname)

            def load_src():
                gm, ns = load_source_path(t, src, gname)
                src_ns.update(ns)
                return gm
            why, detail = check_path('source', load_src, ref_o, 0, mo)
        except Exception as e:   # noqa: BLE001
            why, detail = f'generate-raises-{type(e).__name__}', str(e)[:300]
        sig = None
        if why:
            nbad['source'] += 1
            sig, small_text = attribute_source(t, g, gname, why, m.optimized())
            chk.violation(sig, f'grammar reloaded from generated model source differs ({why}): {detail[:200]}',
                          {'oracle': 'exec(to_parsermodel_sourcecode(grammar))', 'grammar': small_text,
                           'difference': why, 'detail': detail})
        # ---- the parser class of the generated module (what a user of the generated file calls)
        if alert_defect and falsy_consts(g, ('alert',)):
            # listed finding source:alert-falsy-literal: the parser class runs the same reloaded model
            chk.count('oracle.parser-class.skipped-on-listed-alert-finding')
        elif src_ns:
            nbad['source'] += check_parser_class(chk, t, g, text, gname, src_ns, m, inputs, ref_results, parse_kw, rng, fresh_blob)
        # ---- every parse result converts and dumps; J1 on the results and on the model itself
        for s in inputs[:3]:
            for kw in ({}, {'asmodel': True}, {'parseinfo': True, 'asmodel': True}):
                try:
                    with time_limit(10):
                        res = m.parse(s, **kw)
                except Exception:   # noqa: BLE001
                    continue
                link_children(t, res)
                try:
                    with time_limit(20):
                        js = t.asjson(res)
                        json.dumps(js)
                    chk.count('oracle.results-dumped')
                except Exception as e:   # noqa: BLE001
                    nbad['dump'] += 1
                    chk.violation(f'oracle:result-not-dumpable-{type(e).__name__}',
                                  f'json.dumps(asjson(parse result)) failed: {e!r}'[:300],
                                  {'oracle': 'json.dumps(asjson(result))', 'grammar': text, 'input': s, 'settings': kw})
                    continue
                if len(j1_reqs) < (400 if chk.quick else 4000):
                    compare_asjson(chk, t, j1_reqs, j1_cases, res, f'parse result of {gname} on {s!r} {kw}', bkeys_sx)
            # the same input under semantic actions that build an object model out of enum members (single / several values),
            # namedtuples, nodes, sets: converts, dumps and agrees with Json.v
            sem = C14WrapSem(t, rng.randrange(1 << 30))
            try:
                with time_limit(10):
                    res = m.parse(s, semantics=sem)
            except Exception:   # noqa: BLE001
                continue
            if not sem.wrapped:
                continue
            try:
                with time_limit(20):
                    json.dumps(t.asjson(res))
                chk.count('oracle.semantic-results-dumped')
            except Exception as e:   # noqa: BLE001
                nbad['dump'] += 1
                chk.violation(f'oracle:semantic-result-not-dumpable-{type(e).__name__}',
                              f'json.dumps(asjson(result of semantic actions)) failed: {e!r}'[:300],
                              {'oracle': 'json.dumps(asjson(result))', 'grammar': text, 'input': s,
                               'semantics': 'C14WrapSem: enum members / namedtuples / nodes / sets around the rule values'})
                continue
            if nsem[0] < (150 if chk.quick else 1500):
                nsem[0] += 1
                compare_asjson(chk, t, j1_reqs, j1_cases, res, f'result of semantic actions of {gname} on {s!r}', bkeys_sx)
        if it % 2 == 0:
            compare_asjson(chk, t, j1_reqs, j1_cases, m, f'grammar model {gname}', bkeys_sx)
        # ---- J2: tree round trip through the model vs fromjson(asjson(x)) of the real code
        try:
            tree = tree_of(t, m)
            j2_reqs.append(f'(tree {reg_sx} {tree})')
            j2_cases.append((gname, text, m, feats))
        except Unsupported as e:
            chk.count(f'J2.unsupported.{e}')
    chk.count('oracle.compiled', compiled)
    chk.count('oracle.mismatch-on-depth-sensitive-input-skipped', DEPTH_SKIPS[0])
    def unlisted(prefix):
        return [v for v in chk.violations if v['signature'].startswith(prefix)]
    chk.count('oracle.reload-differs.json', nbad['json'])
    chk.count('oracle.reload-differs.pickle', nbad['pickle'])
    chk.count('oracle.reload-differs.source', nbad['source'])
    chk.obligation('oracle:JSON reload yields the same rules/directives/keywords and parses (outside listed findings)', 'oracle',
                   not unlisted('json:'))
    chk.obligation('oracle:pickle reload yields the same rules/directives/keywords and parses', 'oracle', not unlisted('pickle:'))
    chk.obligation('oracle:model-source reload yields the same rules/directives/keywords and parses (outside listed findings)',
                   'oracle', not unlisted('source:'))
    chk.obligation('oracle:the generated <Name>Parser class (plain, with constructor / per-parse settings) parses like the model',
                   'oracle', not unlisted('source:parser-class'))
    chk.obligation('oracle:json.dumps(asjson(parse result)) succeeds', 'oracle', not unlisted('oracle:result-not-dumpable'))
    chk.obligation('oracle:json.dumps(asjson(object model built by semantic actions: enum members, namedtuples, nodes, sets)) succeeds',
                   'oracle', not unlisted('oracle:semantic-result-not-dumpable'))
    # J1 on parse results / models
    replies = mr.ask(j1_reqs)
    bad = settle_asjson(chk, replies, j1_cases, j1_reqs)
    chk.count('J1.parse-results-and-models', len(j1_reqs))
    chk.obligation('J1:asjson vs Json.v on parse results (ASTs, Nodes with parents) and grammar models', 'correspondence', bad == 0)
    # J2
    bad = 0
    for rep, (gname, text, m, feats) in zip(mr.ask(j2_reqs), j2_cases):
        chk.evaluations += 1
        chk.count('J2.models')
        mjson = model_json_to_py(rep[0])
        hbdummy = SimpleNamespace(ids={})
        real_json = canon_real_json(m.asjson(), hbdummy)
        if mjson != real_json:
            bad += 1
            chk.violation('corr:J2-asjson-tree', f'asjson(model) differs from asjson_tree for {gname}',
                          {'correspondence': 'J2 asjson_tree', 'grammar': text, 'impl': repr(real_json)[:2000], 'model': repr(mjson)[:2000]})
            continue
        mfrom = model_pyv(rep[1], sort_obj=False)
        guard = rep[3] == '1' and rep[4] == '1'
        chk.count('J2.guard-holds' if guard else 'J2.guard-fails')
        try:
            real = t.fromjson(m.asjson())
            del FALSY_LITERAL_HITS[:]
            ok, where = match_pyv(t, mfrom, real)
            if FALSY_LITERAL_HITS:
                chk.violation('json:constant-falsy-literal',
                              f'fromjson(asjson(model)) of {gname}: the constant at {FALSY_LITERAL_HITS[0]} came back as None',
                              {'correspondence': 'J2 fromjson', 'grammar': text, 'where': list(FALSY_LITERAL_HITS)})
            if not ok:
                bad += 1
                chk.violation('corr:J2-fromjson', f'fromjson(asjson(model)) differs from Json.v for {gname} at {where}',
                              {'correspondence': 'J2 fromjson', 'grammar': text, 'where': where})
        except Exception as e:   # noqa: BLE001
            if guard:
                bad += 1
                chk.violation('corr:J2-fromjson-raises', f'fromjson(asjson(model)) raises {type(e).__name__} although the guard of '
                              f'C14_json_roundtrip holds for {gname}',
                              {'correspondence': 'J2 fromjson', 'grammar': text, 'error': repr(e)[:300]})
            else:
                chk.count('J2.real-raises-outside-guard')
    chk.obligation('J2:asjson_tree/fromjson of Json.v vs the real functions on generated grammar models', 'correspondence', bad == 0)


class C14WrapSem:
    """semantic actions as users write them: the value of a rule is classified with Enum members (declared with one or several
    values), put into namedtuples, nodes, tuples, dicts, next to sets - the object models whose conversion the property speaks of"""
    def __init__(self, t, seed):
        import random
        self.t = t
        self.rng = random.Random(seed)
        self.wrapped = 0

    def _default(self, ast, *args, **kwargs):
        t, rng = self.t, self.rng
        r = rng.random()
        if r < 0.4:
            return ast
        self.wrapped += 1
        member = rng.choice(list(t.C14Op) + list(t.C14Assoc) + list(t.C14Color))
        k = rng.choice(['member', 'pair', 'dict', 'nt', 'node', 'dyn', 'dyn', 'set'])
        if k == 'member':
            return member
        if k == 'pair':
            return (member, ast)
        if k == 'dict':
            return {'kind': member, 'value': ast, 'tags': frozenset({rng.choice(['a', 'b']), t.C14Assoc.LEFT})}
        if k == 'nt':
            return t.C14NT(member, ast)
        if k == 'node':
            return t.C14Bin(left=ast, right=member)
        if k == 'dyn':
            value = rng.choice([(member, ast), [ast, member], ('v', 1, {'k': ast}), (t.C14NT(ast, member),), (frozenset({member}), ast)])
            return enum.Enum('C14Kind', [('K', value)]).K
        return [ast, {member}]


def link_children(t, res):
    """walk an object model so that parent links (weakrefs) exist, as user code does via children()"""
    seen = set()

    def walk(x, depth=0):
        if id(x) in seen or depth > 200:
            return
        seen.add(id(x))
        if isinstance(x, t.Node):
            try:
                for c in x.children():
                    walk(c, depth + 1)
            except Exception:   # noqa: BLE001
                pass
        elif isinstance(x, Mapping):
            for v in x.values():
                walk(v, depth + 1)
        elif isinstance(x, (list, tuple)):
            for v in x:
                walk(v, depth + 1)
    walk(res)


def tree_of(t, x) -> str:
    if x is None:
        return 'none'
    if isinstance(x, bool):
        return f'(b {1 if x else 0})'
    if isinstance(x, int):
        if abs(x) >= BIG:
            raise Unsupported('bigint')
        return f'(i {x})'
    if isinstance(x, float):
        return f'(f {S(repr(x))})'
    if isinstance(x, t.Style):
        raise Unsupported('style')
    if isinstance(x, str):
        return f'(s {S(x)})'
    if isinstance(x, (list, tuple)):
        return f'(l {sx_list(tree_of(t, e) for e in x)})'
    if isinstance(x, dict):
        return f'(d {sx_list(f"({S(str(k))} {tree_of(t, v)})" for k, v in x.items())})'
    if isinstance(x, t.BaseNode):
        return f'(obj {S(type(x).__name__)} {sx_list(f"({S(k)} {tree_of(t, v)})" for k, v in x.__pub__().items())})'
    raise Unsupported(type(x).__name__)


FALSY_LITERAL_HITS: list = []


def match_pyv(t, mp, real, path='$'):
    """model prediction (constructor keyword data) against the object the real fromjson built"""
    if mp == 'none':
        return real is None, path
    tag = mp[0]
    if tag == 'b':
        return isinstance(real, bool) and real == mp[1], path
    if tag == 'i':
        return isinstance(real, int) and not isinstance(real, bool) and real == mp[1], path
    if tag == 'f':
        return isinstance(real, float) and repr(real) == mp[1], path
    if tag == 's':
        return type(real) is str and real == mp[1], path
    if tag == 'style':
        return True, path       # the constructor received a Style; what it keeps of it is its own business
    if tag == 'l':
        if not isinstance(real, (list, tuple)) or len(real) != len(mp[1]):
            return False, path
        for i, (a, b) in enumerate(zip(mp[1], real)):
            ok, w = match_pyv(t, a, b, f'{path}[{i}]')
            if not ok:
                return False, w
        return True, path
    if tag == 'd':
        if not isinstance(real, dict) or [k for k, _ in mp[1]] != list(real.keys()):
            return False, path
        for k, v in mp[1]:
            ok, w = match_pyv(t, v, real[k], f'{path}.{k}')
            if not ok:
                return False, w
        return True, path
    if tag == 'obj':
        if type(real).__name__ != mp[1]:
            return False, path + ':class'
        for k, v in mp[2]:
            if not hasattr(real, k):
                return False, f'{path}.{k}:missing'
            if k == 'literal' and mp[1] in ('Constant', 'Alert') and getattr(real, k) is None and v != 'none' \
                    and v in (('s', ''), ('i', 0), ('b', False), ('f', '0.0')):
                # Constant.__post_init__ (not modelled: it runs after the keyword data arrived) takes the falsy literal
                # for an unset one: reported as the listed finding json:constant-falsy-literal by the caller
                FALSY_LITERAL_HITS.append(f'{path}.{k}')
                continue
            ok, w = match_pyv(t, v, getattr(real, k), f'{path}.{k}')
            if not ok:
                return False, w
        return True, path
    return False, path + ':' + str(tag)


def attribute_json(t, g, gname, variant, why):
    """shrink a JSON-reload failure to its cause class: which style-like prefixes / class keys are needed"""
    def fails(g2, tag):
        try:
            m = t.tatsu.compile(render_grammar(g2), name=f'{gname}{tag}')
        except Exception:   # noqa: BLE001
            return None
        try:
            m2 = load_json_path(t, m, variant)
        except Exception:   # noqa: BLE001
            return True
        f1, f2 = model_facts(t, m), model_facts(t, m2)
        return f1 != f2
    feats = set(style_features(g))
    if falsy_consts(g):
        feats.add('constant-falsy-literal')
    text = render_grammar(g)
    if not feats:
        return [f'json:other:{why}'], text
    if fails(neutralize(neutralize_falsy(g), ('f{', '\\e['), True), 'n') is not False:
        return [f'json:other:{why}'], text
    if len(feats) == 1:
        return ['json:' + next(iter(feats))], text     # fails with it, does not fail without it
    needed = []
    for feat, fix in (('string-startswith-f{', (('f{',), False)), ('string-startswith-\\e[', (('\\e[',), False)),
                      ('dict-key-__class__', ((), True)), ('constant-falsy-literal', ((), False))):
        if feat not in feats:
            continue
        # is the failure still there when only this cause is left in?
        others_fixed = neutralize(g if feat == 'constant-falsy-literal' else neutralize_falsy(g),
                                  tuple(p for p in ('f{', '\\e[') if p not in fix[0]), not fix[1])
        if fails(others_fixed, 'o' + str(len(needed))) is True:
            needed.append('json:' + feat)
    if not needed:
        return ['json:other-combination:' + '+'.join(sorted(feats))], text
    return needed, text


def attribute_source(t, g, gname, why, m=None):
    text = render_grammar(g)
    if m is None:
        try:
            m = t.tatsu.compile(text, name=gname).optimized()
        except Exception:   # noqa: BLE001
            pass
    one_tuple = False
    sublist = False
    if m is not None:
        def sublists(x, depth=0):
            if depth > 60:
                return
            if isinstance(x, list) and type(x) is not list and len(x) > 0:
                yield x
            if isinstance(x, (list, tuple)):
                for e in x:
                    yield from sublists(e, depth + 1)
            elif isinstance(x, dict):
                for e in x.values():
                    yield from sublists(e, depth + 1)
            elif isinstance(x, t.BaseNode):
                for e in x.__pub__().values():
                    yield from sublists(e, depth + 1)
        sublist = any(True for _ in sublists(m))
    if m is not None:
        def tuples(x, depth=0):
            if depth > 60:
                return
            if isinstance(x, tuple):
                yield x
            if isinstance(x, (list, tuple)):
                for e in x:
                    yield from tuples(e, depth + 1)
            elif isinstance(x, dict):
                for e in x.values():
                    yield from tuples(e, depth + 1)
            elif isinstance(x, t.BaseNode):
                for e in x.__pub__().values():
                    yield from tuples(e, depth + 1)
        one_tuple = any(len(tp) == 1 for tp in tuples(m))
    if one_tuple:
        # is the comma of a one-element tuple really dropped by the printer of this tree?
        from tatsu.util.indent import fold
        try:
            dropped = eval(fold(prefix='', value=('x',))) != ('x',)   # noqa: S307
        except Exception:   # noqa: BLE001
            dropped = True
        if dropped:
            return 'source:one-element-tuple', text
    if sublist:
        return 'source:list-subclass-unbracketed', text
    if falsy_consts(g, ('alert',)):
        # does the model source of the same grammar with the falsy alerts made plain reload equal?
        try:
            text2 = render_grammar(neutralize_falsy(g, ('alert',)))
            ref2 = model_facts(t, t.tatsu.compile(text2, name=gname + 'a').optimized())
            gm2, _ = load_source_path(t, t.tatsu.api.to_parsermodel_sourcecode(text2, name=gname + 'a'), gname + 'a')
            if model_facts(t, gm2) == ref2:
                return 'source:alert-falsy-literal', text
        except Exception:   # noqa: BLE001
            pass
    return f'source:other:{why}', text


# ===================================================================== pickle state of the configuration object
def run_config_pickle(chk: Check, t):
    """Config.__getstate__/__setstate__ (the pickle state of Grammar._config): a ParserConfig with any combination of settings,
    drawn over truthy, falsy (False / 0 / '' / () / None) and module / class / instance values, comes back with every field
    equal - compared field by field with the type of the value"""
    rng = chk.rng
    n = 400 if chk.quick else 4000
    fields = {f.name: f for f in dataclasses.fields(t.ParserConfig)}
    pool = dict(SETTINGS_POOL)
    pool.update({'name': [None, '', 'G'], 'grammar': [None, 'G'], 'keywords': [(), ('if',), ('if', 'then')],
                 'semantics': [None, json, re, C14Sem(0), C14Sem(7)], 'trace': [True, False], 'comment_recovery': [True, False],
                 'tokenizercls': [t.NullText], 'owner': [None, 0, ''], 'extra': [None, {}, [], {'k': False}]})
    pool = {k: v for k, v in pool.items() if k in fields}
    chk.obligation('T:ParserConfig has the fields the settings pool draws from', 'translator',
                   {'nameguard', 'whitespace', 'left_recursion', 'memoization', 'semantics', 'keywords'} <= set(pool))
    bad = 0
    for it in range(n):
        names = rng.sample(sorted(pool), rng.randint(0, 5))
        settings = {k: rng.choice(pool[k]) for k in names}
        how = rng.choice(['init', 'override', 'hard_override', 'setattr'])
        try:
            if how == 'init':
                cfg = t.ParserConfig(**settings)
            elif how == 'override':
                cfg = t.ParserConfig().override(**settings)
            elif how == 'hard_override':
                cfg = t.ParserConfig().hard_override(**settings)
            else:
                cfg = t.ParserConfig()
                for k, v in settings.items():
                    setattr(cfg, k, v)
        except Exception as e:   # noqa: BLE001
            chk.count(f'config-pickle.rejected.{type(e).__name__}')
            continue
        chk.evaluations += 1
        chk.count('config-pickle.configs')
        before = canon_config(cfg)
        falsy = sorted(k for k, v in settings.items() if not v and v is not None and before.get(k) == canon_setting(v))
        if falsy:
            chk.count('config-pickle.with-falsy-non-default')
        chk.case(f'config-pickle:{how}:{sorted(before.items())}', nontrivial=bool(settings))
        proto = rng.choice([2, 3, 4, 5])
        try:
            cfg2 = pickle.loads(pickle.dumps(cfg, protocol=proto))
            after = canon_config(cfg2)
            d = config_diff(before, after)
            if not d and type(cfg2) is not type(cfg):
                d = {'<type>': (type(cfg).__name__, type(cfg2).__name__)}
            if not d and canon_config(cfg) != before:
                d = {'<original-mutated-by-pickling>': config_diff(before, canon_config(cfg))}
        except Exception as e:   # noqa: BLE001
            d = {'<raises>': type(e).__name__}
        if d:
            bad += 1
            kinds = sorted({'raises' if k == '<raises>' else ('falsy' if (k in settings and not settings[k]) else 'value') for k in d})
            chk.violation('pickle:config-state:' + '+'.join(kinds),
                          f'ParserConfig built by {how} with {settings!r} differs after pickle: {d}'[:400],
                          {'oracle': 'pickle.loads(pickle.dumps(ParserConfig(...))) has equal fields', 'how': how,
                           'settings': repr(settings), 'difference': repr(d), 'protocol': proto})
    chk.obligation('oracle:a pickled ParserConfig comes back with every field equal (truthy, falsy, module, class, instance values)',
                   'oracle', bad == 0)


# ===================================================================== repr-as-source of nodes
REPR_VALUES = [None, '', ' ', 'a', "it's", '"', 'two words', 'a\nb', 'f{x', 0, 1, -1, False, True, 0.0, 1.5, (), [], {}, [0], [''],
               ('x',), [(0,)], ('a', 'b'), (0, ''), {'k': ''}, {'k': 0, 'j': False}, ['a', None, 0]]


def run_node_repr(chk: Check, t):
    """BaseNode.__repr__ is the printer of the generated model source: a node whose fields hold any value - falsy ones that
    mean something ('' 0 False 0.0 () [] {}), strings with quotes / line breaks, tuples of one element, containers, nodes in
    nodes - evaluates back to a node with the same public fields (None is the default of every field and may be left out)"""
    rng = chk.rng
    n = 300 if chk.quick else 3000
    ns = {'C14Rec': t.C14Rec}

    def gen(depth=0):
        kw = {}
        for f in ('a', 'b', 'c'):
            r = rng.random()
            if r < 0.25:
                continue
            if r < 0.4 and depth < 2:
                kw[f] = gen(depth + 1)
            elif r < 0.5 and depth < 2:
                kw[f] = [gen(depth + 1), rng.choice(REPR_VALUES)]
            else:
                kw[f] = rng.choice(REPR_VALUES)
        return t.C14Rec(**kw)

    def first_diff(x, y, path='$'):
        if isinstance(x, t.C14Rec) and isinstance(y, t.C14Rec):
            for f in ('a', 'b', 'c'):
                d = first_diff(getattr(x, f), getattr(y, f), f'{path}.{f}')
                if d:
                    return d
            return None
        if isinstance(x, (list, tuple)) and type(x) is type(y) and len(x) == len(y):
            for i, (a, b) in enumerate(zip(x, y)):
                d = first_diff(a, b, f'{path}[{i}]')
                if d:
                    return d
            return None
        if type(x) is type(y) and not isinstance(x, t.C14Rec) and x == y:
            return None
        return path, x, y

    bad = 0
    for it in range(n):
        x = gen()
        chk.evaluations += 1
        chk.count('node-repr.nodes')
        try:
            text = repr(x)
            chk.case('node-repr:' + text, nontrivial=len(text) > 12)
            y = eval(text, dict(ns))   # noqa: S307
            d = first_diff(x, y)
            sig = None
            if d:
                v = d[1]
                sig = f'source:node-repr:field-differs:{type(v).__name__}:{"falsy" if not v else "truthy"}'
                detail = f'{d[0]}: {d[1]!r} came back as {d[2]!r}'
        except Exception as e:   # noqa: BLE001
            sig, detail = f'source:node-repr:raises-{type(e).__name__}', repr(e)[:200]
        if sig:
            bad += 1
            chk.violation(sig, f'eval(repr(node)) does not give the node back: {detail}'[:400],
                          {'oracle': 'eval(repr(node)) has the same public fields', 'repr': repr(x)[:2000], 'detail': detail})
    chk.obligation('oracle:eval(repr(node)) gives back a node with equal fields (falsy values, quotes, one-element tuples, nesting)',
                   'oracle', bad == 0)


# ===================================================================== fixed replays of the Coq witnesses
def run_witnesses(chk: Check, t):
    """the _refuted witnesses replayed on the real code"""
    res = {}
    for label, tok in (('f{a', 'f{a'), ('\\e[', '\\e[')):
        text = f'start = {q(tok)} $ ;\nother = \'o\' ;\n'
        m = t.tatsu.compile(text, name='C14W' + str(len(res)))
        try:
            m2 = t.Grammar.load(json.loads(json.dumps(m.asjson())))
            same = m2.pretty() == m.pretty() and parse_outcome(t, m2, tok) == parse_outcome(t, m, tok) \
                and type(m2.rules[0].exp.sequence[0].token) is str
            res[label] = 'reloads' if same else 'reloads-differently'
        except Exception as e:   # noqa: BLE001
            res[label] = f'raises {type(e).__name__}'
        if res[label] != 'reloads':
            chk.violation('json:string-startswith-' + ('f{' if tok.startswith('f{') else '\\e['),
                          f'a grammar with the token {tok!r} cannot be reloaded from its JSON ({res[label]})',
                          {'oracle': 'witness of C14_json_roundtrip_refuted', 'grammar': text, 'result': res[label]})
    tok_fromjson = t.fromjson({'__class__': 'Token', 'token': 'f{a'})
    coq_agrees = isinstance(tok_fromjson.token, t.Style)
    chk.obligation('witness of C14_json_roundtrip_refuted replays on the real code (Token holds a Style)', 'witness',
                   coq_agrees or type(tok_fromjson.token) is str, str(res))
    chk.extra['refuted_witness_replay'] = res
    # a class object is returned as is (outside the theorem's no_types guard; not produced by parsing)
    raw = t.asjson([t.Grammar])
    chk.extra['class_object_in_asjson'] = 'returned raw' if raw and raw[0] is t.Grammar else 'converted'


def source_shape(chk: Check, t):
    """constants the model was written against (fail closed)"""
    src = (vlib.REPO / 'tatsu/util/fromjson.py').read_text()
    ok = 'node.startswith(("\\\\e[", "f{"))' in src
    chk.obligation('T:fromjson.py sniffing prefixes are ("\\\\e[", "f{")', 'translator', ok)
    src = (vlib.REPO / 'tatsu/util/asjson.py').read_text()
    ok = "f'{type(node).__name__}@0x{hex(node_id).upper()[2:]}'" in src and 'seen.discard(node_id)' in src \
        and "'__class__': None, **asjson(pub, seen=seen)" in src
    chk.obligation('T:asjson.py reference string format, path-local seen set, __class__ first', 'translator', ok)


def main():
    chk = Check(PID)
    chk.rule = ('J1: random object graphs of 1-6 mutable shells (dict, AST, list, AsJSONMixin objects, BaseNode dataclass nodes) plus '
                'tuples, namedtuples, weakrefs, enums, sets / frozensets, bytes, class objects, Styles, with random edges (sharing and cycles), and the '
                'parse results / grammar models of the oracle; J1b: random JSON with __class__ markers of every truth value and registry '
                'status and style-like strings; oracle/J2: generated grammars over the full expression language (all node types, rule '
                'parameters, keyword parameters, decorators, based rules, includes, directives, keywords), one third plain, one third '
                'lightly and one third heavily biased to strings starting with f{ or backslash-e-[ and containing ~ { } :, reloaded '
                'through JSON (3 entry points), pickle and generated model source, compared on rules/directives/keywords/pretty/asjson '
                'and on sampled sentences and their mutations. Options are drawn over their whole value space (switch-on, switch-off: '
                'False / None / empty string, bare form) and every sentence is also rendered in option-sensitive ways (glued, other '
                'blanks, token as prefix of a longer name, case swapped, comments inserted); the reload is also compared on the '
                'effective Grammar.config field by field with value types; pickles are taken before the first parse and after parsing, '
                'protocols 2-5; half of the grammars are rebuilt as Grammar(name, rules, directives=, keywords=, **settings / '
                'config=ParserConfig(**settings)) with 1-3 random settings and pickled; 400 random ParserConfig objects (built by '
                'init / override / hard_override / setattr, values truthy, falsy, module, class, instance) are pickled and compared '
                'field by field. Rule names: half of the grammars are start, r1, r2..; the others draw their names from a pool in '
                'random definition order (a rule called start at a non-first position or absent; the first rule is the entry point); '
                'every grammar is also parsed with start=<random rule / last rule / missing rule> on all reload paths. Reserved '
                'words: a grammar with @@keyword mostly has an @name / @isname identifier rule called from the first rule, and its '
                'sentences are also rendered with a keyword (as declared, other case, prefix of a longer name) where a pattern or '
                '@name matched. The <Name>Parser class of the generated module is instantiated (plain, with constructor settings, '
                'with config=) and its parse() (plain, with per-parse settings / config=) is compared with the model on entry-rule, '
                'reserved-word and sampled inputs. Mismatches on inputs whose reference outcome depends on the depth of the '
                'calling stack (unbounded recursion) are skipped and counted. Constants are also drawn from the falsy / non-string '
                'values (the empty constant, 0, False, 0.0, None, blanks), alerts likewise; 300 nodes whose fields hold falsy values, '
                'quoted strings, one-element tuples, containers and nested nodes are printed with repr and evaluated back. Enum '
                'members in the J1 graphs are declared with scalars, tuples, lists, dicts, namedtuples and sets holding other members, '
                'sets and graph objects (classes made per graph, members on cycles through their own value); sets hold members and '
                'tuples; the first inputs of every grammar are also parsed under semantic actions that wrap rule values into Enum '
                'members (one / several values), namedtuples, nodes, dicts with frozensets, and the result is converted, dumped and '
                'compared with Json.v. Inputs on which the reference parse dies of recursion, times out or takes over 2 s are '
                'dropped after the reference parse (counted). Non-trivial: more than one node / non-empty container / more than one '
                'rule or a risky string; distinct by content hash.')
    chk.trusted += ['Python json, pickle, re; the TatSu bootstrap parser and parse engine (used to build models from grammar text and to '
                    'parse the sampled inputs on both sides of each comparison)',
                    'modelled: asjson dfs incl. seen set, AsJSONMixin/BaseNode/Rule __pub__ (name filter, weakref filter, BaseNode key '
                    'filter, field order, exp last), fromjson dfs and JSONBase.__from_json__ (dataclass init filter); the translator '
                    'classifies live objects in the dispatch order of asjson.dfs and drops bound-method and cached_property attributes; '
                    'not modelled: constructors run by __from_json__ (Grammar re-initialisation), Style.from_raw, pickle byte stream, '
                    'repr-as-source printer (all three covered by the oracle only)']
    chk.assumptions += ['ids of live objects are unique (CPython id)', 'dict keys of grammar-like trees are str (asjson_tree)',
                        'tree/heap link: asjson_tree is the tree instance of dfs - checked by J2 on every generated model, not proved']
    t = load_tatsu()
    source_shape(chk, t)
    chk.coq()
    ok, out = vlib.build_modelrun('Json')
    chk.obligation('modelrun_Json builds', 'build', ok, out[-500:])
    if ok:
        mr = ModelRun('Json')
        bkeys = [k for k in vars(t.BaseNode).keys()]
        bkeys_sx = sx_list(S(k) for k in bkeys)
        chk.obligation('T:vars(BaseNode) holds ast, ctx, parseinfo', 'translator', {'ast', 'ctx', 'parseinfo'} <= set(bkeys))
        reg_items = []
        for name, cls in sorted(t.fj_mod.__from_json__class__.items()):
            if dataclasses.is_dataclass(cls):
                fs = [n for n, f in t.fj_mod.dataclass_fields(cls) if f.init]
                fs = list(dict.fromkeys(fs))
                reg_items.append(f'({S(name)} (dc {sx_list(S(f) for f in fs)}))')
            else:
                reg_items.append(f'({S(name)} plain)')
        reg_sx = sx_list(reg_items)
        for phase, fn in (('witnesses', lambda: run_witnesses(chk, t)),
                          ('J1-graphs', lambda: run_j1_graphs(chk, t, mr, bkeys_sx)),
                          ('J1b-fromjson', lambda: run_j1b_fromjson(chk, t, mr)),
                          ('config-pickle', lambda: run_config_pickle(chk, t)),
                          ('node-repr', lambda: run_node_repr(chk, t)),
                          ('oracle', lambda: run_oracle(chk, t, mr, bkeys_sx, reg_sx))):
            try:
                fn()
            except Exception as e:   # noqa: BLE001  (a crash of the real code inside a phase is a finding, not a harness exit)
                import traceback
                chk.violation(f'phase-crashed:{phase}:{type(e).__name__}', f'phase {phase} stopped: {e!r}'[:300],
                              {'phase': phase, 'traceback': traceback.format_exc()[-3000:]})
    chk.exhaustive = False
    return chk.finish()


if __name__ == '__main__':
    sys.exit(main())
