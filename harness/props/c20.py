"""C20 - styling text never alters the text itself (tatsu/ztyle/style.py, tatsu/util/tty.py)."""
from __future__ import annotations

import io
import itertools
import os
import sys
import unicodedata
from pathlib import Path

sys.path.insert(0, str(Path(__file__).resolve().parent.parent))
sys.path.insert(0, str(Path(__file__).resolve().parent.parent / 'translate'))
import vlib
from vlib import Check, ModelRun, sx, sx_str, Atom, Some

PID = 'C20'
ESC = '\x1b'
FLAGS = ['bold', 'dim', 'italic', 'underline', 'blink', 'inverse', 'hidden', 'strikethrough']


# ------------------------------------------------------------------ descriptors <-> model / implementation
def sx_color(c):
    if c is None:
        return 'none'
    if isinstance(c, tuple):
        return f'(rgb {c[0]} {c[1]} {c[2]})'
    return f'(idx {c})'


def sx_style(st):
    flags, fg, bg = st
    return '(' + ' '.join('1' if f else '0' for f in flags) + f' {sx_color(fg)} {sx_color(bg)})'


def sx_ostr(s):
    return 'none' if s is None else f'(some {sx(s)})'


def rd_ostr(r):
    if r == 'none':
        return None
    return sx_str(r[1])


def rd_color(r):
    if r == 'none':
        return None
    if r[0] == 'idx':
        return int(r[1])
    return (int(r[1]), int(r[2]), int(r[3]))


def rd_style(r):
    return (tuple(x == '1' for x in r[:8]), rd_color(r[8]), rd_color(r[9]))


def impl_color(c):
    from tatsu.ztyle import RGB
    if c is None:
        return -1
    if isinstance(c, tuple):
        return RGB(*c)
    return c


def mk_style(st, value='', fmt=None, color=None):
    from tatsu.ztyle import Style, Color
    flags, fg, bg = st
    kw = dict(zip(FLAGS, flags))
    return Style(value, fmt=fmt, fg=impl_color(fg), bg=impl_color(bg),
                 color=color if color is not None else Color.always(), **kw)


def attrs_of(s):
    """observable attributes of a real Style as a descriptor"""
    from tatsu.ztyle import RGB

    def col(c):
        if isinstance(c, RGB):
            return (c.r, c.g, c.b)
        return None if c == -1 else int(c)

    return (tuple(bool(getattr(s, '_' + f)) for f in FLAGS), col(s._fg), col(s._bg))


def style_class(st):
    """shape class of a style for signatures"""
    flags, fg, bg = st

    def k(c):
        if c is None:
            return 'none'
        if isinstance(c, tuple):
            return 'rgb'
        return 'std' if c < 8 else 'bright' if c < 16 else 'ext'

    return f'mods{sum(flags)}-fg:{k(fg)}-bg:{k(bg)}'


def text_class(t):
    feats = []
    if not t:
        feats.append('empty')
    if ESC in t:
        feats.append('esc')
    if '\\' in t:
        feats.append('backslash')
    if any(c in t for c in '{}'):
        feats.append('brace')
    if ':' in t:
        feats.append('colon')
    if any(c in t for c in '\'"'):
        feats.append('quote')
    if any(unicodedata.category(c) == 'Cc' for c in t):
        feats.append('control')
    if any(ord(c) > 126 and not c.isprintable() for c in t):
        feats.append('nonprintable')
    if any(ord(c) > 126 for c in t):
        feats.append('nonascii')
    return '+'.join(feats) or 'plain'


# ------------------------------------------------------------------ generators
COLOURS_EDGE = [None, 0, 1, 7, 8, 9, 15, 16, 17, 100, 231, 232, 255, (0, 0, 0), (255, 255, 255), (1, 20, 255), (12, 5, 2)]
TEXT_ATOMS = ['a', 'b', ' ', 'm', '[', ']', '0', '1', ';', '{', '}', ':', 'f{', 'f{a:>3}', '\\', '\\e', '\\e[1m', '\\x1b',
              "'", '"', '\n', '\t', '\r', '\x00', '\x7f', '\x9b', '\xa0', '\xad', 'é', 'é', '漢', 'Ａ', '​',
              ' ', '😀', '\U000e0001', '٣', '~', '@', '?', 'hello', 'error:', '[1m', '38;5;1']


def gen_colour(rng):
    r = rng.random()
    if r < 0.2:
        return None
    if r < 0.45:
        return rng.choice([0, 1, 6, 7, 8, 9, 14, 15, 16, 17, 255, 254, 128])
    if r < 0.7:
        return rng.randint(0, 255)
    return tuple(rng.choice([0, 1, 9, 10, 99, 100, 128, 254, 255, rng.randint(0, 255)]) for _ in range(3))


def gen_style(rng):
    k = rng.random()
    if k < 0.1:
        flags = (False,) * 8
    elif k < 0.3:
        i = rng.randrange(8)
        flags = tuple(j == i for j in range(8))
    else:
        flags = tuple(rng.random() < 0.4 for _ in range(8))
    return (flags, gen_colour(rng), gen_colour(rng))


def gen_text(rng, esc_free=True, nonempty=True, maxn=6):
    while True:
        n = rng.randint(1 if nonempty else 0, maxn)
        t = ''.join(rng.choice(TEXT_ATOMS) for _ in range(n))
        if not esc_free and rng.random() < 0.7:
            t = t[:len(t) // 2] + rng.choice([ESC, ESC + '[', ESC + '[1m', ESC + '[0m', ESC + 'c', ESC + '[?25l']) + t[len(t) // 2:]
        if esc_free and ESC in t:
            continue
        if nonempty and not t:
            continue
        return t


SPEC_FILLS = ['', '', '', '-', '*', '0', ' ', '.', 'x', '<', '>', '^', '=', '{', '}', ':', 'é', '漢', '́', '+', 'z', '#', 's', '1']
SPEC_ALIGN = ['', '<', '>', '^']


def gen_spec(rng, valid=True):
    if not valid and rng.random() < 0.6:
        # malformed stream: arbitrary characters of the mini-language
        return ''.join(rng.choice('<>^=+- z#0123456789,._sdx:{}a*') for _ in range(rng.randint(1, 6)))
    fill = rng.choice(SPEC_FILLS)
    align = rng.choice(SPEC_ALIGN)
    if fill and not align:
        align = rng.choice('<>^')
    zero = '0' if rng.random() < 0.15 else ''
    width = rng.choice(['', '', '0', '1', '2', '3', '5', '8', '10', '12', '007', '40'])
    prec = rng.choice(['', '', '', '.0', '.1', '.2', '.3', '.5', '.10', '.007'])
    typ = rng.choice(['', '', '', 's'])
    return fill + align + zero + width + prec + typ


def py_format(text, spec):
    try:
        return format(text, spec)
    except ValueError:
        return None


# ------------------------------------------------------------------ Y1a descape vs tty.descape
def run_descape(chk: Check, mr: ModelRun):
    from tatsu.util import tty
    alpha = ESC + '[0;ma ?@'
    n = 5 if chk.quick else 6
    cases = list(vlib.all_strings(alpha, n))
    chk.count('descape.exhaustive', len(cases))
    # boundary characters of every class of ANSI_RE (and their neighbours)
    bnd = [chr(c) for c in (27, 26, 28, 31, 32, 33, 47, 48, 57, 58, 59, 63, 64, 65, 90, 91, 92, 93, 95, 96, 97, 109, 125,
                            126, 127, 128, 155, 0x3bb)]
    rng = chk.rng
    for _ in range(6000 if chk.quick else 150000):
        k = rng.randint(1, 9)
        s = []
        for _ in range(k):
            r = rng.random()
            if r < 0.35:
                s.append(ESC)
            elif r < 0.5:
                s.append('[')
            else:
                s.append(rng.choice(bnd))
        cases.append(''.join(s))
    # every single byte after ESC and after ESC [ and as CSI final after parameters and intermediates
    for c in range(0, 260):
        cases += [ESC + chr(c) + 'x', ESC + '[' + chr(c) + 'x', ESC + '[1;2' + chr(c) + 'x', ESC + '[1 ' + chr(c) + 'x',
                  ESC + '[?25' + chr(c), 'a' + ESC + chr(c)]
    chk.count('descape.random+boundary', len(cases))
    model = [sx_str(r) for r in mr.ask([f'(descape {sx(s)})' for s in cases])]
    bad = 0
    for s, m in zip(cases, model):
        i = tty.descape(s)
        chk.case('descape:' + s, nontrivial=ESC in s)
        if i != m:
            bad += 1
            small = s
            chk.violation('corr:descape', f'tty.descape differs from the scanner model on {small!r}',
                          {'correspondence': 'Y1 descape', 'input': small, 'impl': i, 'model': m})
    chk.obligation('Y1:tty.descape vs Style.v descape (exhaustive small alphabet + class boundaries)', 'correspondence', bad == 0)
    chk.sample({'descape': repr(cases[-7]), 'model': repr(model[-7])})


# ------------------------------------------------------------------ Y1b apply_style vs Style.apply_style and oracle
def all_small_styles():
    out = []
    for fg in COLOURS_EDGE:
        for bg in COLOURS_EDGE:
            out.append(((False,) * 8, fg, bg))
    for bits in itertools.product([False, True], repeat=8):
        out.append((bits, None, None))
        out.append((bits, 9, (1, 2, 3)))
    return out


def run_apply_style(chk: Check, mr: ModelRun):
    from tatsu.ztyle import Color
    from tatsu.util import tty
    rng = chk.rng
    cases = []
    texts0 = ['a', 'ab c', 'm[0m', 'é漢', '']
    for st in all_small_styles():
        for t in (texts0 if not chk.quick else texts0[:2] + ['']):
            for en, force in ((True, False), (False, False), (False, True)):
                cases.append((st, t, en, force))
    for _ in range(3000 if chk.quick else 60000):
        st = gen_style(rng)
        t = gen_text(rng, esc_free=rng.random() < 0.85, nonempty=rng.random() < 0.95)
        en = rng.random() < 0.7
        force = rng.random() < 0.2
        cases.append((st, t, en, force))
    reqs = [f'(apply_style {sx(en)} {sx(force)} {sx_style(st)} {sx(t)})' for st, t, en, force in cases]
    model = [sx_str(r) for r in mr.ask(reqs)]
    bad = 0
    for (st, t, en, force), m in zip(cases, model):
        s = mk_style(st, color=Color(enable=en))
        i = s.apply_style(t, force=force)
        chk.case(f'apply_style:{st}:{t}:{en}:{force}', nontrivial=bool(t) and (en or force) and st != ((False,) * 8, None, None))
        chk.count('apply_style.' + ('on' if en or force else 'off'))
        if i != m:
            bad += 1
            chk.violation(f'corr:apply_style:{style_class(st)}', f'Style.apply_style differs from the model for {st} on {t!r}',
                          {'correspondence': 'Y1 apply_style', 'style': st, 'text': t, 'enabled': en, 'force': force,
                           'impl': i, 'model': m})
        # oracle (property, first clause without format): escape-free text comes back
        if ESC not in t:
            if tty.descape(i) != t:
                chk.violation(f'oracle:descape-apply_style:{style_class(st)}',
                              f'descape(apply_style(text)) != text for style {st}, text {t!r}',
                              {'oracle': 'descape(apply_style(t)) == t', 'style': st, 'text': t, 'enabled': en,
                               'force': force, 'styled': i, 'descaped': tty.descape(i)})
            if not (en or force) and i != t:
                chk.violation('oracle:disabled-apply_style', f'colour disabled but apply_style changed {t!r}',
                              {'oracle': 'disabled -> text', 'style': st, 'text': t, 'styled': i})
    chk.obligation('Y1:Style.apply_style vs Style.v apply_style (all colour kinds x modifier subsets)', 'correspondence', bad == 0)
    chk.sample({'apply_style': repr(cases[40]), 'model': repr(model[40])})


# ------------------------------------------------------------------ SGR parameters
def run_sgr(chk: Check, mr: ModelRun):
    from tatsu.ztyle import Style, Color
    rng = chk.rng
    styles = all_small_styles() + [gen_style(rng) for _ in range(1500 if chk.quick else 30000)]
    cp = mr.ask([f'(code_params {sx_style(st)})' for st in styles])
    params = [[int(x) for x in r] if r != 'nil' else [] for r in cp]
    back = mr.ask([f'(parse_params {sx(p)})' for p in params])
    bad = 0
    for st, p, b in zip(styles, params, back):
        chk.case(f'sgr:{st}', nontrivial=bool(p))
        chk.count('sgr.styles')
        s = mk_style(st, 'x')
        raw = repr(s)
        # implementation round trip of the attributes
        try:
            r = Style.from_raw(raw)
            got = attrs_of(r)
        except Exception as e:  # noqa: BLE001
            got = f'raises {type(e).__name__}'
        if got != st:
            chk.violation(f'oracle:sgr-roundtrip:{style_class(st)}', f'from_raw(repr(style)) has attributes {got}, not {st}',
                          {'oracle': 'attributes survive repr/from_raw', 'style': st, 'repr': raw, 'got': got})
        # implementation codes = model codes
        want = '\\e[' + ';'.join(map(str, p)) + 'mx\\e[0m' if p else 'x'
        if raw != want:
            bad += 1
            chk.violation(f'corr:code_params:{style_class(st)}', f'SGR parameters of {st} differ from the model',
                          {'correspondence': 'Y1 code_params', 'style': st, 'impl': raw, 'model': want})
        if rd_style(b) != st:
            bad += 1
            chk.violation('corr:model-roundtrip', f'model parse_params(code_params st) != st for {st}',
                          {'correspondence': 'model self-check', 'style': st, 'model': str(b)}, no_input=False)
    # arbitrary parameter lists (also malformed: truncated extended colours, out-of-range values) through from_raw
    plists = []
    pool = [0, 1, 2, 3, 4, 5, 6, 7, 8, 9, 10, 29, 30, 31, 37, 38, 39, 40, 47, 48, 49, 89, 90, 97, 98, 99, 100, 107, 108,
            255, 256, 300, 16, 15, 128]
    for n in range(0, 3):
        for combo in itertools.product([0, 1, 2, 5, 7, 30, 37, 38, 48, 90, 97, 100, 107, 108, 256], repeat=n):
            plists.append(list(combo))
    for _ in range(3000 if chk.quick else 60000):
        k = rng.randint(1, 8)
        pl = []
        while len(pl) < k:
            r = rng.random()
            if r < 0.25:
                pl += [rng.choice([38, 48]), rng.choice([5, 2, 5, 2, 1, 38])]
            else:
                pl.append(rng.choice(pool))
        plists.append(pl[:k + 2])
    mback = mr.ask([f'(from_raw {sx(ESC + "[" + ";".join(map(str, pl)) + "mx" + ESC + "[0m")})' for pl in plists])
    for pl, b in zip(plists, mback):
        raw = ESC + '[' + ';'.join(map(str, pl)) + 'mx' + ESC + '[0m'
        chk.case(f'params:{pl}', nontrivial=bool(pl))
        chk.count('sgr.param_lists')
        try:
            r = Style.from_raw(raw)
            got = (attrs_of(r), r.value, r._fmt)
        except ValueError:
            got = None
        m = None if b == 'none' else (rd_style(b[1][0]), sx_str(b[1][1]), rd_ostr(b[1][2]))
        if got != m:
            bad += 1
            chk.violation('corr:from_raw-params', f'Style.from_raw differs from the model on parameters {pl}',
                          {'correspondence': 'Y1 from_raw parameter loop', 'params': pl, 'impl': str(got), 'model': str(m)})
    chk.obligation('Y1:SGR parameters: code list and from_raw parameter loop vs model', 'correspondence', bad == 0)


# ------------------------------------------------------------------ format_str vs format()
def run_format(chk: Check, mr: ModelRun):
    rng = chk.rng
    cases = []
    texts = ['a', 'abc', 'hello world', 'é漢é', '{a:b}', '']
    specs = set()
    for fill in ['', '-', '0', '<', 'é']:
        for al in ['', '<', '>', '^', '=']:
            if fill and not al:
                continue
            for z in ['', '0']:
                for w in ['', '0', '2', '5', '12']:
                    for p in ['', '.0', '.2', '.5', '.']:
                        for ty in ['', 's', 'd', 'ss']:
                            specs.add(fill + al + z + w + p + ty)
    specs = sorted(specs)
    if chk.quick:
        specs = [s for i, s in enumerate(specs) if i % 3 == 0]
    for sp in specs:
        for t in texts[:3] if chk.quick else texts:
            cases.append((sp, t))
    for _ in range(4000 if chk.quick else 80000):
        cases.append((gen_spec(rng, valid=rng.random() < 0.75), gen_text(rng, esc_free=rng.random() < 0.9, nonempty=rng.random() < 0.9)))
    # ASCII digits only in the model (assumption): drop specs with other decimal digits
    cases = [(sp, t) for sp, t in cases if not any(c.isdigit() and not ('0' <= c <= '9') for c in sp)]
    model = [rd_ostr(r) for r in mr.ask([f'(format_str {sx(sp)} {sx(t)})' for sp, t in cases])]
    bad = 0
    for (sp, t), m in zip(cases, model):
        i = py_format(t, sp)
        chk.case(f'format:{sp}:{t}', nontrivial=bool(sp))
        chk.count('format.' + ('valid' if i is not None else 'invalid'))
        if i != m:
            bad += 1
            chk.violation('corr:format_str', f'format({t!r}, {sp!r}) differs from format_str',
                          {'correspondence': 'Y1 format_str vs Python format', 'spec': sp, 'text': t, 'impl': i, 'model': m})
    chk.obligation('Y1:Python format(str, spec) vs Style.v format_str', 'correspondence', bad == 0)
    chk.sample({'format': repr(cases[11]), 'model': repr(model[11])})


# ------------------------------------------------------------------ colour policy
class FakeStream(io.StringIO):
    def __init__(self, tty):
        super().__init__()
        self._tty = tty

    def isatty(self):
        return self._tty


class EnvCfg:
    """NO_COLOR / FORCE_COLOR / tty-ness of stdout and stderr, for the duration of a with block"""

    def __init__(self, no_color, force_color, out_tty, err_tty):
        self.cfg = (no_color, force_color, out_tty, err_tty)

    def __enter__(self):
        self.saved = (os.environ.get('NO_COLOR'), os.environ.get('FORCE_COLOR'), sys.stdout, sys.stderr)
        nc, fc, ot, et = self.cfg
        for k, v in (('NO_COLOR', nc), ('FORCE_COLOR', fc)):
            os.environ.pop(k, None)
            if v is not None:
                os.environ[k] = v
        sys.stdout = FakeStream(ot)
        sys.stderr = FakeStream(et)
        return self

    def __exit__(self, *a):
        nc, fc, so, se = self.saved
        sys.stdout, sys.stderr = so, se
        for k, v in (('NO_COLOR', nc), ('FORCE_COLOR', fc)):
            os.environ.pop(k, None)
            if v is not None:
                os.environ[k] = v


def mk_color(force, check_stderr):
    from tatsu.ztyle import Color
    if check_stderr:
        c = Color.stderr()
        if force is not None:
            c.enable(force)
        return c
    return Color(enable=force)


def all_policies():
    for force in (None, True, False):
        for nc in (None, '', '1'):
            for fc in (None, '', '1'):
                for cs in (False, True):
                    for ot in (False, True):
                        for et in (False, True):
                            yield (force, nc, fc, cs, ot, et)


def sx_policy(pol):
    force, nc, fc, cs, ot, et = pol
    return (f'(enabled {"none" if force is None else "(some " + sx(force) + ")"} {sx(nc is not None)} {sx(fc is not None)} '
            f'{sx(cs)} {sx(ot)} {sx(et)})')


def run_enabled(chk: Check, mr: ModelRun):
    pols = list(all_policies())
    model = [r == '1' for r in mr.ask([sx_policy(p) for p in pols])]
    bad = 0
    for pol, m in zip(pols, model):
        force, nc, fc, cs, ot, et = pol
        with EnvCfg(nc, fc, ot, et):
            c = mk_color(force, cs)
            i = c.enabled
            styled = str(mk_style(((True,) + (False,) * 7, 1, None), 'x', color=c))
        chk.case(f'policy:{pol}')
        chk.count('policy.cases')
        if i != m:
            bad += 1
            chk.violation('corr:enabled', f'Color.enabled differs from the decision table for {pol}',
                          {'correspondence': 'Y1 Color.enabled', 'policy': str(pol), 'impl': i, 'model': m})
        if (ESC in styled) != i:
            chk.violation('oracle:enabled-gates-escapes', f'policy {pol}: enabled={i} but output {styled!r}',
                          {'oracle': 'escape sequences iff enabled', 'policy': str(pol), 'enabled': i, 'styled': styled})
    chk.obligation('Y1:Color.enabled vs decision table (all 432 policy/environment combinations)', 'correspondence', bad == 0)
    chk.exhaustive_policy = True
    return dict(zip(pols, model))


# ------------------------------------------------------------------ apply / str / len / format: model tie + property oracle
def run_apply(chk: Check, mr: ModelRun, restyles: bool):
    from tatsu.util import tty
    rng = chk.rng
    cases = []
    edge_specs = [None, '', '>6', '<6', '^7', '*^8', '.2', '>6.2', '08', '->3', '1', '.0', '=5', '5x', '{<4', ':>4', 'é^5']
    edge_texts = ['a', 'abc', 'f{a:>3}', 'a:b{c}', 'é漢', 'áb', 'Ａ', 'hello world']
    edge_styles = [((False,) * 8, None, None), ((True,) + (False,) * 7, None, None), ((False,) * 8, 9, None),
                   ((True, True) + (False,) * 6, 200, (1, 2, 3))]
    for st in edge_styles:
        for t in edge_texts if not chk.quick else edge_texts[:4]:
            for sf in edge_specs if not chk.quick else edge_specs[:9]:
                for sp in (None, '', '>5', '.1', '^9.3'):
                    for en in (True, False):
                        cases.append((st, t, sf, sp, en))
    for _ in range(2500 if chk.quick else 50000):
        st = gen_style(rng)
        t = gen_text(rng, esc_free=rng.random() < 0.9, nonempty=rng.random() < 0.95)
        sf = None if rng.random() < 0.4 else gen_spec(rng, valid=rng.random() < 0.85)
        sp = None if rng.random() < 0.4 else gen_spec(rng, valid=rng.random() < 0.85)
        cases.append((st, t, sf, sp, rng.random() < 0.65))

    def asciidigits(x):
        return x is None or not any(c.isdigit() and not ('0' <= c <= '9') for c in x)

    cases = [c for c in cases if asciidigits(c[2]) and asciidigits(c[3])]
    reqs = []
    for st, t, sf, sp, en in cases:
        reqs.append(f'(apply {sx(en)} {sx_style(st)} {sx_ostr(sf)} {sx(t)} {sx_ostr(sp)})')
        reqs.append(f'(style_len {sx(en)} {sx_style(st)} {sx_ostr(sf)} {sx(t)})')
        reqs.append(f'(dunder_format {sx(restyles)} {sx(en)} {sx_style(st)} {sx_ostr(sf)} {sx(t)} {sx(sp or "")})')
    rep = mr.ask(reqs)
    bad = 0
    from tatsu.ztyle import Color

    def attempt(f):
        try:
            return f()
        except ValueError:
            return None

    def fmt_oracle(st, t, sf, sp, en):
        """why format(style, spec) violates the property on this case, or None"""
        s = mk_style(st, t, fmt=sf, color=Color(enable=en))
        eff = sp if sp else sf
        want = py_format(t, eff) if eff else t
        got = attempt(lambda: format(s, sp or ''))
        if want is None or got is None:
            return None if want == got or got is None else 'no-error'
        if tty.descape(got) != want:
            return 'differs'
        if not en and got != want:
            return 'disabled-differs'
        return None

    for k, (st, t, sf, sp, en) in enumerate(cases):
        m_apply, m_len, m_fmt = rep[3 * k], rep[3 * k + 1], rep[3 * k + 2]
        m_apply = rd_ostr(m_apply)
        m_len = None if m_len == 'none' else int(m_len[1])
        m_fmt = rd_ostr(m_fmt)
        s = mk_style(st, t, fmt=sf, color=Color(enable=en))
        i_apply = attempt(lambda: s.apply(t, sp))
        i_len = attempt(lambda: len(s))
        i_fmt = attempt(lambda: format(s, sp or ''))
        chk.case(f'apply:{st}:{t}:{sf}:{sp}:{en}', nontrivial=bool(t) and bool(sf or sp))
        chk.count('apply.' + ('formatted' if (sf or sp) else 'plain') + ('.on' if en else '.off'))
        for what, i, m in (('apply', i_apply, m_apply), ('len', i_len, m_len), ('format', i_fmt, m_fmt)):
            if i != m:
                bad += 1
                chk.violation(f'corr:style-{what}', f'Style {what} differs from the model: style {st} text {t!r} fmt {sf!r} spec {sp!r}',
                              {'correspondence': f'Y1 {what}', 'style': st, 'text': t, 'fmt': sf, 'spec': sp, 'enabled': en,
                               'impl': i, 'model': m})
        # ---- property oracle (non-empty escape-free text, escape-free spec)
        if not t or ESC in t or ESC in (sf or '') or ESC in (sp or ''):
            continue
        eff = sp if sp else sf
        want = py_format(t, eff) if eff else t
        if want is None:
            if i_apply is not None:
                chk.violation('oracle:apply-swallows-format-error', f'apply() did not raise for spec {eff!r}',
                              {'oracle': 'format error propagates', 'style': st, 'text': t, 'spec': eff, 'got': i_apply})
            continue
        if i_apply is None or tty.descape(i_apply) != want or (not en and i_apply != want):
            chk.violation(f'oracle:apply-transparent:{style_class(st)}:{"on" if en else "off"}',
                          f'descape(apply({t!r}, {sp!r})) = {None if i_apply is None else tty.descape(i_apply)!r}, format gives {want!r}',
                          {'oracle': 'descape(apply(text, spec)) == format(text, spec)', 'style': st, 'text': t, 'fmt': sf,
                           'spec': sp, 'enabled': en, 'got': i_apply, 'want': want})
        if not en and i_apply is not None and ESC in i_apply:
            chk.violation('oracle:disabled-has-escape', 'colour disabled but the output has an escape sequence',
                          {'oracle': 'disabled -> no ESC', 'style': st, 'text': t, 'got': i_apply})
        want_len = py_format(t, sf) if sf else t
        if want_len is not None and i_len != len(want_len):
            chk.violation(f'oracle:visible-length:{style_class(st)}', f'len(style) = {i_len}, formatted text has {len(want_len)}',
                          {'oracle': 'len(style) == len(format(value, fmt))', 'style': st, 'text': t, 'fmt': sf, 'enabled': en,
                           'got': i_len, 'want': len(want_len)})
        why = fmt_oracle(st, t, sf, sp, en)
        if why:
            # shrink: drop the stored fmt / the spec / attributes while it still fails, then classify
            cur = (st, t, sf, sp, en)
            for cand in ((st, t, None, sp, en), (st, t, sf, None, en), (((False,) * 8, None, None), t, sf, sp, en),
                         (st, t, sf, sp, False)):
                if fmt_oracle(*cand):
                    cur = cand
                    if cand[2] is None or cand[3] is None:
                        break
            st2, t2, sf2, sp2, en2 = cur
            styled_in = en2 and st2 != ((False,) * 8, None, None)
            cause = 'styled-string-formatted' if styled_in else 'stored-fmt-applied-twice' if sf2 else 'other'
            chk.violation(f'oracle:__format__:{cause}',
                          f'format(style, {sp2!r}) de-escapes to {tty.descape(format(mk_style(st2, t2, fmt=sf2, color=Color(enable=en2)), sp2 or ""))!r}, '
                          f'the formatted text is {(py_format(t2, sp2 or sf2) if (sp2 or sf2) else t2)!r}',
                          {'oracle': 'descape(format(style, spec)) == format(value, spec)', 'style': st2, 'text': t2, 'fmt': sf2,
                           'spec': sp2, 'enabled': en2, 'why': fmt_oracle(*cur)})
    chk.obligation('Y1:Style.apply / len / __format__ vs model', 'correspondence', bad == 0)
    chk.sample({'apply': repr(cases[5]), 'model': repr(rd_ostr(rep[15]))})


# ------------------------------------------------------------------ repr / from_raw
def nonprintables(t):
    return sorted({ord(c) for c in t if ord(c) > 126 and not c.isprintable()})


def run_repr(chk: Check, mr: ModelRun):
    from tatsu.ztyle import Style, Color
    rng = chk.rng
    cases = []
    for st in [((False,) * 8, None, None), ((True,) + (False,) * 7, 9, (1, 2, 3)), ((False,) * 7 + (True,), 255, 7)]:
        for t in TEXT_ATOMS + ['a b', 'hello', "it's", '"q"', 'a\\eb', '\\e[1mx', 'x\\e[0m', 'f{a:b}c', 'a}b:c{', '']:
            for sf in (None, '>5', '', 'a}b', ':^3'):
                cases.append((st, t, sf))
    for _ in range(2500 if chk.quick else 50000):
        cases.append((gen_style(rng), gen_text(rng, esc_free=rng.random() < 0.9, nonempty=rng.random() < 0.95),
                      None if rng.random() < 0.5 else gen_spec(rng, valid=rng.random() < 0.8)))
    reqs = [f'(style_repr {sx(nonprintables(t + (sf or "")))} {sx_style(st)} {sx_ostr(sf)} {sx(t)})' for st, t, sf in cases]
    model = [sx_str(r) for r in mr.ask(reqs)]
    raws = []
    bad = 0
    for (st, t, sf), m in zip(cases, model):
        s = mk_style(st, t, fmt=sf, color=Color.never())
        i = repr(s)
        chk.case(f'repr:{st}:{t}:{sf}', nontrivial=bool(t))
        chk.count('repr.cases')
        if i != m:
            bad += 1
            chk.violation('corr:style-repr', f'repr(Style) differs from the model for text {t!r} fmt {sf!r}',
                          {'correspondence': 'Y1 __repr__', 'style': st, 'text': t, 'fmt': sf, 'impl': i, 'model': m})
        raws.append(i)
    chk.obligation('Y1:Style.__repr__ vs style_repr (printable table from str.isprintable)', 'correspondence', bad == 0)

    # from_raw on the reprs and on arbitrary raw strings
    extra = []
    atoms = ['\\e[', ESC + '[', '1', '38;5;9', ';', 'm', 'x', 'f{', ':', '}', '\\e[0m', ESC + '[0m', '\n', ESC + 'c', 'a', '>3', '\\e',
             ESC, '[', '0', ' ', '?', '@']
    for _ in range(2500 if chk.quick else 50000):
        extra.append(''.join(rng.choice(atoms) for _ in range(rng.randint(0, 9))))
    allraw = raws + extra
    mback = mr.ask([f'(from_raw {sx(r)})' for r in allraw])
    bad = 0

    def impl_from_raw(r):
        try:
            x = Style.from_raw(r)
            return (attrs_of(x), x.value, x._fmt)
        except ValueError:
            return None

    import re as _re
    for k, (r, b) in enumerate(zip(allraw, mback)):
        m = None if b == 'none' else (rd_style(b[1][0]), sx_str(b[1][1]), rd_ostr(b[1][2]))
        un = r.replace('\\e', ESC)
        mm = _re.search(r'\x1B\[([\d;]*)m', un)
        if mm and not mm.group(1).isascii():
            chk.count('from_raw.skipped-nonascii-digits')
            continue
        i = impl_from_raw(r)
        chk.case('from_raw:' + r, nontrivial=bool(r))
        chk.count('from_raw.cases')
        if i != m:
            bad += 1
            chk.violation('corr:from_raw', f'Style.from_raw differs from the model on {r!r}',
                          {'correspondence': 'Y1 from_raw', 'raw': r, 'impl': str(i), 'model': str(m)})
        if k < len(cases):
            st, t, sf = cases[k]
            if ESC in t or ESC in (sf or ''):
                continue
            # property: same attributes; same text when the text is unproblematic
            unstyled = st == ((False,) * 8, None, None)

            def attrs_fail(t2, sf2):
                x = impl_from_raw(repr(mk_style(st, t2, fmt=sf2, color=Color.never())))
                return x is None or x[0] != st

            def restricted(t2):
                tc2 = text_class(t2)
                return not any(f in tc2 for f in ('brace', 'colon', 'backslash', 'quote', 'control', 'esc'))

            def text_fail(t2, sf2):
                x = impl_from_raw(repr(mk_style(st, t2, fmt=sf2, color=Color.never())))
                return restricted(t2) and x is not None and x[1] != t2

            if attrs_fail(t, sf):
                sf2 = None if attrs_fail(t, None) else sf
                t2 = vlib.shrink_string(t, lambda u: attrs_fail(u, sf2))
                chk.violation(f'oracle:repr-attributes:{"unstyled" if unstyled else "styled"}:{text_class(t2)}',
                              f'from_raw(repr(style)) does not have the attributes of the style {st} (text {t2!r}, fmt {sf2!r})',
                              {'oracle': 'repr/from_raw keeps the attributes', 'style': st, 'text': t2, 'fmt': sf2,
                               'repr': repr(mk_style(st, t2, fmt=sf2, color=Color.never())),
                               'got': str(impl_from_raw(repr(mk_style(st, t2, fmt=sf2, color=Color.never()))))})
            if text_fail(t, sf):
                sf2 = None if text_fail(t, None) else sf
                t2 = vlib.shrink_string(t, lambda u: text_fail(u, sf2))
                cat = '+'.join(sorted({unicodedata.category(c) for c in t2}))
                chk.violation(f'oracle:repr-text:{text_class(t2)}:{"fmt" if sf2 else "nofmt"}',
                              f'from_raw(repr(style)).value differs from the text {t2!r} (categories {cat}, fmt {sf2!r})',
                              {'oracle': 'repr/from_raw keeps the text', 'style': st, 'text': t2, 'fmt': sf2,
                               'repr': repr(mk_style(st, t2, fmt=sf2, color=Color.never())),
                               'got': str(impl_from_raw(repr(mk_style(st, t2, fmt=sf2, color=Color.never()))))})
    chk.obligation('Y1:Style.from_raw vs model (reprs and arbitrary raw strings)', 'correspondence', bad == 0)


# ------------------------------------------------------------------ markup front end and derived styles: policy propagation
# Every way of producing styled output from a Color policy (markup(), Color.markup, Style.markup, Color.style, the copying
# builder methods, Style.__call__, XStyle names) is run with the process default policy (environment, tty-ness) set
# independently of the explicit policy, and compared with the proved renderer (apply_style / apply of Style.v) under the
# decision table's verdict for the explicit policy.
PLAIN = ((False,) * 8, None, None)
BASIC_COLOURS = ['black', 'red', 'green', 'yellow', 'blue', 'purple', 'cyan', 'white']


def basic_name_table():
    """names of Style's zero-argument methods -> effect; written from the SGR / ANSI tables, not from the code"""
    t = {}
    for i, f in enumerate(FLAGS):
        t[f] = ('flag', i)
    t['bright'] = ('flag', 0)
    for i, n in enumerate(BASIC_COLOURS):
        t[n] = ('fg', i)
        t[n + '_bg'] = ('bg', i)
        t['bright_' + n] = ('fg', 8 + i)
        t['bright_' + n + '_bg'] = ('bg', 8 + i)
    t['magenta'] = ('fg', 5)
    t['bright_magenta'] = ('fg', 13)
    return t


def eff_apply(st, eff):
    flags, fg, bg = st
    kind, v = eff
    if kind == 'flag':
        flags = tuple(f or i == v for i, f in enumerate(flags))
    elif kind == 'fg':
        fg = v
    else:
        bg = v
    return (flags, fg, bg)


def impl_name_table(cls):
    """effect of every zero-argument style method of `cls`, read off the implementation with two probes (a name table:
    trusted for the XStyle colour names, compared with basic_name_table for Style's own names).
    -> (table, names that do not set exactly one attribute, names whose lookup or call raises)"""
    from tatsu.ztyle import Color
    other = ((False,) * 8, 201, 202)
    table, odd, raising = {}, [], []
    for n in sorted(dir(cls)):
        try:
            if not cls.is_style_method(n):
                continue
            a = attrs_of(getattr(cls('x', color=Color.always()), n)())
            b = attrs_of(getattr(cls('x', fg=201, bg=202, color=Color.always()), n)())
        except Exception:  # noqa: BLE001
            raising.append(n)
            continue
        effs = [('flag', i) for i in range(8) if a[0][i]]
        if a[1] is not None:
            effs.append(('fg', a[1]))
        if a[2] is not None:
            effs.append(('bg', a[2]))
        if len(effs) != 1 or eff_apply(other, effs[0]) != b or isinstance(effs[0][1], tuple):
            odd.append(n)
            continue
        table[n] = effs[0]
    return table, odd, raising


def ref_tokens(text):
    """hand-written scanner for the markup token grammar: '[[' is a literal '[', '[/name]' closes, '[names]' opens,
    anything else up to the next '[' is text; a '[' that starts none of these is skipped (what re.finditer does)"""
    toks = []
    i, n = 0, len(text)
    while i < n:
        if text[i] != '[':
            j = i
            while j < n and text[j] != '[':
                j += 1
            toks.append(('TXT', text[i:j]))
            i = j
            continue
        if text.startswith('[[', i):
            toks.append(('TXT', '['))
            i += 2
            continue
        if text.startswith('[/', i):
            k = text.find(']', i + 2)
            if k >= 0:
                toks.append(('RET', text[i + 2:k]))
                i = k + 1
                continue
        k = text.find(']', i + 1)
        if k > i + 1:
            toks.append(('CAL', text[i + 1:k]))
            i = k + 1
            continue
        i += 1
    return toks


def ref_markup(texts):
    """-> [(names on the stack, text segment)] : the segments markup() must render, in order"""
    stack, segs, part = [], [], ''
    for text in texts:
        for kind, val in ref_tokens(text):
            if kind != 'TXT' and part:
                segs.append((tuple(stack), part))
                part = ''
            if kind == 'CAL':
                stack = stack + val.split(' ')
            elif kind == 'RET':
                if val == '':
                    stack = stack[:-1]
                elif val in ('all', '*'):
                    stack = []
                elif stack and stack[-1] == val:
                    stack = stack[:-1]
            else:
                part += val
    if part:
        segs.append((tuple(stack), part))
    return segs


def stack_attrs(stack, table):
    st = PLAIN
    for n in stack:
        if n in table:
            st = eff_apply(st, table[n])
    return st


UNKNOWN_TAGS = ['nosuch', 'BOLD', 'Red', 'value', 'color', 'enabled', 'mro', 'fg', 'fmt', 'markup', 'apply', 'magenta_bg',
                '1', '#ff0000', 'bold,red', 'é']
MARKUP_EXH = ['a', ' b', '[bold]', '[red]', '[bold red]', '[/]', '[/bold]', '[/all]', '[[', '[', ']']


def gen_tag_names(rng, basic, xnames):
    out = []
    for _ in range(rng.choice([1, 1, 1, 2, 2, 3])):
        r = rng.random()
        out.append(rng.choice(basic) if r < 0.6 else rng.choice(xnames) if r < 0.85 else rng.choice(UNKNOWN_TAGS) if r < 0.97 else '')
    return out


def gen_markup(rng, basic, xnames):
    """-> list of pieces (their concatenation is the markup source); mostly well-formed, 25% with stray brackets"""
    wellformed = rng.random() < 0.75
    pieces, opened = [], []
    n = rng.randint(1, 7)
    for k in range(n):
        r = rng.random()
        if k == n - 1 and rng.random() < 0.35:
            r = 0.0  # texts that end in a text segment (possibly inside unclosed tags) are a class of their own
        if r < 0.4:
            t = gen_text(rng, esc_free=rng.random() < 0.97, maxn=3)
            pieces.append(t.replace('[', '[[') if wellformed else t)
        elif r < 0.68:
            names = gen_tag_names(rng, basic, xnames)
            opened += names
            pieces.append('[' + ' '.join(names) + ']')
        elif r < 0.88:
            c = rng.random()
            if c < 0.4:
                pieces.append('[/]')
                opened = opened[:-1]
            elif c < 0.55:
                pieces.append(rng.choice(['[/all]', '[/*]']))
                opened = []
            elif c < 0.85 and opened:
                pieces.append(f'[/{opened.pop()}]')
            else:
                pieces.append('[/' + rng.choice(basic + UNKNOWN_TAGS) + ']')
        elif r < 0.94 or wellformed:
            pieces.append('[[')
        else:
            pieces.append(rng.choice(['[', '[]', '[/', '[bold', ']', '[/]]', '[ ]', '[[[', '[/bold', '[\n]']))
    return pieces


def flipped_env(en):
    """an environment whose default policy is the opposite of `en`"""
    return EnvCfg(None, '1', False, False) if not en else EnvCfg('1', None, True, True)


def render_markup(via, c, texts):
    from tatsu.ztyle import Style
    from tatsu.ztyle.markup import markup
    if via == 'markup()':
        return markup(*texts)
    if via == 'markup(color=)':
        return markup(*texts, color=c)
    if via == 'Color.markup':
        return c.markup(texts[0])
    if via == 'Style.markup':
        return Style(color=c).markup(texts[0])
    if via == 'derived.markup':
        return c.style('x', bold=True).red().fmt('>3')('y').markup(texts[0])
    raise AssertionError(via)


def run_markup(chk: Check, mr: ModelRun, enabled_of: dict):
    from tatsu.ztyle import Style
    from tatsu.ztyle.xstyle import XStyle
    from tatsu.util import tty
    rng = chk.rng
    # ---- name tables
    basic = basic_name_table()
    t_style_, odd_s, raising_s = impl_name_table(Style)
    xtable, odd_x, raising_x = impl_name_table(XStyle)
    chk.count('markup.xstyle-names', len(xtable))
    chk.count('markup.names-whose-lookup-or-call-raises', len(raising_x))
    diff = sorted(n for n in set(basic) | set(t_style_) if basic.get(n) != t_style_.get(n))
    chk.obligation("oracle:Style's named methods (modifiers, 16 ANSI colours, _bg) set the attribute of the SGR/ANSI table; "
                   'every XStyle name sets exactly one attribute', 'oracle', not diff and not odd_s and not odd_x,
                   f'differs: {diff[:8]} odd: {(odd_s + odd_x)[:8]}')
    for n in diff:
        chk.violation(f'oracle:named-method:{n}', f'Style.{n}() sets {t_style_.get(n)}, the ANSI table says {basic.get(n)}',
                      {'oracle': 'named style methods', 'name': n, 'impl': str(t_style_.get(n)), 'want': str(basic.get(n))})
    # the XStyle table is only trusted as far as it is consistent: name_bg <-> background, name and name_bg the same
    # index, and the index colormap.COLORS gives to the name (when it lists it)
    from tatsu.ztyle.colormap import COLORMAP
    incons = sorted(n for n, e in xtable.items() if n not in basic and (
        (e[0] == 'bg') != n.endswith('_bg') or e[0] == 'flag'
        or (n + '_bg' in xtable and xtable[n + '_bg'][1] != e[1])
        or COLORMAP.get(n.removesuffix('_bg'), e[1]) != e[1]))
    chk.obligation('oracle:XStyle names: _bg sets the background, name/name_bg agree, index = colormap.COLORS', 'oracle',
                   not incons, f'inconsistent: {incons[:8]}')
    for n in incons:
        chk.violation('oracle:xstyle-name-table', f'XStyle.{n}() sets {xtable[n]}: inconsistent with its name / colormap.COLORS',
                      {'oracle': 'XStyle name table consistency', 'name': n, 'impl': str(xtable[n]),
                       'colormap': COLORMAP.get(n.removesuffix('_bg'))})
    table = dict(xtable)
    table.update(basic)  # the reference uses its own table for Style's names
    bnames, xnames = sorted(basic), sorted(set(xtable) - set(basic))

    # ---- cases: (pieces, texts, policy, via)
    cases = []
    fixed = [(False, None, '1', False, False, False), (False, None, None, False, True, True), (True, '1', None, False, False, False),
             (None, None, '1', False, False, False), (None, '1', None, False, True, True), (None, None, None, True, False, True)]
    for n in range(1, 4 if chk.quick else 5):
        for combo in itertools.product(MARKUP_EXH, repeat=n):
            for pol in (fixed if n < 3 else fixed[:3]):
                cases.append((list(combo), [''.join(combo)], pol, 'markup(color=)'))
    chk.count('markup.exhaustive-small', len(cases))
    pols = list(all_policies())
    for _ in range(3000 if chk.quick else 60000):
        pieces = gen_markup(rng, bnames, xnames)
        src = ''.join(pieces)
        via = rng.choice(['markup(color=)', 'markup(color=)', 'Color.markup', 'Style.markup', 'derived.markup', 'markup()'])
        pol = rng.choice(pols)
        if rng.random() < 0.5:   # explicit policy against the opposite default (through the environment or the tty-ness)
            en0 = rng.random() < 0.35
            pol = (en0, None, '1', pol[3], True, True) if not en0 else (en0, '1', None, pol[3], False, False)
            if rng.random() < 0.5:
                pol = (en0, None, None, pol[3], not en0, not en0)
        if via == 'markup()':
            pol = (None, pol[1], pol[2], False, pol[4], pol[5])
        texts = [src]
        if via in ('markup()', 'markup(color=)') and rng.random() < 0.25 and len(src) > 1:
            k = rng.randrange(1, len(src)) if rng.random() < 0.3 else len(''.join(pieces[:rng.randrange(0, len(pieces) + 1)]))
            texts = [src[:k], src[k:]]
        cases.append((pieces, texts, pol, via))

    refs, reqs = [], []
    for pieces, texts, pol, via in cases:
        segs = ref_markup(texts)
        en = enabled_of[pol]
        refs.append(segs)
        for stack, part in segs:
            reqs.append(f'(apply_style {sx(en)} 0 {sx_style(stack_attrs(stack, table))} {sx(part)})')
    rep = iter(mr.ask(reqs))
    bad = 0

    def attempt(via, pol, texts, flip=False):
        force, nc, fc, cs, ot, et = pol
        try:
            with EnvCfg(nc, fc, ot, et):
                c = mk_color(force, cs)
                z = render_markup(via, c, texts)
                if not flip:
                    return (str(z), z.value, len(z))
            with flipped_env(enabled_of[pol]):
                return (str(z), z.value, len(z))
        except (ValueError, TypeError) as e:
            return f'raises {type(e).__name__}'

    def oracle(via, pol, texts):
        """which clause of the property the rendering violates (implementation only), or None"""
        got = attempt(via, pol, texts)
        if isinstance(got, str):
            return None
        out, value, ln = got
        if ESC in value:
            return None
        if tty.descape(out) != value:
            return 'transparent'
        if not enabled_of[pol] and out != value:
            return 'disabled-has-escape'
        if ln != len(value):
            return 'visible-length'
        if pol[0] is not None and attempt(via, pol, texts, flip=True) != got:
            return 'policy-env-dependent'
        return None

    for (pieces, texts, pol, via), segs in zip(cases, refs):
        en = enabled_of[pol]
        want_parts = [sx_str(next(rep)) for _ in segs]
        want, text = ''.join(want_parts), ''.join(p for _, p in segs)
        got = attempt(via, pol, texts)
        styled_tail = bool(segs) and stack_attrs(segs[-1][0], table) != PLAIN
        chk.case(f'markup:{texts}:{pol}:{via}', nontrivial=any(stack_attrs(s, table) != PLAIN for s, _ in segs))
        chk.count(f'markup.{"on" if en else "off"}.{"explicit" if pol[0] is not None else "default"}'
                  f'.{"styled-tail" if styled_tail else "other"}')
        chk.count('markup.via.' + via)
        if isinstance(got, str):
            bad += 1
            chk.violation('corr:markup-raises', f'{via} raised on {texts!r}',
                          {'correspondence': 'markup', 'texts': texts, 'policy': str(pol), 'via': via, 'impl': got})
            continue
        out, value, ln = got
        if value != text:
            bad += 1
            chk.violation('corr:markup-text', f'the text of markup {texts!r} is {value!r}, the reference scanner gives {text!r}',
                          {'correspondence': 'markup tokens/stack vs reference', 'texts': texts, 'impl': value, 'ref': text})
        elif out != want:
            bad += 1
            # where: first segment whose rendering is not at its place
            pos, where = 0, 'tail'
            for k, w in enumerate(want_parts):
                if not out.startswith(w, pos):
                    where = 'tail' if k == len(want_parts) - 1 else 'inner'
                    break
                pos += len(w)
            chk.violation(f'corr:markup-render:{"on" if en else "off"}:{where}',
                          f'{via} on {texts!r} with policy {pol} gives {out!r}, the model renders {want!r}',
                          {'correspondence': 'markup segments rendered by apply_style under the policy', 'texts': texts,
                           'policy': str(pol), 'via': via, 'impl': out, 'model': want})
        why = oracle(via, pol, texts)
        if why:
            # shrink: drop pieces, then the second text, while the same clause fails
            cur = list(pieces) if ''.join(pieces) == ''.join(texts) else None
            if cur is not None:
                k = 0
                while k < len(cur):
                    cand = cur[:k] + cur[k + 1:]
                    if cand and oracle(via, pol, [''.join(cand)]) == why:
                        cur = cand
                    else:
                        k += 1
                small = [''.join(cur)] if oracle(via, pol, [''.join(cur)]) == why else texts
            else:
                small = texts
            ssegs = ref_markup(small)
            o = attempt(via, pol, small)
            tail = bool(ssegs) and isinstance(o, tuple) and ESC in o[0][len(o[0]) - len(ssegs[-1][1]) - 6:]
            shape = 'unclosed-tail' if ssegs and ssegs[-1][0] and tail else 'closed'
            chk.violation(f'oracle:markup-{why}:{shape}',
                          f'{via} on {small!r} with policy {pol} (enabled={enabled_of[pol]}) gives {o!r}',
                          {'oracle': {'transparent': 'descape(str(markup)) == text', 'disabled-has-escape': 'disabled -> text, no ESC',
                                      'visible-length': 'len == len(text)',
                                      'policy-env-dependent': 'an explicit policy does not depend on the environment'}[why],
                           'texts': small, 'policy': str(pol), 'via': via, 'got': str(o)})
    chk.obligation('Y1:markup()/Color.markup/Style.markup vs reference scanner + apply_style of the model under the policy '
                   '(default policy set independently of the explicit one)', 'correspondence', bad == 0)
    chk.sample({'markup': repr(cases[-3][1]), 'policy': str(cases[-3][2]), 'segments': repr(refs[-3])})
    return table, bnames, xnames


def clamp_colour(v):
    if v is None:
        return None
    if isinstance(v, tuple):
        return tuple(max(0, min(x, 255)) for x in v)
    return None if v < 0 else min(v, 255)


def gen_colour_wild(rng):
    r = rng.random()
    if r < 0.15:
        return rng.choice([-1, -7, 256, 300, 1000])
    if r < 0.25:
        return tuple(rng.choice([-1, 0, 255, 256, 300, 17]) for _ in range(3))
    return gen_colour(rng)


def run_derive(chk: Check, mr: ModelRun, restyles: bool, enabled_of: dict, table: dict, bnames: list, xnames: list):
    import copy as _copy
    from tatsu.ztyle import Style, RGB
    from tatsu.ztyle.xstyle import XStyle
    from tatsu.ztyle.colormap import COLORMAP, color as cm_color
    from tatsu.ztyle.csscolormap import CSS_COLORS, css_color
    rng = chk.rng
    cm_names = sorted(COLORMAP) + ['Red', 'no such colour', 'bright red']
    css_names = sorted(CSS_COLORS) + ['Rebecca Purple', 'nosuch', 'RED']
    pols = list(all_policies())

    def arg_colour(v):
        return RGB(*v) if isinstance(v, tuple) else v

    def gen_ops(start):
        ops = []
        for _ in range(rng.randint(1, 5)):
            r = rng.random()
            if r < 0.3:
                ops.append(('name', rng.choice(bnames) if start != 'XStyle' or rng.random() < 0.5 else rng.choice(xnames)))
            elif r < 0.45:
                ops.append((rng.choice(['fg', 'bg']), gen_colour_wild(rng)))
            elif r < 0.52:
                ops.append((rng.choice(['fg_rgb', 'bg_rgb']), tuple(rng.choice([-3, 0, 7, 128, 255, 256, 999]) for _ in range(3))))
            elif r < 0.6:
                ops.append((rng.choice(['fg_name', 'bg_name']), rng.choice(cm_names)))
            elif r < 0.68:
                ops.append((rng.choice(['fg_css', 'bg_css']), rng.choice(css_names)))
            elif r < 0.78:
                ops.append(('fmt', gen_spec(rng, valid=rng.random() < 0.9)))
            elif r < 0.93:
                ops.append(('call', gen_text(rng, esc_free=rng.random() < 0.95, nonempty=rng.random() < 0.95),
                            None if rng.random() < 0.6 else gen_spec(rng, valid=rng.random() < 0.9)))
            else:
                ops.append(('copy',))
        return ops

    def ref_step(state, op):
        st, text, fmt = state
        k = op[0]
        if k == 'name':
            st = eff_apply(st, table[op[1]])
        elif k in ('fg', 'bg', 'fg_rgb', 'bg_rgb'):
            st = eff_apply(st, (k[:2], clamp_colour(op[1])))
        elif k in ('fg_name', 'bg_name'):
            st = eff_apply(st, (k[:2], cm_color(op[1])))      # colormap.py is a name table (trusted)
        elif k in ('fg_css', 'bg_css'):
            c = css_color(op[1])                              # csscolormap.py is a name table (trusted)
            if c is not None:
                st = eff_apply(st, (k[:2], tuple(c)))
        elif k == 'fmt':
            fmt = op[1]
        elif k == 'call':
            text = op[1]
            if op[2] is not None:
                fmt = op[2]
        return (st, text, fmt)

    def impl_step(s, op):
        k = op[0]
        if k == 'name':
            return getattr(s, op[1])()
        if k in ('fg', 'bg'):
            return getattr(s, k)(arg_colour(op[1]))
        if k in ('fg_rgb', 'bg_rgb'):
            return getattr(s, k)(*op[1])
        if k in ('fg_name', 'bg_name', 'fg_css', 'bg_css', 'fmt'):
            return getattr(s, k)(op[1])
        if k == 'call':
            return s(op[1]) if op[2] is None else s(op[1], fmt=op[2])
        return _copy.copy(s)

    def asciidigits(x):
        return x is None or not any(c.isdigit() and not ('0' <= c <= '9') for c in x)

    cases = []
    for _ in range(2500 if chk.quick else 50000):
        start = rng.choice(['Style', 'Color.style', 'XStyle'])
        st0 = gen_style(rng) if rng.random() < 0.6 else PLAIN
        t0 = '' if rng.random() < 0.3 else gen_text(rng)
        f0 = gen_spec(rng) if start != 'Color.style' and rng.random() < 0.3 else None
        en0 = rng.random() < 0.4
        r = rng.random()
        if r < 0.35:
            pol = (en0, None, '1', rng.random() < 0.3, True, True) if not en0 else (en0, '1', None, rng.random() < 0.3, False, False)
        elif r < 0.55:
            pol = (en0, None, None, rng.random() < 0.3, not en0, not en0)
        else:
            pol = rng.choice(pols)
        ops = gen_ops(start)
        sp = None if rng.random() < 0.5 else gen_spec(rng, valid=rng.random() < 0.9)
        states = [(st0, t0, f0)]
        for op in ops:
            states.append(ref_step(states[-1], op))
        if not all(asciidigits(x) for x in [sp] + [s[2] for s in states]):
            continue
        cases.append((start, pol, ops, sp, states))
    reqs = []
    for start, pol, ops, sp, states in cases:
        st, t, sf = states[-1]
        en = enabled_of[pol]
        reqs.append(f'(apply {sx(en)} {sx_style(st)} {sx_ostr(sf)} {sx(t)} none)')
        reqs.append(f'(style_len {sx(en)} {sx_style(st)} {sx_ostr(sf)} {sx(t)})')
        reqs.append(f'(dunder_format {sx(restyles)} {sx(en)} {sx_style(st)} {sx_ostr(sf)} {sx(t)} {sx(sp or "")})')
    rep = mr.ask(reqs)
    bad = 0

    def att(f):
        try:
            return f()
        except ValueError:
            return None

    for k, (start, pol, ops, sp, states) in enumerate(cases):
        force, nc, fc, cs, ot, et = pol
        en = enabled_of[pol]
        st0, t0, f0 = states[0]
        m_str = rd_ostr(rep[3 * k])
        m_len = None if rep[3 * k + 1] == 'none' else int(rep[3 * k + 1][1])
        m_fmt = rd_ostr(rep[3 * k + 2])
        diverged = None
        with EnvCfg(nc, fc, ot, et):
            c = mk_color(force, cs)
            kw = dict(zip(FLAGS, st0[0]))
            if start == 'Color.style':
                s = c.style(t0, fg=impl_color(st0[1]), bg=impl_color(st0[2]), **kw)
            else:
                s = (Style if start == 'Style' else XStyle)(t0, fmt=f0, fg=impl_color(st0[1]), bg=impl_color(st0[2]), color=c, **kw)
            for op, want in zip(ops, states[1:]):
                s = impl_step(s, op)
                if diverged is None and (attrs_of(s), s.value, s._fmt) != want:
                    diverged = (op, (attrs_of(s), s.value, s._fmt), want)
            outs = (att(lambda: str(s)), att(lambda: len(s)), att(lambda: format(s, sp or '')))
            same_policy = s.color is c
        outs2 = None
        if force is not None:
            with flipped_env(en):
                outs2 = (att(lambda: str(s)), att(lambda: len(s)), att(lambda: format(s, sp or '')))
        last = ops[-1][0]
        chk.case(f'derive:{start}:{pol}:{ops}:{sp}:{states[0]}', nontrivial=bool(states[-1][1]) and states[-1][0] != PLAIN)
        chk.count(f'derive.{"on" if en else "off"}.{"explicit" if force is not None else "default"}')
        chk.count('derive.last-op.' + last)
        if diverged is not None:
            bad += 1
            chk.violation(f'corr:derive-state:{diverged[0][0]}', f'{start} after {diverged[0]} is {diverged[1]}, expected {diverged[2]}',
                          {'correspondence': 'builder methods vs reference', 'start': start, 'initial': str(states[0]),
                           'ops': str(ops), 'impl': str(diverged[1]), 'ref': str(diverged[2])})
            continue
        for what, i, m in zip(('str', 'len', 'format'), outs, (m_str, m_len, m_fmt)):
            if i != m:
                bad += 1
                chk.violation(f'corr:derive-{what}:{"on" if en else "off"}:{last}',
                              f'{what} of a style built by {start} + {ops} under policy {pol} is {i!r}, the model gives {m!r}',
                              {'correspondence': f'derived style {what} vs model under the policy', 'start': start,
                               'initial': str(states[0]), 'ops': str(ops), 'spec': sp, 'policy': str(pol), 'impl': i, 'model': m})
        if not en and any(isinstance(o, str) and ESC in o for o in outs) and ESC not in states[-1][1] + (states[-1][2] or '') + (sp or ''):
            chk.violation(f'oracle:derive-disabled-has-escape:{last}', f'colour disabled but a style built by {start} + {ops} renders {outs!r}',
                          {'oracle': 'disabled -> no ESC', 'start': start, 'initial': str(states[0]), 'ops': str(ops),
                           'policy': str(pol), 'got': str(outs)})
        if (outs2 is not None and outs2 != outs) or not same_policy:
            chk.violation(f'oracle:derive-policy-env-dependent:{last}',
                          f'a style built by {start} + {ops} with the explicit policy {pol} renders {outs!r}, and {outs2!r} in another environment',
                          {'oracle': 'an explicit policy does not depend on the environment; derived styles keep the policy object',
                           'start': start, 'initial': str(states[0]), 'ops': str(ops), 'policy': str(pol), 'got': str(outs),
                           'other-env': str(outs2), 'same-policy-object': same_policy})
    chk.obligation('Y1:styles derived through Color.style / builder methods / __call__ / copy / XStyle names: state vs reference, '
                   'str/len/format vs model under the policy', 'correspondence', bad == 0)
    chk.sample({'derive': repr(cases[7][:4]), 'model': repr(rd_ostr(rep[21]))})


# ------------------------------------------------------------------ users: error rendering with colour disabled
def decide(pol):
    force, nc, fc, cs, ot, et = pol
    if force is not None:
        return force
    if nc is not None:
        return False
    if fc is not None:
        return True
    return et if cs else ot


def run_users(chk: Check):
    import tatsu
    from tatsu.exceptions import FailedParse, ParseError
    from tatsu.util import tty
    bad = 0
    grammars = [("start = 'a' 'b' $ ;", ['ac', 'x', 'ab c', 'a\nx', 'é漢']),
                ("start = {'x'}+ $ ;\n", ['xxy', '', 'y\ny'])]
    pols = [(None, '1', None, True, True, True), (None, None, None, True, False, False), (False, None, '1', True, True, True),
            (None, '', '1', True, True, True), (None, None, '1', True, False, False), (True, '1', None, True, False, False),
            (None, None, None, True, True, True), (None, None, None, True, True, False)]
    for g, texts in grammars:
        model = tatsu.compile(g)
        for t in texts:
            try:
                model.parse(t)
                continue
            except FailedParse as e:
                plain = None
                for pol in pols:
                    force, nc, fc, cs, ot, et = pol
                    with EnvCfg(nc, fc, ot, et):
                        # str() uses the module default Color.stderr(): environment only
                        outs = [(decide((None, nc, fc, True, ot, et)), str(e)),
                                (decide((None, nc, fc, True, ot, et)), str(ParseError('first line\nsecond'))),
                                (decide(pol), e.render(color=mk_color(force, cs)))]
                    chk.case(f'users:{g}:{t}:{pol}')
                    chk.count('users.renderings')
                    for en, o in outs:
                        if not en and ESC in o:
                            bad += 1
                            chk.violation('oracle:error-rendering-escape', 'an error rendered with colour disabled contains an escape sequence',
                                          {'oracle': 'disabled -> no ESC in FailedParse/ParseError/memento', 'grammar': g, 'text': t,
                                           'policy': str(pol), 'output': o})
                        if en and ESC not in o:
                            bad += 1
                            chk.violation('oracle:error-rendering-plain', 'an error rendered with colour enabled has no escape sequence',
                                          {'oracle': 'enabled -> styled', 'grammar': g, 'text': t, 'policy': str(pol), 'output': o})
                    r = outs[2][1]
                    if plain is None and not outs[2][0]:
                        plain = r
                    if plain is not None and tty.descape(r) != plain:
                        bad += 1
                        chk.violation('oracle:error-rendering-text', 'the coloured error rendering, escapes removed, is not the plain rendering',
                                      {'oracle': 'descape(coloured) == plain', 'grammar': g, 'text': t, 'coloured': r, 'plain': plain})
    chk.obligation('oracle:error rendering (FailedParse, ParseError, memento)', 'oracle', bad == 0)


# ------------------------------------------------------------------ users: the message of an error is the text that gets styled
# every character str.splitlines() treats as a line boundary ('\r\n' as one boundary)
LINE_BREAKS = ['\n', '\r', '\r\n', '\x0b', '\x0c', '\x1c', '\x1d', '\x1e', '\x85', '\u2028', '\u2029']
MSG_LINES = ['', '', 'a', 'b c', ' ', '  ^', '\t', 'start = expr ;', "expecting '}'", 'f{a:>3}', '{}', '{0}', '{', ':', '%s', 'error:',
             'é', 'é', '漢字', '😀', '\xa0', '​', '\\', '\\n', '\\e[1m', '[bold]x[/]', '[1m', 'x' * 38, 'y' * 41, '0', 'None']


def gen_message(rng, esc_free=True):
    """a message of several lines: LF-separated most of the time, any other line boundary otherwise; empty first / middle /
    last lines; texts with braces, colons, backslashes, wide / combining / non-printable characters"""
    n = rng.choice([1, 1, 2, 2, 3, 3, 4, 6])
    lf_only = rng.random() < 0.35
    out = []
    for i in range(n):
        r = rng.random()
        line = rng.choice(MSG_LINES) if r < 0.6 else gen_text(rng, nonempty=False, maxn=4) if r < 0.9 else rng.choice(MSG_LINES) + rng.choice(MSG_LINES)
        if lf_only:
            line = ''.join(ch for ch in line if ch == '\n' or len((ch + 'x').splitlines()) == 1)
        out.append(line)
        if i + 1 < n or rng.random() < 0.25:
            out.append('\n' if lf_only or rng.random() < 0.4 else rng.choice(LINE_BREAKS))
    if rng.random() < 0.15:
        out.insert(0, '\n' if lf_only else rng.choice(LINE_BREAKS))
    t = ''.join(out)
    if not esc_free:
        k = rng.randrange(len(t) + 1)
        t = t[:k] + rng.choice([ESC, ESC + '[1m', ESC + '[0m', ESC + '[31;1m']) + t[k:]
    elif ESC in t:
        t = t.replace(ESC, '')
    return t


def message_class(m):
    """shape class of a (shrunk) message for signatures"""
    if not m:
        return 'empty'
    feats = []
    other = [b for b in LINE_BREAKS if b != '\n' and b in m]
    if '\r\n' in m:
        feats.append('crlf')
    elif '\r' in m:
        feats.append('cr')
    if any(b in m for b in LINE_BREAKS[3:]):
        feats.append('unicode-break')
    if '\n' in m.replace('\r\n', ''):
        feats.append('lf-trailing' if m.count('\n') == 1 and m.endswith('\n') else 'lf')
    if not other and '\n' not in m:
        feats.append('one-line')
    if ESC in m:
        feats.append('esc')
    if any(c in m for c in '{}:%'):
        feats.append('fmtchar')
    if len(m) > 40:
        feats.append('long')
    return '+'.join(feats)


def shrink_text(t, fails):
    """greedy deletion of characters / chunks while `fails` stays true"""
    step = max(1, len(t) // 2)
    while step >= 1:
        i = 0
        while i < len(t):
            cand = t[:i] + t[i + step:]
            if cand != t and fails(cand):
                t = cand
            else:
                i += step
        step //= 2
    return t


def ref_error_text(msg):
    """what ParseError.__str__ shows, escapes aside: 'error: ' and the message.  The code styles the part before the first LF
    and appends the remainder after an LF *if the remainder is not empty*: a message whose only LF is its last character is
    shown without it (counted, see notes: trimming by the plain composition, independent of styling); nothing for ''."""
    if not msg:
        return ''
    if msg.count('\n') == 1 and msg.endswith('\n'):
        msg = msg[:-1]
    return 'error: ' + msg


def ref_memento_plain(msg, text, source, line, col, stack):
    """layout of contexts/memento.py with every style removed"""
    lines = text.splitlines()
    w = len(str(line + 1))
    out = [f'error: {msg}', f'  -> {source or "<unknown>"}[{line + 1}:{col + 1}]', '   │']
    for i in range(max(0, line - 4), min(line + 1, len(lines))):
        out.append(f' {i + 1:>{w}} │ {lines[i].expandtabs()}')
    shown = msg if len(msg) <= 40 else msg[:37] + '...'
    out.append(' ' + ' ' * (w + 1) + '│ ' + ' ' * max(0, col) + '⌃ ' + ' ' + shown)
    out.append('')
    out.extend(f'→ {call}' for call in stack)
    return '\n'.join(out) + '\n'


class _Shown:
    """a non-str first argument: the rendering goes through str()"""

    def __init__(self, s):
        self.s = s

    def __str__(self):
        return self.s


def run_messages(chk: Check):
    """The message of ParseError / GrammarError / CodegenError / HeartDied (and subclasses), and the message, source lines and
    rule names of the parse-failure report, are texts handed to styles: rendered with colour off they are the text, with colour
    on they are that same text once the escapes are removed - for every message, in particular messages of several lines with
    any line boundary, not only LF."""
    import tatsu.exceptions as X
    from tatsu.contexts.memento import memento
    from tatsu.input import LineInfo
    from tatsu.util import tty
    rng = chk.rng
    bad = 0

    def subclasses(c):
        yield c
        for s in c.__subclasses__():
            yield from subclasses(s)

    class LocalError(X.GrammarError):
        pass

    classes = [c for c in dict.fromkeys(subclasses(X.ParseError)) if c.__module__ == X.__name__ or c is LocalError]
    chk.count('messages.ParseError-classes', len(classes))
    envs = [(nc, fc, ot, et) for nc in (None, '', '1') for fc in (None, '', '1') for ot in (False, True) for et in (False, True)]
    env_off = next(e for e in envs if not decide((None, *e[:2], True, *e[2:])))
    env_on = next(e for e in envs if decide((None, *e[:2], True, *e[2:])))
    core_envs = [(None, None, False, False), (None, '1', False, False), ('1', None, True, True), (None, None, False, True)]

    def render(cls, shape, msg, env, other=None):
        with EnvCfg(*env):
            if shape == 'str':
                e = cls(msg)
            elif shape == 'extra':
                e = cls(msg, 'detail', 3)
            elif shape == 'object':
                e = cls(_Shown(msg))
            elif shape == 'raised':
                try:
                    raise cls(msg)
                except X.ParseError as e2:
                    e = e2
            else:
                e = cls()
            a, b = str(e), str(e)
            f = f'{e}'
        if other is not None:
            # the same exception object shown again after the environment changed follows the new environment
            with EnvCfg(*other):
                f = f if str(e) == str(cls(*e.args)) else f + '<stale>'
        return a, b, f

    def clauses(cls, shape, msg, env):
        """names of the clauses violated by this case"""
        en = decide((None, env[0], env[1], True, env[2], env[3]))
        a, b, f = render(cls, shape, msg, env, other=env_on if not en else env_off)
        want = ref_error_text(msg if shape != 'noargs' else '')
        out = []
        if a != b or a != f:
            out.append('stale-after-environment-change' if f.endswith('<stale>') and a == b else 'unstable')
        if not en:
            if a != want:
                out.append('plain-text' if not (ESC in a and ESC not in msg) else 'disabled-has-escape')
        else:
            if want and ESC not in a:
                out.append('enabled-unstyled')
            if ESC not in msg:
                if tty.descape(a) != want:
                    out.append('styled-text')
                elif tty.visual_len(a) != len(want):
                    out.append('visible-length')
            off = render(cls, shape, msg, env_off)[0]
            if ESC not in msg and tty.descape(a) != off:
                out.append('styled-vs-plain')
        return out

    def judge(cls, shape, msg, env):
        nonlocal bad
        chk.case(f'msg:{cls.__name__}:{shape}:{msg}:{env}', nontrivial=bool(msg))
        chk.count('messages.error-renderings')
        if any(b in msg for b in LINE_BREAKS if b != '\n'):
            chk.count('messages.with-a-line-boundary-other-than-LF')
        if msg.count('\n') == 1 and msg.endswith('\n'):
            chk.count('messages.single-trailing-LF (shown without it)')
        got = clauses(cls, shape, msg, env)
        if not got:
            return
        bad += 1
        clause = got[0]
        small = shrink_text(msg, lambda m: clause in clauses(cls, shape, m, env))
        en = decide((None, env[0], env[1], True, env[2], env[3]))
        chk.violation(f'oracle:error-message-{clause}:{"on" if en else "off"}:{message_class(small)}',
                      f'{cls.__name__}.__str__: the styled rendering of the message is not the message ({clause})',
                      {'oracle': "colour off: str(e) == 'error: ' + message; colour on: descape(str(e)) == 'error: ' + message, "
                                 'visual_len agrees, str() is stable', 'class': cls.__name__, 'args': shape, 'message': small,
                       'original_message': msg, 'env(NO_COLOR,FORCE_COLOR,stdout tty,stderr tty)': str(env),
                       'output': render(cls, shape, small, env)[0], 'expected_text': ref_error_text(small)})

    # exhaustive small scope: every message of up to 3 atoms over {a, space, every line boundary}; ParseError under 4 environments
    atoms = ['a', ' ', *LINE_BREAKS]
    small = [''.join(p) for n in range(0, 4) for p in itertools.product(atoms, repeat=n)]
    small = list(dict.fromkeys(small))
    for m in small:
        for env in core_envs:
            judge(X.ParseError, 'str', m, env)
    for cls in classes:
        for shape in ('str', 'extra', 'object', 'raised', 'noargs'):
            for m in ['', 'x', 'first line\nsecond', 'a\r\nb', 'a\u2028b\n', '\n']:
                judge(cls, shape, m, rng.choice(envs))
    for k in range(2500 if chk.quick else 40000):
        judge(rng.choice(classes), rng.choice(['str', 'str', 'str', 'extra', 'object', 'raised']),
              gen_message(rng, esc_free=rng.random() < 0.93), rng.choice(envs) if k % 3 else rng.choice(core_envs))
    chk.obligation("oracle:error messages (ParseError family): colour off -> 'error: ' + message, colour on -> the same once de-escaped; "
                   'every line boundary, all environment policies', 'oracle', bad == 0)

    # ---- the parse-failure report, called directly: message / source text / rule names are arbitrary texts
    bad2 = 0
    pols = [(None, '1', None, True, True, True), (None, None, None, True, False, False), (False, None, '1', True, True, True),
            (None, None, '1', True, False, False), (True, '1', None, True, False, False), (True, None, None, False, False, False),
            (None, None, None, True, True, True), (None, None, None, False, True, False), (False, None, None, False, True, True)]
    names = ['start', 'expr', 'término', '规则', 'a_b', '_', 'x1', 'Rule', 'f{a:>3}', '{}']

    def report(pol, args):
        force, nc, fc, cs, ot, et = pol
        msg, text, source, line, col, stack = args
        with EnvCfg(nc, fc, ot, et):
            return memento(msg, text, LineInfo(source, line, col, 0, 0, ''), list(stack), color=mk_color(force, cs))

    def report_clauses(pol, args):
        msg, text, source, line, col, stack = args
        clean = ESC not in msg + text + source + ''.join(stack)
        en = decide(pol)
        r = report(pol, args)
        want = ref_memento_plain(*args)
        out = []
        if not en:
            if r != want:
                out.append('disabled-has-escape' if clean and ESC in r else 'plain-text')
        else:
            if ESC not in r:
                out.append('enabled-unstyled')
            if clean and tty.descape(r) != want:
                out.append('styled-text')
        return out

    for k in range(1200 if chk.quick else 20000):
        msg = gen_message(rng, esc_free=rng.random() < 0.95) if k % 4 else rng.choice(MSG_LINES)
        nl = rng.randint(0, 7)
        text = ''.join(rng.choice(MSG_LINES) + (rng.choice(LINE_BREAKS) if rng.random() < 0.3 else '\n') for _ in range(nl))
        if rng.random() < 0.3:
            text += rng.choice(MSG_LINES)
        text = text.replace(ESC, '')
        nlines = len(text.splitlines())
        line = rng.choice([0, max(0, nlines - 1), nlines, rng.randint(0, nlines + 1), 9, 99])
        col = rng.choice([0, 0, 1, 3, rng.randint(0, 45)])
        source = rng.choice(['', 'g.ebnf', 'dir/é 漢.tatsu', '<string>', 'C:\\x\\g.ebnf'])
        stack = tuple(rng.choice(names) for _ in range(rng.randint(0, 4)))
        args = (msg, text, source, line, col, stack)
        pol = rng.choice(pols)
        chk.case(f'memento:{args}:{pol}')
        chk.count('messages.report-renderings')
        got = report_clauses(pol, args)
        if not got:
            continue
        bad2 += 1
        clause = got[0]
        fails = lambda a: clause in report_clauses(pol, a)  # noqa: E731
        m2 = shrink_text(msg, lambda m: fails((m, *args[1:])))
        t2 = shrink_text(text, lambda t: fails((m2, t, *args[2:])))
        st2 = stack
        while st2 and fails((m2, t2, source, line, col, st2[1:])):
            st2 = st2[1:]
        a2 = (m2, t2, source, line, col, st2)
        chk.violation(f'oracle:failure-report-{clause}:{"on" if decide(pol) else "off"}:{message_class(m2)}',
                      f'memento(): the report with its escapes removed is not the report of the same texts ({clause})',
                      {'oracle': 'colour off: memento(...) == the layout filled with the texts; colour on: the same once de-escaped',
                       'args(msg,text,source,line,col,rulestack)': repr(a2), 'policy': str(pol), 'output': report(pol, a2),
                       'expected_text': ref_memento_plain(*a2)})
    chk.obligation('oracle:parse-failure report (memento) over arbitrary messages / source texts / rule names: text unchanged by styling',
                   'oracle', bad2 == 0)


def run_translator(chk: Check):
    import t_style
    try:
        t_style.main()
        _, defs = t_style.translate()
        chk.obligation('T2/T5:tty.py regex literals + style.py code shapes and literals -> gen/StyleGen.v', 'translator', True)
        return defs
    except Exception as e:  # noqa: BLE001  fail closed
        t_style.OUT.write_text(f'(* translator t_style failed: {type(e).__name__} *)\nDefinition translator_failed : False := I.\n')
        chk.obligation('T2/T5:tty.py regex literals + style.py code shapes and literals -> gen/StyleGen.v', 'translator', False,
                       f'{type(e).__name__}: {e}')
        return None


def main():
    chk = Check(PID)
    chk.rule = ('descape: all strings over {ESC,[,0,;,m,a,space,?,@} up to length 5 (quick) / 6 (thorough), every code point 0..259 '
                'after ESC, after ESC[, and as final byte, random strings over the class boundaries; styles: every pair of edge '
                'colours (none, 0,7,8,15,16,255, RGB) and all 256 modifier subsets, plus random styles; texts over ASCII, braces, '
                'colons, backslash-e, quotes, controls, wide/combining/non-printable characters (a malformed stream contains ESC); '
                'format specs from the grammar [[fill]align][0][width][.precision][s] plus a malformed stream; all 432 colour '
                'policies. Markup sources: all sequences of up to 3 (quick) / 4 (thorough) pieces over {text, [bold], [red], '
                '[bold red], [/], [/bold], [/all], [[, stray [ and ]} plus random sources (nested/unclosed/unknown/XStyle tags, '
                'stray brackets, several arguments), rendered through markup(color=), markup(), Color.markup, Style.markup and a '
                'derived style, each under an explicit or default policy with the process default (NO_COLOR/FORCE_COLOR/tty) set '
                'independently, and re-rendered in an environment with the opposite default; styles derived by random chains of '
                'builder methods / __call__ / copy / Color.style / XStyle names under the same policy x environment grid. '
                'Error messages: every ParseError subclass x argument shapes x all strings of up to 3 atoms over {a, space, every '
                'str.splitlines boundary} plus random messages of 1-6 lines with mixed line boundaries / empty lines / braces / wide and '
                'non-printable characters / long lines, under all 36 environments; memento() directly over random message, source '
                'text, position, rule stack and policy. '
                'Non-trivial: text non-empty and style/spec non-default / string contains ESC / a styled markup segment; '
                'distinct by content hash.')
    chk.trusted += ['Python re (ANSI_RE, SGR_RE, the parse_fmt regex), str.__format__, repr(str), str.isprintable (oracle table of the model)',
                    're._parser (used by the translator to read the regex literals), ast',
                    'modelled: Style.apply_style/apply/__str__/__len__/__format__/__repr__/from_raw/parse_fmt, Color.enabled, '
                    'tty.descape/visual_len/tty_escape/tty_unescape; markup.py: reference scanner/stack interpreter in c20.py (Python, not '
                    'Coq) + the model renderer per segment; colormap.py / csscolormap.py / XStyle are name tables (read from the '
                    'implementation, checked for mutual consistency only)']
    chk.assumptions += ['format specs and SGR parameters use ASCII digits (Python also accepts other Unicode decimal digits)',
                        'widths are small enough for memory; int() digit limit (4300) not reached',
                        'visible length counts code points (as visual_len does); display width of wide/combining characters is out of scope']
    defs = run_translator(chk)
    chk.coq()
    ok, out = vlib.build_modelrun('Style')
    chk.obligation('modelrun_Style builds', 'build', ok, out[-500:])
    if ok and defs is not None:
        mr = ModelRun('Style')
        run_descape(chk, mr)
        run_apply_style(chk, mr)
        run_sgr(chk, mr)
        run_format(chk, mr)
        enabled_of = run_enabled(chk, mr)
        run_apply(chk, mr, bool(defs['dunder_format_restyles']))
        run_repr(chk, mr)
        table, bnames, xnames = run_markup(chk, mr, enabled_of)
        run_derive(chk, mr, bool(defs['dunder_format_restyles']), enabled_of, table, bnames, xnames)
        run_users(chk)
        run_messages(chk)
    chk.exhaustive = False
    return chk.finish()


if __name__ == '__main__':
    sys.exit(main())
