"""C17 - constant expressions in grammars are evaluated in a sandbox.

T1  translator (harness/translate/t_safeeval.py): interpreter builtins + safeeval.py -> coq/gen/SafeEvalGen.v
Coq theories/Properties/C17.v (table sweep recompiled on every run)
S0  safe_names / leaks of the extracted model vs tatsu.util.safeeval.safe_builtins() of the running interpreter
S1  check (extracted) vs is_eval_safe on generated expression strings x contexts (ast.parse output -> rose tree)
S2  real evaluation under sys.addaudithook, directly (safe_eval) and through the parser (constant / alert):
    every observed dangerous event must be predicted by the capability semantics (events); predicted-and-observed
    dangerous capabilities are the recorded builtin leaks; anything reached through reflective attributes is an escape;
    the value of every accepted expression must be its value under context-only name resolution (one namespace = the
    context at every scope depth, empty __builtins__), also for AST keys spelled like builtins used in nested scopes
S3  the interpolation loop of ParseContext.constant vs the extracted loop, oracle tables recorded from the real run
S4  state carried between calls: PROGRAMS of many compiles / parses in ONE interpreter (sibling rules and nested rule calls
    of one parse, models parsed again with other inputs, the same text compiled again, keys spelled like builtins, names of
    TatSu's bootstrap grammar, semantics objects with a persistent safe_context() dict attached / detached, walrus bindings):
    the context handed to the evaluator by every constant() call must be exactly pristine builtins | safe_context | keys of
    the engine's current AST (and those keys must belong to the rule), every constant must have the value computed by the
    harness from the texts of its own rule's keys (an unbound name leaves the text uninterpreted, whatever an earlier rule /
    parse / grammar bound), safe_builtins() and the safe_context() dicts must be left unchanged, and the same program run
    in a shuffled order (second interpreter) must evaluate every constant to the same value
Binding positions and objects with attributes (after seeded C17-m7): every attribute name (harmless / dunder / blocked) is
    written in every syntactic position of an ast.Attribute - as a value AND as the binding target of a comprehension clause
    (list / set / dict / generator, tuple / list / starred / nested patterns, second clause, f-string field and format spec,
    subscript target), random compositions draw their comprehension targets from the same grammar - in a context holding
    objects with writable attributes (instance with a __dict__, function, dict) and, through the parser, in grammars with a
    sub-AST (p:pair).  S1 covers the verdict (directly and, through the parser, on the context the engine built); a new S2
    oracle snapshots the state behind the dunder attributes of every object reachable from the context (class, identity and
    dunder entries of __dict__, function internals) before / after each evaluation: it must not change.
Alerts (after seeded C17-m9): alerts are parsed with parseinfo=True and the message recorded in parseinfo.alerts (the only
    place where the value of an alert is observable) is what S3 compares with the extracted loop; texts in the str.format field
    syntax (NAME.attr[key]!conv:spec rooted at bound / unbound names, dunder chains) are run as constants and alerts of every
    level; a text for which no evaluation took place must come back as written; S4 compares the recorded alert messages with
    what constant() returned.
All code of /repo runs in fresh child interpreters (stdin detached, scratch directory, audit hook).
"""
from __future__ import annotations

import ast
import json
import os
import re
import shutil
import subprocess
import sys
import tempfile
from pathlib import Path

sys.path.insert(0, str(Path(__file__).resolve().parent.parent))
sys.path.insert(0, str(Path(__file__).resolve().parent.parent / 'translate'))
import vlib
from vlib import Check, ModelRun, sx, sx_str, Atom, Some

PID = 'C17'

DANGEROUS = ('open eval exec compile input exit quit help breakpoint __import__ getattr setattr delattr globals '
             'locals vars memoryview type object super').split()

# audit event (or pseudo event) -> builtins whose invocation explains it
EXPLAINS = {
    'open': {'open', 'help', 'exec', 'eval', 'breakpoint', '__import__'},
    'exec': {'exec', 'eval', 'help', 'breakpoint', '__import__'},
    'compile': {'compile', 'exec', 'eval', 'help', 'breakpoint', '__import__'},
    'import': {'__import__', 'exec', 'eval', 'help', 'breakpoint'},
    'builtins.input': {'input', 'help'},
    'builtins.input/result': {'input', 'help'},
    'builtins.breakpoint': {'breakpoint'},
    'stdin.close': {'exit', 'quit'},
    'os.': {'exec', 'eval', 'help', '__import__', 'breakpoint'},
    'subprocess.': {'exec', 'eval', 'help', '__import__', 'breakpoint'},
}

# ----------------------------------------------------------------------------- the child interpreter
CHILD = r'''
import ast, builtins, json, os, signal, sys
from collections.abc import Iterable, Mapping

jobs_path, out_path, scratch = sys.argv[1:4]
os.chdir(scratch)
sys.stdout = open(os.devnull, 'w')

class Hang(BaseException):
    pass

class Stdin:
    def close(self):
        record('stdin.close')
    def readline(self, *a):
        return ''
    def read(self, *a):
        return ''
    def fileno(self):
        raise OSError('detached')
    def isatty(self):
        return False
sys.stdin = Stdin()

EVENTS = None
IGNORE = ('sys._getframe', 'builtins.id', 'object.__getattr__', 'object.__setattr__', 'object.__delattr__',
          'sys.excepthook', 'sys.unraisablehook', 'cpython.', 'gc.', 'marshal.', 'code.__new__', 'sys.settrace',
          'sys.setprofile', 'signal.')
WATCH = ('open', 'exec', 'compile', 'import', 'builtins.input', 'builtins.breakpoint', 'os.', 'subprocess.',
         'socket.', 'shutil.', 'ctypes.', 'pty.', 'tempfile.', 'glob.', 'pathlib.', 'webbrowser.', 'urllib.',
         'sqlite3.', 'mmap.', 'fcntl.', 'resource.', 'syslog.')

def beneath_sandbox():
    f = sys._getframe(2)
    while f is not None:
        if f.f_code.co_filename == '<string>':
            return True
        f = f.f_back
    return False

def record(ev):
    if EVENTS is not None and ev not in EVENTS:
        EVENTS.append(ev)

def hook(ev, args):
    if EVENTS is None or ev.startswith(IGNORE):
        return
    if not ev.startswith(WATCH):
        return
    if beneath_sandbox():
        if ev.startswith(('os.', 'subprocess.')):
            ev = ev.split('.')[0] + '.'
        record(ev)

sys.addaudithook(hook)

import tatsu
from tatsu.util import safeeval
from tatsu.contexts import engine
from tatsu.exceptions import FailedParse, FailedSemantics
from tatsu.semantics import ModelBuilderSemantics, ASTSemantics

SB = safeeval.safe_builtins()
def _f(x):
    return x
import functools, copy, re
with open('probe.txt', 'w') as _pf:
    _pf.write('PROBE-CONTENT')
# AST keys spelled like builtins the filter removed (deny list, types, a few exception names): bound to DATA
SHADOW_NAMES = sorted(n for n, v in vars(builtins).items()
                      if not n.startswith('_') and n not in SB and n not in ('True', 'False', 'None')
                      and not (isinstance(v, type) and issubclass(v, BaseException)))
SHADOW_NAMES += ['Exception', 'KeyboardInterrupt', 'ValueError']
SHADOW_SAFE = ['len', 'repr', 'iter']
def _mkfn(name):
    def fn(*args, **kw):
        return 'ctx-' + name
    fn.__name__ = name
    fn.__qualname__ = name
    return fn
SHADOWFN_NAMES = ['open', 'eval', 'exec', 'compile', 'type', 'getattr', 'input', 'vars']
FAKES = {n: _mkfn(n) for n in SHADOWFN_NAMES}
def _mkobj():
    # objects with writable attributes, as a semantic action may put them in the AST (fresh class / function per context)
    class Box:
        def __init__(self):
            self.secret = 'kept'
            self.x = ['x']
    def greet(name='world'):
        return 'hello ' + name
    return {'o': Box(), 'greet': greet}
CONTEXTS = {
    'shadow': lambda: SB | {'a': 'x', 'b': ['x', 'y'], 'p': 'probe.txt'} | {n: 'sh:' + n for n in SHADOW_NAMES + SHADOW_SAFE},
    'shadowfn': lambda: SB | {'a': 'x', 'b': ['x', 'y'], 'p': 'probe.txt'} | dict(FAKES),
    'const': lambda: SB | {'a': 'x', 'b': ['x', 'y'], 'len': 'shadow', 'type': 'shadowtype'},
    'obj': lambda: SB | {'a': 'x', 'b': ['x', 'y'], 'd': {'k': 'v'}, 't': ('z',)} | _mkobj(),
    'fixed': lambda: {k: v for k, v in SB.items() if k not in DANGEROUS} | {'a': 'x', 'b': ['x', 'y']},
    'empty': lambda: {},
    'data': lambda: {'a': 'x', 'n': 3, 'abs': 'data'},
    'dunderkey': lambda: SB | {'a': 'x', '__x': 1},
    'lambda': lambda: SB | {'a': 'x', 'f': (lambda y: y)},
    'mismatch': lambda: SB | {'a': 'x', 'g': _f},
    'alias': lambda: SB | {'a': 'x', 'abs': _f},
    'samefn': lambda: SB | {'a': 'x', '_f': _f},
    'exc': lambda: SB | {'a': 'x', 'e': ['y', ValueError]},
    'excinst': lambda: SB | {'a': ValueError('v')},
    'partial': lambda: SB | {'a': 'x', 'p': functools.partial(_f, 1)},
}

def has_exc(obj, seen):
    # oracle for scan_for_exceptions
    if id(obj) in seen:
        return False
    if isinstance(obj, type) and issubclass(obj, BaseException):
        return True
    if isinstance(obj, BaseException):
        return True
    if isinstance(obj, (Mapping, Iterable)):
        seen.add(id(obj))
        try:
            items = obj.values() if isinstance(obj, Mapping) else obj
            return any(has_exc(x, seen) for x in items)
        finally:
            seen.discard(id(obj))
    return False

def ctxinfo(ctx):
    out = []
    for k, v in ctx.items():
        rn = getattr(v, '__name__', None)
        cap = k if (k in vars(builtins) and vars(builtins)[k] is v) else None
        if cap is None and callable(v):
            for bk, bv in vars(builtins).items():
                if bv is v:
                    cap = bk
        out.append([k, bool(callable(v)), rn == '<lambda>', rn if (callable(v) and rn) else None,
                    has_exc(v, set()), cap])
    return out

def short(v):
    try:
        r = repr(v)
    except BaseException as e:
        r = '<repr raises %s>' % type(e).__name__
    return [type(v).__name__, r[:200]]

def saferepr(v):
    try:
        return repr(v)[:120]
    except BaseException as e:
        return '<repr raises %s>' % type(e).__name__

FUNC_DUNDERS = ('__defaults__', '__kwdefaults__', '__name__', '__qualname__', '__doc__', '__module__', '__annotations__')
VB = vars(builtins)
IMMUTABLE = (str, int, float, bool, bytes, type(None), complex)

def reachable(ctx):
    # the OBJECTS reachable from the context before the evaluation (a walrus may rebind a key: that is not a write)
    objs, seen = [], set()
    def walk(key, v, depth):
        if type(v) in IMMUTABLE or id(v) in seen or depth > 3:
            return
        seen.add(id(v))
        objs.append((key, v))
        dct = getattr(v, '__dict__', None)
        if isinstance(dct, dict) and not isinstance(v, type):
            for x in list(dct.values()):
                walk(key, x, depth + 1)
        if isinstance(v, dict):
            for x in list(v.values()):
                walk(key, x, depth + 1)
        elif isinstance(v, (list, tuple, set, frozenset)):
            for x in list(v):
                walk(key, x, depth + 1)
    for k, v in list(ctx.items()):
        if not (k in VB and VB[k] is v):
            walk(k, v, 0)
    return objs

def own_state(v):
    # dun: the state behind dunder attributes (class, identity of __dict__, dunder entries of __dict__, function internals);
    # pla: the ordinary state (attributes, items)
    dun, pla = ['class@%d' % id(type(v))], []
    try:
        dct = getattr(v, '__dict__', None)
        if isinstance(dct, dict) and not isinstance(v, type):
            dun.append('dict@%d' % id(dct))
            for k in sorted(dct, key=str):
                (dun if isinstance(k, str) and k.startswith('__') else pla).append('.%s=%s' % (k, saferepr(dct[k])))
        if isinstance(v, type(saferepr)):
            dun.extend('%s=%s' % (n, saferepr(getattr(v, n, None))) for n in FUNC_DUNDERS)
            dun.append('code@%d' % id(v.__code__))
        if isinstance(v, dict):
            pla.append(saferepr(sorted(saferepr(i) for i in v.items())))
        elif isinstance(v, (list, tuple, set, frozenset)):
            pla.append(saferepr(v))
    except BaseException as e:
        dun.append('state raises ' + type(e).__name__)
    return dun, pla

def ctx_state(ctx, objs=None):
    if objs is None:
        objs = reachable(ctx)
    return objs, [own_state(v) for _, v in objs]

def state_diff(res, st0, ctx):
    # which context entries had their dunder state / ordinary state written by the evaluation
    global EVENTS
    saved, EVENTS = EVENTS, None
    try:
        objs, before = st0
        _, after = ctx_state(ctx, objs)
        dw = sorted({k for (k, _), x, y in zip(objs, before, after) if x[0] != y[0]})
        pw = sorted({k for (k, _), x, y in zip(objs, before, after) if x[1] != y[1]})
        if dw:
            res['dunder_write'] = dw
            res['dunder_diff'] = [z for x, y in zip(before, after) for z in sorted(set(x[0]) ^ set(y[0]))][:8]
        if pw:
            res['plain_write'] = pw
    finally:
        EVENTS = saved

def alarm(_s, _f):
    raise Hang('job timeout')
signal.signal(signal.SIGALRM, alarm)

def canon(sh):
    return [sh[0], re.sub(r'0x[0-9a-fA-F]+', '0x', sh[1])]

def reference(expr, ctx):
    """the semantics the checker assumes: ONE namespace = the context, at every scope depth, nothing else reachable
    (the expression was accepted by the checker of the tree under test; audit recording is off)"""
    global EVENTS
    saved, EVENTS = EVENTS, None
    ns = dict(ctx)
    ns['__builtins__'] = {}
    signal.alarm(5)
    try:
        return canon(short(eval(expr, ns, ns)))
    except Hang:
        return None
    except BaseException as e:
        return ['raises', type(e).__name__]
    finally:
        signal.alarm(0)
        EVENTS = saved

def run_direct(job):
    global EVENTS
    ctx = CONTEXTS[job['ctx']]()
    expr = job['expr']
    res = {}
    try:
        res['safe'] = bool(safeeval.is_eval_safe(expr, ctx))
    except BaseException as e:
        res['safe'] = 'raises:' + type(e).__name__
    if not job.get('eval'):
        return res
    st0 = ctx_state(ctx)
    EVENTS = []
    signal.alarm(5)
    try:
        v = safeeval.safe_eval(expr, ctx)
        res['outcome'] = 'value'
        res['value'] = short(v)
        signal.alarm(0)
        state_diff(res, st0, ctx)
        st0 = None
        res['ref'] = reference(expr, CONTEXTS[job['ctx']]())
    except Hang:
        res['outcome'] = 'timeout'
    except BaseException as e:
        res['outcome'] = 'raises:' + type(e).__name__
        res['detail'] = str(e)[:160]
    finally:
        signal.alarm(0)
        res['events'] = EVENTS
        EVENTS = None
        if st0 is not None:
            state_diff(res, st0, ctx)
    return res

SUBRULE = "\n pair = k:/\\w+/ '=' v:/\\w+/ ;"
NMODELS = [0]
def grammar_model(alert, sub=False):
    # a fresh model per job: tatsu.compile caches by (name, grammar) and a parsed model keeps state between parses
    NMODELS[0] += 1
    pp = ' p:pair' if sub else ''
    g = ("start = a:'x'%s ^`0` b:'y' $ ;" % pp) if alert else ("start = a:'x'%s b:`0` $ ;" % pp)
    return tatsu.compile(g + (SUBRULE if sub else ''), name='C17m%d' % NMODELS[0])

def find_nodes(model, cls):
    from tatsu.peg import basic
    found = []
    seen = set()
    def walk(o):
        if id(o) in seen:
            return
        seen.add(id(o))
        if isinstance(o, getattr(basic, cls)) and type(o).__name__ == cls:
            found.append(o)
        if isinstance(o, (list, tuple)):
            for x in o:
                walk(x)
        elif hasattr(o, '__dict__'):
            for x in vars(o).values():
                walk(x)
    walk(model)
    return found

REAL_LITERAL_EVAL = ast.literal_eval
def literal_recorder(trace):
    # installed as ast.literal_eval for the time of a parse: the engine reaches literal_eval through the ast module
    # (under whatever name it imported it, directly or through a helper of its own)
    def literal_eval(s, *a, **k):
        try:
            v = REAL_LITERAL_EVAL(s, *a, **k)
        except (ValueError, SyntaxError):
            trace.append(['lit', s, None])
            raise
        except BaseException as e:
            trace.append(['lit', s, 'raises:' + type(e).__name__])
            raise
        trace.append(['lit', s, short(v) if not isinstance(v, str) else ['str', v]])
        return v
    return literal_eval

def run_parse(job):
    """through the parser.  via='text': the literal is written in the grammar; via='patch': the literal of the
    Constant/Alert node of a compiled model is replaced (any text, no quoting rules)."""
    global EVENTS
    alert = bool(job.get('alert'))
    literal = job['literal']
    res = {}
    trace = []
    saved = (engine.trim, None, engine.is_eval_safe, engine.safe_eval)
    ntrim = [0]
    def trim(s, *a, **k):
        ntrim[0] += 1
        if ntrim[0] > 60:
            raise Hang('loop')
        r = saved[0](s, *a, **k)
        trace.append(['trim', s, r])
        return r
    def is_eval_safe(e, c):
        if job.get('keys') and all(k in c and c[k] == 'k' for k in job['keys']):
            res['keys_in_context'] = True
        r = saved[2](e, c)
        trace.append(['safe', e, bool(r)])
        if job.get('model'):
            # S1 through the parser: the verdict on the context the engine really built (sub-ASTs, parse information)
            global EVENTS
            ev, EVENTS = EVENTS, None
            try:
                ci = ctxinfo(c)
            finally:
                EVENTS = ev
            infos = res.setdefault('ctxinfos', [])
            if ci not in infos:
                infos.append(ci)
            res.setdefault('checks', []).append([e, bool(r), infos.index(ci)])
        return r
    def safe_eval(e, c):
        try:
            c0 = copy.deepcopy(c)
        except BaseException:
            c0 = None
        st0 = ctx_state(c)
        try:
            try:
                v = saved[3](e, c)
            finally:
                sd = {}
                state_diff(sd, st0, c)
                if sd.get('dunder_write'):
                    res.setdefault('dunder_write', []).append([e, sd['dunder_write'], sd['dunder_diff']])
                if sd.get('plain_write'):
                    res['plain_write'] = True
            if c0 is not None:
                signal.alarm(0)
                ref = reference(e, c0)
                signal.alarm(20)
                if ref is not None and ref != canon(short(v)):
                    res.setdefault('refdiff', []).append([e, canon(short(v)), ref])
        except Hang:
            raise
        except BaseException as ex:
            trace.append(['eval', e, 'raises:' + type(ex).__name__])
            raise
        trace.append(['eval', e, ['str', v] if isinstance(v, str) else short(v)])
        return v
    try:
        if job.get('via') == 'text':
            tick = '```' if ('`' not in literal and '\n' in literal) else '`'
            # keys: further AST keys (spelled like builtins) bound before the constant, each to the text 'k'
            keys = job.get('keys') or []
            kg = ''.join(" %s:'k'" % k for k in keys)
            if job.get('sub'):
                # p: a sub-AST (an object with attributes, reachable through a name bound in the current AST)
                kg = ' p:pair' + kg
            g = ("start = a:'x'%s %s%s%s%s b:'y' $ ;" % (kg, '^' * int(job.get('level') or 1), tick, literal, tick)) if alert else \
                ("start = a:'x'%s b:%s%s%s $ ;" % (kg, tick, literal, tick))
            if job.get('sub'):
                g += SUBRULE
            NMODELS[0] += 1
            model = tatsu.compile(g, name='C17t%d' % NMODELS[0])
            text = 'x' + (' k=v' if job.get('sub') else '') + ' k' * len(keys) + (' y' if alert else '')
            nodes = find_nodes(model, 'Alert' if alert else 'Constant')
            res['grammar_literal'] = nodes[0].literal if nodes else None
        else:
            model = grammar_model(alert, bool(job.get('sub')))
            node = find_nodes(model, 'Alert' if alert else 'Constant')[0]
            node.literal = literal
            text = 'x' + (' k=v' if job.get('sub') else '') + (' y' if alert else '')
    except BaseException as e:
        res['outcome'] = 'grammar-rejected:' + type(e).__name__
        return res
    EVENTS = []
    engine.trim, engine.is_eval_safe, engine.safe_eval = trim, is_eval_safe, safe_eval
    ast.literal_eval = literal_recorder(trace)
    signal.alarm(20)
    try:
        # an alert is observable only in the parse information of the result: parseinfo=True, read parseinfo.alerts
        r = model.parse(text, parseinfo=True) if alert else model.parse(text)
        res['outcome'] = 'value'
        res['ast_keys'] = sorted(r) if hasattr(r, 'keys') else None
        if alert:
            res['value'] = ['alert-ok', repr(dict(r))[:200]]
            pi = getattr(r, 'parseinfo', None)
            al = getattr(pi, 'alerts', None)
            if al is not None:
                res['alerts'] = [[a.level, ['str', a.message] if isinstance(a.message, str) else short(a.message)] for a in al]
        else:
            v = r['b']
            res['value'] = ['str', v] if isinstance(v, str) else short(v)
    except Hang as e:
        res['outcome'] = 'hang'
    except FailedParse as e:
        res['outcome'] = 'failed-semantics' if 'Error evaluating constant' in str(e) else 'failed-parse'
        res['detail'] = str(e)[:160]
    except FailedSemantics as e:
        res['outcome'] = 'failed-semantics'
    except BaseException as e:
        res['outcome'] = 'raises:' + type(e).__name__
        res['detail'] = str(e)[:160]
    finally:
        signal.alarm(0)
        engine.trim, engine.is_eval_safe, engine.safe_eval = saved[0], saved[2], saved[3]
        ast.literal_eval = REAL_LITERAL_EVAL
        res['events'] = EVENTS
        EVENTS = None
    res['trace'] = trace
    return res

def _semfn(name):
    def fn(*args):
        return name + ':' + ':'.join(str(x) for x in args)
    fn.__name__ = name
    fn.__qualname__ = name
    return fn

class SeqSemantics:
    """semantics whose safe_context() hands out ONE persistent dict (as a user class caching it would)"""
    def __init__(self, names):
        self.names = list(names)
        self.fns = {n: _semfn(n) for n in names}
        self.d = dict(self.fns)
    def safe_context(self):
        return self.d

def scribble(v, depth=0):
    # what a caller may do with the result of a parse: edit the lists / dicts / sets it finds in it
    if depth > 5:
        return
    if isinstance(v, Mapping):
        for x in list(v.values()):
            scribble(x, depth + 1)
            if type(x) is list:
                x.append('#edited-by-the-caller')
            elif type(x) is dict:
                x['#edited-by-the-caller'] = 1
            elif type(x) is set:
                x.add('#edited-by-the-caller')
    elif isinstance(v, (list, tuple)):
        for x in v:
            scribble(x, depth + 1)

def run_seq(job):
    """a SEQUENCE of compiles / parses in this one interpreter (state may be carried from step to step).  Per step:
    every call of ParserEngine.constant (literal, keys of the engine's current AST, difference between the context handed
    to the evaluator and the pristine builtins, result), the difference between safe_builtins() and the pristine builtins
    afterwards, the state of the persistent safe_context() dicts, audit events."""
    global EVENTS
    PR = {n: vars(builtins)[n] for n in job['pristine']}
    models, sems, out = {}, {}, []
    cur = [None]
    calls = [None]
    orig_constant = engine.ParserEngine.constant
    saved = (engine.is_eval_safe, engine.safe_eval)

    def ctxdiff(c):
        if not c:
            return {'empty': True}
        return {'extra': sorted(k for k in c if k not in PR or c[k] is not PR[k]),
                'missing': sorted(k for k in PR if k not in c)}

    def note(c):
        if cur[0] is not None:
            try:
                d = ctxdiff(c)
            except BaseException as e:
                d = {'error': type(e).__name__}
            if d not in cur[0]['ctx']:
                cur[0]['ctx'].append(d)

    def is_eval_safe(e, c):
        note(c)
        return saved[0](e, c)

    def safe_eval(e, c):
        note(c)
        return saved[1](e, c)

    def constant(self, literal, *a, **k):
        if calls[0] is None or cur[0] is not None:
            return orig_constant(self, literal, *a, **k)
        rec = {'lit': literal if isinstance(literal, str) else short(literal),
               'ast': sorted(self.ast) if isinstance(self.ast, engine.AST) else None, 'ctx': []}
        calls[0].append(rec)
        cur[0] = rec
        try:
            v = orig_constant(self, literal, *a, **k)
        except Hang:
            raise
        except BaseException as e:
            rec['res'] = 'raises:' + type(e).__name__
            raise
        finally:
            cur[0] = None
        rec['res'] = ['str', v] if isinstance(v, str) else canon(short(v))
        return v

    # the message an alert records (the only place where the value of an alert expression is observable)
    from tatsu.contexts import state as tstate
    orig_salert = tstate.ParseStateStack.alert
    alerts = [None]

    def salert(self, *a, **k):
        al = orig_salert(self, *a, **k)
        if alerts[0] is not None:
            m = getattr(al, 'message', None)
            alerts[0].append(['str', m] if isinstance(m, str) else canon(short(m)))
        return al

    orig_alias = engine.ParserEngine._constant
    engine.ParserEngine.constant = engine.ParserEngine._constant = constant
    engine.is_eval_safe, engine.safe_eval = is_eval_safe, safe_eval
    tstate.ParseStateStack.alert = salert
    try:
        for st in job['steps']:
            res = {'id': st['id']}
            out.append(res)
            try:
                if st['gid'] not in models:
                    if st.get('asmodel'):
                        # the model gets a model-builder semantics of its own, which lives as long as the model
                        models[st['gid']] = tatsu.compile(st['g'], name=st['name'], asmodel=True)
                    else:
                        models[st['gid']] = tatsu.compile(st['g'], name=st['name'])
                model = models[st['gid']]
            except BaseException as e:
                res['outcome'] = 'grammar-rejected:' + type(e).__name__
                res['detail'] = str(e)[:200]
                continue
            sem = None
            pkw = {}
            if st.get('sem') is not None:
                sid = st['sem']['sid']
                kind = st['sem'].get('kind', 'user')
                if kind == 'asmodel-parse':
                    pkw = {'asmodel': True}         # the engine makes a model-builder semantics for this one parse
                elif kind == 'mbs-fresh':
                    pkw = {'semantics': ModelBuilderSemantics()}
                else:
                    if sid not in sems:
                        if kind == 'user':
                            sems[sid] = SeqSemantics(st['sem']['names'])
                        elif kind == 'mbs':
                            sems[sid] = ModelBuilderSemantics()
                        elif kind == 'mbs-ctors':
                            # user constructors (plain functions) registered with the builder under their __name__
                            sems[sid] = ModelBuilderSemantics(constructors=[_semfn(n) for n in st['sem']['ctors']])
                        elif kind == 'astsem':
                            sems[sid] = ASTSemantics()
                        else:
                            raise RuntimeError('unknown semantics kind ' + kind)
                    sem = sems[sid]
                    pkw = {'semantics': sem}
            calls[0] = res['calls'] = []
            alerts[0] = res['alerts'] = []
            EVENTS = []
            signal.alarm(20)
            try:
                parsed = model.parse(st['text'], **pkw)
                res['outcome'] = 'value'
                scribble(parsed)
            except Hang:
                res['outcome'] = 'hang'
            except FailedParse as e:
                res['outcome'] = 'failed-semantics' if 'Error evaluating constant' in str(e) else 'failed-parse'
                res['detail'] = str(e)[:160]
            except FailedSemantics as e:
                res['outcome'] = 'failed-semantics'
                res['detail'] = str(e)[:160]
            except BaseException as e:
                res['outcome'] = 'raises:' + type(e).__name__
                res['detail'] = str(e)[:160]
            finally:
                signal.alarm(0)
                res['events'] = EVENTS
                EVENTS = None
                calls[0] = None
                alerts[0] = None
                cur[0] = None
            now = safeeval.safe_builtins()
            sb = {'added': sorted(k for k in now if k not in PR), 'removed': sorted(k for k in PR if k not in now),
                  'replaced': sorted(k for k in PR if k in now and now[k] is not PR[k])}
            if any(sb.values()):
                res['sb'] = sb
            bad = sorted(s for s, o in sems.items() if isinstance(o, SeqSemantics)
                         if set(o.d) != set(o.fns) or any(o.d[n] is not o.fns[n] for n in o.fns))
            if bad:
                res['sem_mutated'] = {str(s): sorted(set(sems[s].d) ^ set(sems[s].fns)) or
                                      sorted(n for n in sems[s].fns if sems[s].d[n] is not sems[s].fns[n]) for s in bad}
    finally:
        engine.ParserEngine.constant = orig_constant
        engine.ParserEngine._constant = orig_alias
        engine.is_eval_safe, engine.safe_eval = saved
        tstate.ParseStateStack.alert = orig_salert
    return {'steps': out}

DANGEROUS = json.load(open(jobs_path))['dangerous']
jobs = json.load(open(jobs_path))['jobs']
out = []
for job in jobs:
    k = job['kind']
    try:
        if k == 'info':
            out.append({'safe_builtins': sorted(SB), 'contexts': {n: ctxinfo(f()) for n, f in CONTEXTS.items()},
                        'version': list(sys.version_info[:3]), 'nbuiltins': len(vars(builtins))})
        elif k == 'direct':
            out.append(run_direct(job))
        elif k == 'parse':
            out.append(run_parse(job))
        elif k == 'seq':
            out.append(run_seq(job))
        else:
            out.append({'error': 'unknown job'})
    except BaseException as e:
        out.append({'error': 'harness:' + type(e).__name__ + ':' + str(e)[:200]})
json.dump(out, open(out_path, 'w'))
'''


def run_child(jobs: list[dict], scratch: Path, timeout=1500) -> list[dict]:
    jp = scratch / 'jobs.json'
    op = scratch / 'out.json'
    cp = scratch / 'child.py'
    work = scratch / 'work'
    work.mkdir(exist_ok=True)
    jp.write_text(json.dumps({'jobs': jobs, 'dangerous': DANGEROUS}))
    cp.write_text(CHILD)
    if op.exists():
        op.unlink()
    env = vlib.repo_python_env()
    p = subprocess.run(['/venv/bin/python', str(cp), str(jp), str(op), str(work)], stdin=subprocess.DEVNULL,
                       stdout=subprocess.PIPE, stderr=subprocess.PIPE, text=True, env=env, timeout=timeout)
    if not op.exists():
        raise RuntimeError(f'child interpreter failed rc={p.returncode}: {p.stderr[-1500:]}')
    out = json.loads(op.read_text())
    if len(out) != len(jobs):
        raise RuntimeError('child: reply count mismatch')
    return out


# ----------------------------------------------------------------------------- ast -> rose tree
def to_tree(node):
    """ast node -> nested python lists in the S-expression grammar of the driver."""
    if isinstance(node, ast.Name):
        return [Atom('n'), node.id, isinstance(node.ctx, ast.Load)]
    if isinstance(node, ast.Attribute):
        return [Atom('a'), node.attr, to_tree(node.value)]
    if isinstance(node, ast.Call):
        return [Atom('c'), to_tree(node.func), [to_tree(x) for x in node.args], [to_tree(x) for x in node.keywords]]
    kids = [to_tree(c) for c in ast.iter_child_nodes(node)
            if not isinstance(c, (ast.expr_context, ast.operator, ast.unaryop, ast.boolop, ast.cmpop))]
    if isinstance(node, (ast.Raise, ast.Try, ast.ExceptHandler)):
        return [Atom('f'), kids]
    return [Atom('o'), kids]


def parse_tree(expr: str):
    try:
        return to_tree(ast.parse(expr, mode='eval'))
    except (ValueError, SyntaxError):
        return None


def tree_sx(t) -> str:
    return 'none' if t is None else '(some ' + sx(t) + ')'


def ctx_sx(info) -> str:
    rows = []
    for k, c, l, r, h, cap in info:
        rows.append('(' + ' '.join([sx(k), sx(bool(c)), sx(bool(l)), 'none' if r is None else '(some ' + sx(r) + ')',
                                    sx(bool(h)), 'none' if cap is None else '(some ' + sx(cap) + ')']) + ')')
    return '(' + ' '.join(rows) + ')'


def canon(sh):
    import re
    return [sh[0], re.sub(r'0x[0-9a-fA-F]+', '0x', sh[1])]


def scope_kinds(expr: str) -> list[str]:
    try:
        t = ast.parse(expr, mode='eval')
    except (ValueError, SyntaxError):
        return ['unparsable']
    k = sorted({type(n).__name__ for n in ast.walk(t)
                if isinstance(n, (ast.Lambda, ast.GeneratorExp, ast.ListComp, ast.SetComp, ast.DictComp))})
    return k or ['toplevel']


def attrs_of(expr: str) -> list[str]:
    try:
        t = ast.parse(expr, mode='eval')
    except (ValueError, SyntaxError):
        return []
    return [n.attr for n in ast.walk(t) if isinstance(n, ast.Attribute)]


# ----------------------------------------------------------------------------- generators
ATTR_POOL = ['upper', 'x', '_x', '__x', '__class__', '__', '___', '_', 'x__', '__init__', '__globals__', '__self__',
             'gi_frame', 'f_back', 'f_builtins', 'f_globals', 'format', 'real', 'append', 'copy', '__dict__', 'items',
             'gi_code', 'f_locals', 'format_map', '__call__', '__mro__', '__subclasses__', 'count', 'lower']

ARGS = ['', 'a', "'x'", '1', '[1, 2]', 'a, a', "'1+1'", "a, 'x'", '*b', 'a, k=1', '**{}']


def nested_templates(n: str) -> list[str]:
    """the name n used free inside a NESTED scope (lambda called back by a safe builtin, generator expression, 3.12-inlined
    and set/dict comprehensions, default values, nesting two deep) whose own variables are context keys (a, b, p), so that
    the checker accepts whenever n is a context key.  eval() resolves such names through globals -> builtins, not through the
    locals the checker looked at: the value must still be the context's (or the evaluation fails)."""
    return [f'next({n} for a in b)', f'next({n}(a) for a in b)', f'next({n}(p) for p in [p])', f'next({n}() for a in b)',
            f"next({n}('1+1') for a in b)", f'next({n}(p).read() for p in [p])', f'any({n} for a in b)',
            f'sum(1 for a in b if {n})', f'max(b, key=lambda a: {n}(a))', f'max([p], key=lambda p: len({n}(p).read()))',
            f'sorted(b, key=lambda a: {n})', f'min(b, key=lambda a, b={n}: b)', f'sorted(b, key=lambda a: {n}.upper())',
            f'[{n} for a in b]', f'[{n}(a) for a in b]', f'{{a: {n} for a in b}}', f'{{{n} for a in b}}',
            f'next(next({n} for a in b) for a in b)', f'max(b, key=lambda a: max(b, key=lambda a: {n}(a)))',
            f"next(f'{{{n}}}' for a in b)", f'next(iter(sorted(b, key=lambda a: {n}(a, a))))',
            f'next(a for a in b if {n}(a))', f'next({n} for {n} in b)', f'max(b, key=lambda {n}: {n})',
            f'max(b, key=lambda a: (lambda b: {n})(a))', f'next(a.{n} for a in b)', f'next(({n}, a) for a in b)[0]']


def name_templates(n: str, scratch: str) -> list[str]:
    out = [n, f'{n}()', f'{n}(a)', f"{n}('x')", f'{n}(1)', f'{n}([1, 2])', f'{n}(a, a)', f"{n}('1+1')",
           f'a.{n}', f'{n}.real', f'a.{n}()', f'({n})(a)', f'[{n}][0](a)', f'(lambda: {n})()',
           f'max([a], key={n})', f"f'{{{n}}}'", f"f'{{{n}(a)}}'", f'[{n} for {n} in b]', f'({n} := 1)',
           f'lambda {n}: {n}', f'sorted(b, key=lambda {n}: {n})', f'{n}(*b)', f'{n}(a, k=1)', f'b[0].{n}',
           f'next(iter({n}, 1))', f'[x for x in b if {n}]', f'{n} if a else b', f'{n}.__call__(a)',
           f'{n}.__self__', f'(lambda f={n}: f)', f'{n}(a).{n}', f'{{a: {n}}}', f'-{n}', f'{n}[0]']
    special = {
        'open': [f"open('/etc/hostname').read()", f"open('{scratch}/created.txt', 'w').close()"],
        'eval': ["eval('1+1')", "eval('a')"],
        'exec': ["exec('x = 1')"],
        'compile': ["compile('1', 's', 'eval')"],
        'input': ['input()'],
        'exit': ['exit()', 'exit(0)'],
        'quit': ['quit()'],
        'help': ["help('keywords')"],
        'delattr': ["delattr(b, 'x')"],
        'print': ["print('x')"],
        '__import__': ["__import__('os')"],
        'getattr': ["getattr(a, '__class__')"],
        'type': ['type(a)', 'type(a, a)', 'type()', 'type(a, (), {})'],
        'breakpoint': [],
    }
    return out + special.get(n, [])


# attributes written in BINDING positions: the target of a comprehension clause may be an attribute reference, a subscript,
# or a tuple / list / starred pattern containing them, and Python assigns to it on every iteration
TARGET_ATTRS = ['__dict__', '__class__', '__doc__', '__defaults__', '__kwdefaults__', '__frozen__', '__code__', '__name__',
                '__x', '__', 'secret', 'x', '_x', 'x__', 'upper']


def position_templates(A: str, o: str = 'o') -> tuple[list[str], list[str]]:
    """the attribute A of an object bound in the context (o: an instance with a __dict__, greet: a function, d: a dict,
    a: a str, b: a list) in every syntactic position an ast.Attribute can take -> (binding positions, reading positions).
    Binding: target of a list / set / dict comprehension and of a generator expression, inside tuple / list / starred /
    nested patterns, in a second clause, with a condition, inside f-string fields and format specs, inner and outer link of a
    chain, under a subscript target, inside lambdas / defaults / nested comprehensions.  Reading: slices, keyword values,
    star arguments, comparison chains, format specs, dict keys, conditions, walrus values, iterables and conditions of
    comprehensions, call targets."""
    store = [
        f'[0 for {o}.{A} in [d]]', f'{{0 for {o}.{A} in [d]}}', f'{{0: 0 for {o}.{A} in [d]}}', f'sorted(0 for {o}.{A} in [d])',
        f'next(0 for {o}.{A} in [d])', f'[0 for ({o}.secret, {o}.{A}) in [b]]', f'[0 for [{o}.secret, *{o}.{A}] in [b]]',
        f'[0 for *{o}.{A}, a in [b]]', f'[0 for a in b for {o}.{A} in [d]]', f'[0 for {o}.{A} in [d] if a]',
        f"f'{{[0 for {o}.{A} in [d]]}}'", f"f'{{a:{{[0 for {o}.{A} in [d]]}}}}'", f'[0 for {o}.{A}.x in [d]]',
        f'[0 for {o}.x.{A} in [d]]', f'[0 for greet.{A} in [t]]', f'[0 for d[{o}.{A}] in b]', f'[0 for {o}.{A}[0] in b]',
        f'max(b, key=lambda a: [0 for {o}.{A} in [d]])', f'[[0 for {o}.{A} in [d]] for a in b]',
        f'[0 for a in [0 for {o}.{A} in [d]]]', f'(lambda a=[0 for {o}.{A} in [d]]: a)', f'[0 for (({o}.{A},),) in [[[d]]]]',
        f'[({o}.secret, 0) for {o}.{A} in [d]][0]', f'[0 for a.{A} in b]', f'[0 for b[0].{A} in [d]]',
        f'[0 for greet.{A} in [d]]', f'{{a: 0 for a, {o}.{A} in [b]}}',
    ]
    load = [
        f'{o}.{A}', f'b[{o}.{A}:]', f'greet(name={o}.{A})', f'[*{o}.{A}]', f'{{**{o}.{A}}}', f'a < {o}.{A} < a',
        f"f'{{a!r:{{{o}.{A}}}}}'", f'(a, {o}.{A})[1]', f'{{{o}.{A}: 1}}', f'not {o}.{A}', f'a if {o}.{A} else a',
        f'(lambda: {o}.{A})', f'(zq := {o}.{A})', f'[a for a in {o}.{A}]', f'[a for a in b if {o}.{A}]', f'greet(*{o}.{A})',
        f'greet(**{o}.{A})', f'{o}.{A}(a)', f'{o}.{A}.x', f'greet.{A}', f'-{o}.{A}', f'b[{o}.{A}]', f'{o}.{A} @ a',
        f'sorted(b, key=lambda a: {o}.{A})', f'next(a for a in b if {o}.{A})',
    ]
    return store, load


def target_kinds(expr: str) -> list[str]:
    """kinds of the non-name nodes in binding (Store / Del) position"""
    try:
        t = ast.parse(expr, mode='eval')
    except (ValueError, SyntaxError):
        return []
    return sorted({type(n).__name__ for n in ast.walk(t)
                   if isinstance(n, (ast.Attribute, ast.Subscript)) and not isinstance(n.ctx, ast.Load)})


def dunder_position(expr: str, blocked=()) -> str:
    """where the expression spells a dunder / blocked attribute: as a binding target, as a value, or nowhere"""
    try:
        t = ast.parse(expr, mode='eval')
    except (ValueError, SyntaxError):
        return 'unparsable'
    k = sorted({'read' if isinstance(n.ctx, ast.Load) else 'target' for n in ast.walk(t)
                if isinstance(n, ast.Attribute) and (n.attr.startswith('__') or n.attr in blocked)})
    return '+'.join(k) or 'no-dunder-syntax'


FIXED_EXPRS = [
    '', ' ', '1', "'x'", 'None', 'a', 'b', 'nope', 'a +', '(', 'a.upper()', 'a.upper().lower()', 'a.__class__',
    'a.__class__.__mro__', 'a._x', 'a.__x', 'a.x__', 'a.__', 'a.___', 'a._', "a.upper().__len__()", 'b[0]', 'b[0].upper()',
    'b[0]()', 'a()()', 'a.upper()()', '(lambda: 1)()', '(lambda x: x)(a)', '[x for x in b]', '[a for a in b]',
    '{x: x for x in b}', '{x for x in b}', '(x for x in b)', '(a for a in b).gi_frame', '(a for a in b).gi_frame.f_back',
    '(a for a in b).gi_frame.f_builtins', '(a for a in b).gi_code.co_consts', "'{0.__class__}'.format(a)",
    "'{}'.format(a)", "'{x.__class__}'.format_map({'x': a})", "f'{a}'", "f'{a!r:>{len(a)}}'", "f'{a.__class__}'",
    "f'{nope}'", "f'{f\"{a.__class__}\"}'", "f'{f\"{a}\"}'", '(x := a)', '(a := 1)', '[y := a, y]', 'a if b else nope',
    'a and nope', 'abs(-1)', 'abs', 'abs.__self__', 'abs.__self__.open', 'max(b, key=len)', 'max(b, key=lambda a: a)',
    'sorted(b, key=lambda a, abs=abs: abs(1))', '*a', 'a, b', '[*b]', 'len(a)', 'len', 'type(a)', 'type(a, a)', 'type()',
    'type', 'yield a', 'await a', 'a[__import__]', 'a.b.c.d', 'a.__b.c', 'a.b.__c', 'a.b().__c()', '__x', '__import__',
    '__builtins__', '__name__', '__debug__', 'print(a)', 'repr(a)', 'format(a, "")', 'a.format', 'hash(a)', 'iter(b)',
    'next(iter(b))', "chr(120)", 'ord(a)', 'round(1.5)', 'pow(2, 3)', 'sum([1, 2])', 'divmod(7, 2)', 'callable(a)',
    'a\n', '\na', 'a # c', 'a;b', 'a = 1', 'import os', 'lambda: (yield)', '1 if 1 else 2', 'not a', '-1', 'a < b',
    'a.real.imag', 'True', 'Ellipsis', '...', 'NotImplemented', 'a.ª', 'b[0:1]', 'b[::a]', '{**{}}', 'a @ b',
]

ESCAPE_BOX = ("max([[]], key=lambda abs, next=next: (abs.append((abs[0].gi_frame.f_back.f_back.f_back.f_builtins "
              "for all in [1])), abs.append(next(abs[0]))) and 0)[1]")
ESCAPES = [
    # a running generator reads its own frame: gi_frame.f_back... reaches safe_eval's frame and the real builtins
    f"max(['/etc/hostname'], key={ESCAPE_BOX}.get('open'))",
    f"sorted(['1+1'], key={ESCAPE_BOX}.get('eval'))",
    ESCAPE_BOX + ".get('open')",
    # variations that must stay harmless
    "max([[]], key=lambda abs: abs)",
    "(a for a in b).gi_frame.f_back",
    # str.format field lookups reach dunder attributes the checker cannot see
    "'{0.__class__}'.format(a)",
    "'{0.__class__.__mro__}'.format(a)",
    "'{x.__class__.__name__}'.format_map({'x': a})",
    "'{0.__self__}'.format(abs)",
    "'{0.__self__.__dict__}'.format(abs)",
    "format(a, '>3')", "'{}'.format(a)", "'{0}'.format(a)", "'{0[0]}'.format(b)",
    # f-string nesting, comprehensions, lambdas capturing names
    "f'{f\"{a}\"}'", "f'{(lambda a: a)}'", "[abs(x) for x in [1, -1]]", "[abs for abs in b]",
    "sorted(b, key=lambda a, abs=abs: abs(1))", "max(b, key=lambda a: a.upper())",
    "[(lambda: a) for a in b]", "next(iter(abs, 1))", "(lambda: nope)", "[nope for a in []]",
    "max([a], key=lambda open: open)", "sorted([1], key=lambda a: len)",
]


def gen_target(rng, names, sub, depth=2):
    """a binding target: a name, an attribute reference, a subscript, a tuple / list / starred pattern of them"""
    r = rng.random()
    if depth <= 0 or r < 0.5:
        return rng.choice(names)
    if r < 0.78:
        base = rng.choice(names) if rng.random() < 0.7 else f'{rng.choice(names)}.{rng.choice(ATTR_POOL)}'
        return f'{base}.{rng.choice(ATTR_POOL)}'
    if r < 0.86:
        return f'{rng.choice(names)}[{sub()}]'
    t1, t2 = gen_target(rng, names, sub, depth - 1), gen_target(rng, names, sub, depth - 1)
    return rng.choice(['({}, {})', '[{}, {}]', '({}, *{})', '[*{}, {}]']).format(t1, t2)


def gen_random_expr(rng, depth, names, nested=0.0):
    r = rng.random()
    if depth <= 0 or r < 0.25:
        k = rng.random()
        if k < 0.6:
            return rng.choice(names)
        return rng.choice(["'x'", '1', '0', '[1, 2]', "'{}'", 'None', "'{0.__class__}'", '()'])
    sub = lambda: gen_random_expr(rng, depth - 1, names, nested)
    if nested and rng.random() < nested:
        # a nested scope that IS entered: its variables are names of the pool, its body is called back / iterated
        v = rng.choice(names)
        body = sub()
        return rng.choice(['next({b} for {v} in [{s}])', 'max([{s}], key=lambda {v}: {b})', 'sorted([{s}], key=lambda {v}: {b})',
                           'next({v} for {v} in [{s}] if {b})', 'any({b} for {v} in [{s}])', '[{b} for {v} in [{s}]]',
                           'min([{s}], key=lambda {v}, {w}={w}: {b})', 'next(({b})({v}) for {v} in [{s}])',
                           'next({b} for {t} in [{s}])', '[{b} for {v} in [{s}] for {t} in [{s}]]', '{{0: {b} for {t} in [{s}]}}'
                           ]).format(b=body, v=v, s=sub(), w=rng.choice(names), t=gen_target(rng, names, sub))
    if r < 0.42:
        return f'{sub()}.{rng.choice(ATTR_POOL)}'
    if r < 0.62:
        f = sub() if rng.random() < 0.6 else rng.choice(names)
        return f'{f}({rng.choice(ARGS)})' if rng.random() < 0.5 else f'{f}({sub()})'
    if r < 0.68:
        return f'{sub()}[{sub()}]'
    if r < 0.74:
        return f'({sub()} + {sub()})'
    if r < 0.79:
        p = rng.choice(names)
        return f'(lambda {p}: {sub()})'
    if r < 0.84:
        p = rng.choice(names)
        q = rng.choice(names)
        return f'(lambda {p}, {q}={q}: {sub()})'
    if r < 0.89:
        t = gen_target(rng, names, sub)
        kind = rng.choice(['[{} for {} in {}]', '({} for {} in {})', '{{{} for {} in {}}}', '{{0: {} for {} in {}}}',
                           '[{} for {} in {} if a]', 'sorted({} for {} in {})'])
        e = kind.format(sub(), t, sub())
        if rng.random() < 0.2:
            e = e[:-1] + f' for {gen_target(rng, names, sub)} in {sub()}' + e[-1]
        return e
    if r < 0.93:
        return "f'{" + sub().replace("'", '"') + "}'" if "'" not in sub() else f'({sub()})'
    if r < 0.96:
        return f'({rng.choice(names)} := {sub()})'
    if r < 0.98:
        return f'({sub()} if {sub()} else {sub()})'
    return f'max([{sub()}], key={sub()})'


# ----------------------------------------------------------------------------- S0
def run_filter(chk: Check, mr: ModelRun, info: dict):
    reps = mr.ask(['(safe_names)', '(leaks)', '(excused)', '(dangerous)', '(pinned_leaks)', '(blocked_attrs)'])
    names = lambda r: [] if r == 'nil' else [sx_str(x) for x in r]
    m_safe, m_leaks, m_exc, m_dang, m_pinned, m_blocked = (names(r) for r in reps)
    real = info['safe_builtins']
    ok = sorted(m_safe) == sorted(real)
    if not ok:
        diff = sorted(set(m_safe) ^ set(real))
        chk.violation('corr:safe_builtins:' + '+'.join(diff[:4]), f'safe_builtins() differs from the model on {diff}',
                      {'correspondence': 'S0', 'model_only': sorted(set(m_safe) - set(real)),
                       'impl_only': sorted(set(real) - set(m_safe))})
    chk.obligation('S0:safe_builtins() vs Lib/SafeEval.v over the interpreter table', 'correspondence', ok)
    chk.obligation('S0:dangerous list of the model is the list of the design', 'correspondence', sorted(m_dang) == sorted(DANGEROUS))
    real_leaks = [n for n in DANGEROUS if n in real]
    chk.obligation('S0:leaks of the model = dangerous names kept by the implementation', 'correspondence',
                   sorted(real_leaks) == sorted(m_leaks), f'model {m_leaks} impl {real_leaks}')
    for n in real:
        chk.case('builtin:' + n, nontrivial=True)
        chk.count('filter.kept')
    chk.count('filter.table', info['nbuiltins'])
    for n in real_leaks:
        chk.violation(f'builtin-leak:{n}', f'safe_builtins() keeps the dangerous builtin {n!r}: it is callable from a grammar constant',
                      {'oracle': 'safe_builtins() & dangerous', 'name': n,
                       'replay': f"from tatsu.util.safeeval import safe_builtins; assert {n!r} not in safe_builtins()"})
    stale = sorted(set(m_exc) - set(real_leaks))
    chk.extra['excused_builtins'] = m_exc
    chk.extra['stale_known_findings'] = [f'builtin-leak:{n}' for n in stale]
    chk.extra['checker_blocked_attrs'] = m_blocked
    refl = names(mr.ask(['(reflective_attrs)'])[0])
    chk.extra['reflective_attrs_not_blocked_by_checker'] = sorted(set(refl) - set(m_blocked))
    if set(refl) - set(m_blocked):
        chk.assumptions.append('C17_sandbox is proved for expressions whose reflective attribute names are rejected by the checker; '
                               'not rejected at this tree: ' + ' '.join(sorted(set(refl) - set(m_blocked))) +
                               ' (escapes through them are probed by S2)')
    if m_exc:
        chk.assumptions.append('C17_no_dangerous_builtin is proved up to the names excused by KNOWN_FINDINGS.jsonl: ' + ' '.join(m_exc))
    chk.sample({'safe_builtins': real, 'leaks': real_leaks})
    return set(real_leaks), m_pinned


# ----------------------------------------------------------------------------- S1 + S2
def classify_events(events: list[str]) -> list[str]:
    return [e for e in events if e.startswith(tuple(EXPLAINS)) or e == 'stdin.close']


def explains(ev: str) -> set:
    for k, v in EXPLAINS.items():
        if ev == k or (k.endswith('.') and ev.startswith(k)):
            return v
    return set()


def seen_sig(chk: Check, sig: str) -> bool:
    return sig in chk.known_hits or any(v['signature'] == sig for v in chk.violations)


def shrink_expr(expr: str, bad) -> str:
    """shrink to a sub-expression (by ast) that still is bad"""
    changed = True
    while changed:
        changed = False
        try:
            t = ast.parse(expr, mode='eval')
        except (ValueError, SyntaxError):
            return expr
        subs = []
        for n in ast.walk(t.body):
            if n is t.body or not isinstance(n, ast.expr):
                continue
            try:
                subs.append(ast.unparse(n))
            except Exception:
                pass
        for s in sorted(set(subs), key=len, reverse=True)[:10]:
            if len(s) < len(expr) and bad(s):
                expr = s
                changed = True
                break
    return expr


def run_checker_and_eval(chk: Check, mr: ModelRun, info: dict, scratch: Path, real_leaks: set):
    rng = chk.rng
    all_builtin_names = sorted(set(n for n, *_ in TABLE_ROWS) | {'nope', 'a', 'b', 'type', 'display', '_', '__x'})
    cases: list[tuple[str, str, bool]] = []   # (ctx, expr, evaluate)
    for e in FIXED_EXPRS:
        for c in info['contexts']:
            cases.append((c, e, c in ('const', 'fixed', 'data')))
    for e in ESCAPES:
        cases.append(('const', e, True))
        cases.append(('fixed', e, True))
    for n in all_builtin_names:
        for e in name_templates(n, str(scratch / 'work')):
            cases.append(('const', e, True))
            if rng.random() < 0.25:
                cases.append((rng.choice(['fixed', 'empty', 'data', 'alias', 'lambda', 'exc', 'dunderkey']), e, False))
    # names shadowed by AST keys, used at every scope depth: every builtin name the filter removed is bound to data
    # ('shadow'), or to a same-named harmless function ('shadowfn'); kept builtins in nested scopes ('const', 'fixed')
    shadow_keys = [k for k, *_ in info['contexts']['shadow']]
    shadowfn_keys = [k for k, c, *_ in info['contexts']['shadowfn'] if c and k not in info['safe_builtins']]
    for n in all_builtin_names:
        nt = nested_templates(n)
        if n in shadow_keys and n not in info['safe_builtins']:
            for e in nt:
                cases.append(('shadow', e, True))
            for e in rng.sample(name_templates(n, str(scratch / 'work')), 6):
                cases.append(('shadow', e, True))
        else:
            for e in (nt if n in info['safe_builtins'] else rng.sample(nt, 4)):
                cases.append((rng.choice(['const', 'fixed']), e, True))
            for e in rng.sample(nt, 3):
                cases.append(('shadow', e, True))
        if n in shadowfn_keys:
            for e in nt:
                cases.append(('shadowfn', e, True))
    # every attribute name (harmless, dunder, blocked by the checker) in every syntactic position of an ast.Attribute,
    # binding positions included, on objects that do have writable attributes (context 'obj')
    blocked = list(chk.extra.get('checker_blocked_attrs') or [])
    sweep = list(dict.fromkeys(TARGET_ATTRS + ATTR_POOL + blocked))
    for A in sweep:
        store, load = position_templates(A)
        if chk.quick and A not in TARGET_ATTRS:
            k = 12 if (A.startswith('__') or A in blocked) else 6
            store, load = store[:1] + rng.sample(store[1:], k), rng.sample(load, k // 2)
        for e in store + load:
            cases.append(('obj', e, True))
        for e in rng.sample(store, 2):
            cases.append((rng.choice(['const', 'data', 'shadow', 'alias']), e.replace('o.', 'a.').replace('greet.', 'b.'), True))
    names = ['a', 'b', 'abs', 'len', 'max', 'next', 'iter', 'open', 'eval', 'exec', 'nope', 'type', 'print', 'sorted',
             'getattr', 'exit', 'x', 'format', 'repr', 'input', 'compile', 'help', 'delattr', 'hash', '__import__']
    nrand = 2500 if chk.quick else 40000
    for _ in range(nrand):
        e = gen_random_expr(rng, rng.randint(1, 4), names)
        c = 'const' if rng.random() < 0.6 else rng.choice(list(info['contexts']))
        cases.append((c, e, c in ('const', 'fixed') and rng.random() < (0.5 if chk.quick else 0.3)))
    # random compositions where every name is a key of the shadowing contexts (so most are accepted and evaluated)
    snames = ['a', 'b', 'p', 'abs', 'max', 'next', 'sorted', 'min', 'any', 'print', 'len', 'repr', 'iter'] + \
        [n for n in shadow_keys if n in DANGEROUS or n in ('str', 'list', 'dict', 'int', 'map', 'id', 'dir', 'hasattr')]
    for _ in range(nrand // 3):
        e = gen_random_expr(rng, rng.randint(2, 4), snames, nested=0.45)
        cases.append((rng.choice(['shadow', 'shadow', 'shadowfn', 'const']), e, True))
    # random compositions over the objects with writable attributes
    onames = ['a', 'b', 'o', 'd', 't', 'greet', 'o', 'len', 'max', 'sorted', 'next', 'nope']
    for _ in range(nrand // 4):
        e = gen_random_expr(rng, rng.randint(2, 4), onames, nested=0.3)
        cases.append(('obj', e, True))
    seen = set()
    uniq = []
    for c in cases:
        if (c[0], c[1]) not in seen:
            seen.add((c[0], c[1]))
            uniq.append(c)
    cases = uniq
    jobs = [{'kind': 'direct', 'ctx': c, 'expr': e, 'eval': ev} for c, e, ev in cases]
    replies = run_child(jobs, scratch)
    ctxs = {c: ctx_sx(i) for c, i in info['contexts'].items()}
    trees = [parse_tree(e) for _, e, _ in cases]
    m_check = mr.ask([f'(check {ctxs[c]} {tree_sx(t)})' for (c, e, _), t in zip(cases, trees)])
    ev_idx = [i for i, ((c, e, ev), t) in enumerate(zip(cases, trees)) if ev and t is not None]
    m_events = mr.ask([f'(events {ctxs[cases[i][0]]} {sx(trees[i])})' for i in ev_idx])
    m_events = dict(zip(ev_idx, m_events))
    bad_s1 = 0
    n_acc = 0
    n_ref_bad = 0
    n_dw = 0
    unexplained = 0
    for i, ((c, e, ev), t, rep, mc) in enumerate(zip(cases, trees, replies, m_check)):
        if 'error' in rep:
            raise RuntimeError(f'child error on {e!r}: {rep["error"]}')
        model_safe = (mc == '1')
        real_safe = rep['safe']
        chk.case(f'S1:{c}:{e}', nontrivial=t is not None)
        chk.count('S1.accepted' if real_safe is True else 'S1.rejected')
        chk.count(f'S1.ctx.{c}')
        if real_safe is not model_safe:
            bad_s1 += 1

            def bad(s, c=c):
                r = run_child([{'kind': 'direct', 'ctx': c, 'expr': s}], scratch)[0]['safe']
                m = mr.ask([f'(check {ctxs[c]} {tree_sx(parse_tree(s))})'])[0] == '1'
                return r is not m
            small = shrink_expr(e, bad) if bad_s1 <= 2 else e
            t2 = parse_tree(small)
            shape = 'unparsable' if t2 is None else type(ast.parse(small, mode='eval').body).__name__
            chk.violation(f'corr:check:{shape}', f'is_eval_safe({small!r}) = {real_safe} in context {c!r}, the model says {model_safe}',
                          {'correspondence': 'S1', 'context': c, 'expr': small, 'impl': real_safe, 'model': model_safe})
        tk = target_kinds(e) if t is not None else []
        if tk:
            for k in tk:
                chk.count('S1.binding_target.' + k)
            if real_safe is True:
                chk.count('S1.binding_target.accepted')
        if not ev:
            continue
        chk.count('S2.direct')
        # ---- oracle: evaluation never writes the state behind dunder attributes of the objects of the context
        if tk and rep.get('outcome') == 'value':
            chk.count('S2.binding_target.evaluated')
        if rep.get('plain_write'):
            chk.count('S2.context_object_written_by_accepted_expression')
        if rep.get('dunder_write'):
            n_dw += 1

            def bad(s, c=c):
                return bool(run_child([{'kind': 'direct', 'ctx': c, 'expr': s, 'eval': True}], scratch)[0].get('dunder_write'))
            small = shrink_expr(e, bad) if n_dw <= 2 else e
            chk.violation(f'escape:dunder-write:{dunder_position(small, blocked)}',
                          f'evaluating {small!r} in context {c!r} changed the state behind the dunder attributes of the context '
                          f'entries {rep["dunder_write"]} (class, __dict__, dunder entries of __dict__, function internals): '
                          f'{rep.get("dunder_diff")}',
                          {'oracle': 'S2 dunder state of context objects', 'context': c, 'expr': small, 'original': e,
                           'entries': rep['dunder_write'], 'diff': rep.get('dunder_diff'), 'accepted': real_safe})
        observed = classify_events(rep.get('events', []))
        if real_safe is not True:
            # rejected: safe_eval must raise SecurityError before evaluating anything
            if rep.get('outcome') != 'raises:SecurityError' or observed:
                chk.violation('oracle:rejected-evaluated', f'safe_eval evaluated the rejected expression {e!r}',
                              {'oracle': 'S2 rejected', 'context': c, 'expr': e, 'reply': rep})
            continue
        n_acc += 1
        if t is None:
            continue
        # ---- oracle: the value is the one of the semantics the checker assumes (every name = its context value)
        if rep.get('outcome') == 'value' and rep.get('ref') is not None:
            chk.count('S2.ref.compared')
            if scope_kinds(e) != ['toplevel']:
                chk.count('S2.ref.compared.nested_scope')
            if canon(rep['value']) != rep['ref']:
                n_ref_bad += 1

                last = {e: rep}

                def bad(s, c=c, last=last):
                    r = run_child([{'kind': 'direct', 'ctx': c, 'expr': s, 'eval': True}], scratch)[0]
                    isbad = r['safe'] is True and r.get('outcome') == 'value' and r.get('ref') is not None \
                        and canon(r['value']) != r['ref']
                    if isbad:
                        last[s] = r
                    return isbad
                small = shrink_expr(e, bad) if n_ref_bad <= 2 else e
                rep_small = last[small]
                how = 'ref-raises' if rep_small['ref'][0] == 'raises' else 'differs'
                chk.violation(f"oracle:context-semantics:{'+'.join(scope_kinds(small))}:{how}",
                              f'safe_eval({small!r}) in context {c!r} returns a value that is not the value of the expression '
                              f'when every name denotes its context entry (a name was resolved outside the context)',
                              {'oracle': 'S2 reference semantics', 'context': c, 'expr': small, 'original': e,
                               'impl': rep_small['value'], 'reference': rep_small['ref']})
        elif str(rep.get('outcome')).startswith('raises:') and 'NameError' in str(rep.get('detail')):
            chk.count('S2.nested_scope_name_unresolved')
        pred = m_events.get(i)
        invoke = set()
        reach = []
        if pred != 'nil' and pred is not None:
            for item in pred:
                (invoke.add if item[0] == 'invoke' else reach.append)(sx_str(item[1]))
        for evn in observed:
            chk.count('S2.event.' + evn)
            who = explains(evn) & invoke
            if who:
                for n in sorted(who & set(DANGEROUS)):
                    chk.violation(f'builtin-leak:{n}', f'evaluating {e!r} fires the audit event {evn!r} through the builtin {n!r}',
                                  {'oracle': 'S2 audit hook', 'context': c, 'expr': e, 'event': evn})
                continue
            nd = [a for a in reach if not a.startswith('__')]
            if nd:
                def bad(s, c=c, evn=evn):
                    r = run_child([{'kind': 'direct', 'ctx': c, 'expr': s, 'eval': True}], scratch)[0]
                    return r['safe'] is True and evn in r.get('events', [])
                first0 = next((a for a in attrs_of(e)[::-1] if a in nd), nd[0])
                sig0 = 'escape:str-format-dunder' if first0 in ('format', 'format_map') else f'escape:attr:{first0}'
                small = shrink_expr(e, bad) if not seen_sig(chk, sig0) else e
                first = next((a for a in attrs_of(small)[::-1] if a in nd), nd[0])
                unexplained += 1
                sig = 'escape:str-format-dunder' if first in ('format', 'format_map') else f'escape:attr:{first}'
                chk.violation(sig,
                              f'the accepted expression {small!r} fires the audit event {evn!r}: the attribute {first!r} '
                              f'leads out of the sandbox (context {c!r})',
                              {'oracle': 'S2 audit hook', 'context': c, 'expr': small, 'event': evn, 'reflective': nd})
            else:
                unexplained += 1
                chk.violation(f'escape:unexplained:{evn}', f'the accepted expression {e!r} fires {evn!r}, which the capability '
                              f'semantics does not predict (invoke={sorted(invoke)})',
                              {'oracle': 'S2 audit hook', 'context': c, 'expr': e, 'event': evn, 'model_invoke': sorted(invoke),
                               'model_reach': reach})
        # str.format field lookups: a dunder reached without any event
        if rep.get('outcome') == 'value' and any(a in ('format', 'format_map') for a in reach):
            val = rep['value'][1]
            if any(m in val for m in ("<class '", '<module ', '<built-in', '<method', '<slot', 'mappingproxy')) and \
                    ('__' in e):
                chk.violation('escape:str-format-dunder', f'{e!r} is accepted and evaluates to {val[:60]!r}: a format field '
                              'lookup read a dunder attribute the checker never saw',
                              {'oracle': 'S2 format', 'context': c, 'expr': e, 'value': val})
    chk.obligation('S1:check vs is_eval_safe (expression strings x contexts)', 'correspondence', bad_s1 == 0,
                   f'{bad_s1} disagreement(s)')
    chk.obligation('S2:audit events of accepted expressions are predicted by the capability semantics', 'oracle',
                   not any(v['signature'].startswith('escape:unexplained') for v in chk.violations))
    chk.obligation('S2:values of accepted expressions = values under context-only name resolution (all scope depths)', 'oracle',
                   n_ref_bad == 0 and chk.dist.get('S2.ref.compared.nested_scope', 0) > 50,
                   f"{n_ref_bad} difference(s) over {chk.dist.get('S2.ref.compared', 0)} compared values "
                   f"({chk.dist.get('S2.ref.compared.nested_scope', 0)} with a nested scope)")
    chk.obligation('S2:evaluation leaves the state behind dunder attributes of context objects alone (attributes in binding '
                   'positions included)', 'oracle',
                   n_dw == 0 and chk.dist.get('S2.binding_target.evaluated', 0) >= 100
                   and chk.dist.get('S1.binding_target.Attribute', 0) >= 300,
                   f"{n_dw} write(s); {chk.dist.get('S1.binding_target.Attribute', 0)} expressions with an attribute target, "
                   f"{chk.dist.get('S1.binding_target.accepted', 0)} accepted, {chk.dist.get('S2.binding_target.evaluated', 0)} "
                   f"evaluated to a value, {chk.dist.get('S2.context_object_written_by_accepted_expression', 0)} wrote ordinary state")
    chk.count('S2.accepted_and_evaluated', n_acc)
    chk.sample({'S1': cases[5][1], 'ctx': cases[5][0], 'impl': replies[5]['safe'], 'model': m_check[5] == '1'})
    return cases, replies


# ----------------------------------------------------------------------------- S2 through the parser + S3 the loop
LOOP_LITERALS = [
    'x', '1', "'x'", '[1, 2]', '{a}', '{a}{a}', 'a', 'a.upper()', 'len(a)', 'nope', '{nope}', ' {nope} ', '{nope} ', ' nope(',
    "'  {nope}'", '  {a} ', '{a.upper()}', '{a!r}', "'{a}'", '"{a}"', '1/0', '{1/0}', 'abs(-1)', '{abs(-1)}', "'abs(-1)'",
    '"a"', "'a'", "'\\'a\\''", '{[1]: 2}', '{[1]:2}', 'a.__class__', '{a.__class__}', "'{0.__class__}'.format(a)", '',
    ' ', '\n', 'a\n  b', '\n  {nope}\n', 'x y', '{{a}}', '{{{a}}}', 'None', 'True', '()', '-1', '1 +', "'''a'''", "b'x'",
    '{a:>3}', '{len(a)}', "{'a'}", "{'{a}'}", 'a + a', "'a' 'b'", '1_0', '0x10', '1e3', '...', 'Ellipsis', "f'{a}'",
    '{a}.upper()', "'{a}'.upper()", 'a.upper', 'abs', '{abs}', '[a]', '(a, a)', '{"k": a}', 'a if a else a', '\t{nope}',
]


# texts in the str.format field syntax: NAME followed by .attr / [key] chains, optional !conversion and :spec.  Inside a
# constant or alert they are f-string fields for the sandbox; when the sandbox rejects one (dunder, unbound name) the whole
# text must come back as written - nothing may interpret the fields it could resolve
FIELD_ROOTS = ['a', 'a', 'p', 'p', 'nope', 'kind', 'b']
FIELD_CHAINS = ['', '', '.__class__', '.__class__.__mro__', '.__class__.__name__', '[0]', '.upper', '.nope', '.__doc__', '.real',
                '.__class__.__init__.__globals__[__name__]', '.__class__.__init__.__globals__[__builtins__][open]', '[k]', '.k',
                '.v.__class__', '[k].__class__', '.__dict__', '.__init__.__globals__', '.gi_frame', '.format', '[__class__]',
                '.parseinfo', '.__len__', '.k.__class__.__name__', '[v][0]', '.__frozen__', '.upper()', '.k.upper()']
FIELD_CONV = ['', '', '', '!r', '!s', '!a']
FIELD_SPEC = ['', '', '', '', ':>12', ':<3', ':{a}', ':{a.__doc__}', ':{nope}', ':^5']
FIELD_FRAMES = ['{F}', '{F}', 'seen {a}: {F}', '{F} {G}', '{F}{G}', 'seen {a}, expected {G}', '{F} and {a}', '"{F}"', '{F}: {p.k}',
                '{{F}} {F}', 'x {F} y {G} z', '{a}{F}']


def field_literals(rng, n: int) -> list[str]:
    def field():
        return '{' + rng.choice(FIELD_ROOTS) + rng.choice(FIELD_CHAINS) + rng.choice(FIELD_CONV) + rng.choice(FIELD_SPEC) + '}'
    fixed = ['{a.__class__}', 'seen {a}: {a.__class__.__mro__}', '{p.__class__.__init__.__globals__[__name__]}',
             '{p[k].__class__.__name__:>12}', '{a!r:{a.__doc__}}', 'seen {a}, expected {kind}', '{kind.__class__} {p.__dict__}',
             '{p.k}', 'seen {a}', '{p.k.upper()}{len(p.v)}', '{a}{nope}', '{nope.k} {a}']
    out = list(fixed)
    while len(out) < n:
        fr = rng.choice(FIELD_FRAMES)
        out.append(fr.replace('{F}', field()).replace('{G}', field()))
    return list(dict.fromkeys(out))


# S3b: "the values that safe expressions produce are unaffected" for the interpolation step itself.  The loop model takes the
# interpolation of a text (the text read as the body of an f-string) from a recorded table, so nothing above says that the
# table is right.  Here a text is BUILT from literal chunks and fields, so its interpolation is known by construction: every
# chunk stands for itself ('{{' for '{', '}}' for '}'), every field for the formatted value of a quote-free expression over the
# bound names.  The chunks are what the way a text is turned into Python source is sensitive to: both quote characters (alone,
# doubled, tripled, at the very end, right before / after a field), backslashes (alone, doubled, in front of letters that are
# escapes in Python source, in front of a quote / a brace / the end), escaped braces, '#', non-ASCII text, line ends.
INTERP_PLAIN = ['seen ', 'x', ' ok', ': ', ' ', 'a', 'é', '#', '%s', '$', ' = ', 'len', '0', ', ', '->', '(', ')', '[', '…', ';']
INTERP_QUOTES = ['"', '"', "'", "'", '"""', "'''", '""', "''", '"\'', ' "', '" ', " '", "' ", "\\'", '\\"', '\\"""']
INTERP_BACKSLASH = ['\\', '\\', '\\t', '\\n', '\\\\', '\\x41', '\\u00e9', '\\N', '\\0', '\\a', 'C:\\new\\', '\\r\\n', '\\\\\\', '\\ ',
                    '\\U0001F600', '\\101', '\\b']
INTERP_BRACES = ['{{', '}}', '{{', '{{ ', ' }}']
INTERP_LINES = ['\n', '\n', '\n\n', ' \\\n']
INTERP_FIELDS = ['a', 'a', 'a', 'a!r', 'a!s', 'a!a', 'a:>4', 'a:<3', 'a:^5', 'a.upper()', 'len(a)', 'len(a) + 1', 'a * 2', 'a[0]', 'max(a)',
                 'sorted(a)', 'a == a', 'len(a):03d', 'a!r:>6', '[a for a in a]', '(a, a)', 'a if a else 0', 'ord(a)',
                 'a:{len(a) + 3}', 'a.upper().lower()', 'len(a) * 1.5', 'a:*^{len(a) + 4}', 'abs(-2)']
INTERP_SUBFIELDS = ['p.k', 'p.v.upper()', 'p.k + a', 'len(p.v):>3', 'p.v!r', '(p.k, p.v)']


# fields that contain quotes themselves (the other family keeps them quote-free): the value of `{a.replace('x', 'y')}` must not
# depend on whether the text around it has a double quote in it
INTERP_QFIELDS = ["a.replace('x', 'y')", 'a.replace("x", "y")', "a + 'z'", '"-".join([a, a])', "a.strip('x')!r", 'a.center(3, "*")']


def interp_text(parts) -> str:
    return ''.join('{' + x + '}' if k == 'f' else x for k, x in parts)


def interp_expected(parts) -> str:
    """the interpolation of a built text, chunk by chunk (python's own format() for the value of a field)"""
    import types
    ns = {'a': 'x', 'p': types.SimpleNamespace(k='k', v='v')}
    out = []
    for k, x in parts:
        if k == 's':
            out.append(x.replace('{{', '{').replace('}}', '}'))
            continue
        src, spec, conv = x, '', ''
        if ':' in src:
            src, spec = src.split(':', 1)
            if spec.startswith('{') or '{' in spec:
                spec = re.sub(r'\{([^{}]*)\}', lambda m: format(eval(m.group(1), dict(ns))), spec)
        if '!' in src:
            src, conv = src.rsplit('!', 1)
        v = eval(src, dict(ns))
        v = {'': lambda o: o, 'r': repr, 's': str, 'a': ascii}[conv](v)
        out.append(format(v, spec))
    return ''.join(out)


def interp_python(text: str):
    """python's own reading of the text as an f-string body: a raw triple-quoted f-string around the text as it is (nothing
    is escaped, so fields are read as written; a sentinel keeps the end of the text away from the closing quotes)"""
    import types
    for d in ("'''", '"""'):
        if d not in text:
            try:
                return eval('rf' + d + text + '|' + d, {'a': 'x', 'p': types.SimpleNamespace(k='k', v='v')})[:-1]
            except Exception:
                return None
    return None


def interp_parts(rng, sub: bool) -> list:
    """1-6 chunks and fields; the pools a text draws from are chosen per text so that every single feature also occurs alone"""
    pools = [INTERP_PLAIN]
    for pool, p in ((INTERP_QUOTES, 0.6), (INTERP_BACKSLASH, 0.45), (INTERP_BRACES, 0.2), (INTERP_LINES, 0.08)):
        if rng.random() < p:
            pools.append(pool)
    fields = INTERP_FIELDS + (INTERP_SUBFIELDS * 2 if sub else [])
    nfields = rng.choice([0, 1, 1, 1, 2, 2, 3])
    n = rng.randint(max(1, nfields), 6)
    kinds = ['f'] * nfields + ['s'] * (n - nfields)
    rng.shuffle(kinds)
    parts = []
    for k in kinds:
        if k == 'f':
            parts.append(('f', rng.choice(fields)))
            continue
        pool = rng.choice(pools) if rng.random() < 0.75 else pools[-1]
        c = rng.choice(pool)
        if parts and parts[-1][0] == 'f' and c.lstrip().startswith('}}'):
            c = rng.choice(INTERP_PLAIN)        # '}}' right behind a field would close the field first
        parts.append(('s', c))
    return parts


def interp_cases(rng, n: int):
    fixed = [[('s', 'seen "'), ('f', 'a'), ('s', '"')], [('s', "seen '"), ('f', 'a'), ('s', "'")], [('f', 'a'), ('s', '\\')],
             [('s', 'C:\\new\\'), ('f', 'a')], [('f', 'a'), ('s', '\\t'), ('f', 'a')], [('s', '"""'), ('f', 'a'), ('s', '"""')],
             [('s', "'''"), ('f', 'a!r'), ('s', "'''")], [('s', '\\N'), ('f', 'a')], [('s', '{{'), ('f', 'a'), ('s', ' }}"')],
             [('s', 'it\'s "'), ('f', 'len(a)'), ('s', '"')], [('s', 'no fields "')], [('s', "x\\'")], [('s', 'a\\')],
             [('s', '"'), ('f', 'p.k'), ('s', '" = \''), ('f', 'p.v'), ('s', "'")], [('s', 'é\\u00e9 '), ('f', 'a:>4'), ('s', "''")]]
    out, seen, dropped = [], set(), []
    for parts in fixed:
        out.append({'parts': parts, 'sub': any(k == 'f' and 'p.' in x for k, x in parts)})
    for i in range(max(12, n // 12)):
        q = INTERP_QFIELDS[i % len(INTERP_QFIELDS)]
        pre = rng.choice(['', 'seen ', '"', "'", 'it\'s ', 'say "hi" ', '{{', '\\'])
        post = rng.choice(['', ' ok', '"', "'", '" x', "' x", '}}', '\\'])
        out.append({'parts': [p for p in (('s', pre), ('f', q), ('s', post)) if p[1]], 'sub': False})
    tries = 0
    while len(out) < n and tries < 20 * n:
        tries += 1
        sub = rng.random() < 0.3
        out.append({'parts': interp_parts(rng, sub), 'sub': sub})
    res = []
    for c in out:
        c['text'] = interp_text(c['parts'])
        if c['text'] in seen or not c['text'].strip() or (c['text'] != c['text'].strip() and rng.random() < 0.9) or \
                any(l != l.strip() for l in c['text'].split('\n')[1:]):
            continue        # the loop trims a text first: mostly texts that trimming leaves as they are
        seen.add(c['text'])
        c['expected'] = interp_expected(c['parts'])
        # the construction is cross-checked with python's own reading of the text as an f-string body; a text on which the
        # two differ (or that python does not read at all) is not used
        if interp_python(c['text']) != c['expected']:
            dropped.append(c['text'])
            continue
        res.append(c)
    return res, dropped


def interp_features(text: str) -> str:
    f = []
    if text.endswith('"'):
        f.append('dq-end')
    elif text.endswith("'"):
        f.append('sq-end')
    elif text.endswith('\\'):
        f.append('bs-end')
    if '"""' in text or "'''" in text:
        f.append('triple')
    elif '"' in text and "'" in text:
        f.append('both-quotes')
    elif '"' in text:
        f.append('dq')
    elif "'" in text:
        f.append('sq')
    if '\\' in text:
        f.append('backslash')
    if '{{' in text or '}}' in text:
        f.append('brace-escape')
    if '\n' in text:
        f.append('newline')
    if not text.isascii():
        f.append('non-ascii')
    f.append('fields' if re.search(r'(?<!\{)\{(?!\{)', text.replace('{{', '')) else 'plain')
    return '+'.join(f)


def interp_sig(kind: str, parts) -> str:
    text = interp_text(parts)
    qf = [x for k, x in parts if k == 'f' and ("'" in x or '"' in x)]
    if qf:
        inside = '+'.join(n for ch, n in (("'", 'sq'), ('"', 'dq'), ('\\', 'backslash')) if any(ch in x for x in qf))
        rest = ''.join(x for k, x in parts if not (k == 'f' and x in qf))
        outside = '+'.join(n for ch, n in (("'", 'sq'), ('"', 'dq'), ('\\', 'backslash')) if ch in rest) or 'none'
        return f'oracle:interpolation:{kind}:quoted-field:{inside}-inside:{outside}-outside'
    return f'oracle:interpolation:{kind}:{interp_features(text)}'


def interp_step(rep: dict, text: str, expected: str):
    """what the recorded interpolation step (the evaluator calls whose argument is not the text itself) did with `text`:
    None = as expected / not reached, else (kind, detail)"""
    cur = None
    reached = accepted = evaluated = False
    literal = False
    for kind, arg, res in rep.get('trace', []):
        if kind == 'trim':
            if cur == text and reached:
                break
            cur = res
        elif cur != text:
            continue
        elif kind == 'lit':
            reached = True
            literal = res is not None
        elif kind == 'safe' and arg != cur:
            reached = True
            if not res:
                return ('rejected', f'is_eval_safe({arg!r}) is False')
            accepted = True
        elif kind == 'eval' and arg != cur:
            evaluated = True
            if isinstance(res, str) and res.startswith('raises:'):
                return ('raises', f'safe_eval({arg!r}) {res}')
            if res != ['str', expected]:
                return ('value', f'safe_eval({arg!r}) = {res!r}')
            return None
    if reached and not literal and not (accepted and evaluated):
        return ('skipped', 'no interpolation step was made for the text')
    return None


def interp_shrink(parts: list, sub: bool, alert: bool, kind: str, scratch: Path) -> list:
    """greedy: drop one chunk / field at a time while the interpolation step still goes wrong the same way"""
    for _ in range(10):
        cands = [parts[:i] + parts[i + 1:] for i in range(len(parts))]
        cands += [parts[:i] + [('s', parts[i][1][:-1])] + parts[i + 1:] for i in range(len(parts)) if parts[i][0] == 's' and len(parts[i][1]) > 1]
        cands += [parts[:i] + [('s', parts[i][1][1:])] + parts[i + 1:] for i in range(len(parts)) if parts[i][0] == 's' and len(parts[i][1]) > 1]
        cands += [parts[:i] + [('f', 'a')] + parts[i + 1:] for i in range(len(parts)) if parts[i][0] == 'f' and parts[i][1] != 'a']
        good = []
        for c in cands:
            try:
                t = interp_text(c)
                if t.strip() and t == t.strip() and interp_python(t) == interp_expected(c):
                    good.append(c)
            except Exception:
                pass
        if not good:
            return parts
        reps = run_child([{'kind': 'parse', 'literal': interp_text(c), 'via': 'patch', 'alert': alert, 'sub': sub} for c in good], scratch)
        for c, rep in zip(good, reps):
            st = interp_step(rep, interp_text(c), interp_expected(c))
            if st and st[0] == kind:
                parts = c
                break
        else:
            return parts
    return parts


def run_parser(chk: Check, mr: ModelRun, scratch: Path, real_leaks: set):
    rng = chk.rng
    lits = list(LOOP_LITERALS)
    lits += [f"open('/etc/hostname').read()", "eval('1+1')", "exec('x=1')", 'exit()', 'input()', "compile('1','s','eval')",
             "help('keywords')", "delattr(a, 'x')", "quit()", f"max(['/etc/hostname'], key={ESCAPE_BOX}.get('open'))",
             "getattr(a, 'upper')", "__import__('os')", "type(a)", "(a for a in a).gi_frame"]
    # accepted expressions over bound names that fail WHEN EVALUATED, one per kind of exception evaluation can end with (index
    # and key lookups, conversions, exhausted iterators, arithmetic, format specs): a semantic failure, never another exception
    lits += ['a[3]', '{a[3]}', 'seen {a[len(a)]}', '[a][1]', '(a, a)[2]', 'sorted(a)[1]', 'dict(k=a)[a]', '{dict(k=a)[a]}', 'max([])',
             'int(a)', '{int(a)}', 'next(iter([]))', '{next(iter([]))}', 'a.index(a + a)', '{a:d}', '[][0]', 'len(a) % 0', '{len(a) // 0}',
             'a + 1', '{a + 1}', 'a.nope', '{a.nope}', 'len()', 'ord(a + a)', 'chr(-1)', '{chr(-1)}', 'range(1)[1]', 'float(a)',
             '[0 for a in a if a[1]]', '{[a for a in a][1]}', 'divmod(1, 0)', 'pow(0, -1)', 'a * 10 ** 12', 'dict([a])', 'list(a)[1]']
    atoms = ['a', '{a}', 'nope', '{nope}', ' ', 'x', "'", '"', '1', '(', ')', '.upper()', '{', '}', 'abs(-1)', '\n', '+', 'len(a)']
    for _ in range(60 if chk.quick else 3000):
        lits.append(''.join(rng.choice(atoms) for _ in range(rng.randint(1, 4))))
    lits = list(dict.fromkeys(lits))
    jobs = []
    for l in lits:
        jobs.append({'kind': 'parse', 'literal': l, 'via': 'patch', 'alert': False})
        if not chk.quick or len(jobs) % 3 == 0 or 'nope' in l or 'open' in l:
            jobs.append({'kind': 'parse', 'literal': l, 'via': 'patch', 'alert': True})
        if '`' not in l and l.strip() and l == l.strip() and '\n' not in l:
            jobs.append({'kind': 'parse', 'literal': l, 'via': 'text', 'alert': False})
    # AST keys spelled like builtins (bound to the text 'k' by the grammar itself), used at top level and in nested scopes
    knames = [n for n in DANGEROUS if not n.startswith('_')] + ['str', 'list', 'len', 'print', 'id', 'dir', 'map']
    if chk.quick:
        knames = [n for n in knames if n in ('open', 'eval', 'type')] + rng.sample([n for n in knames if n not in ('open', 'eval', 'type')], 9)
    shapes = ['{k}', '{k}(a)', "{k}('1+1')", 'next({k} for a in a)', 'next({k}(a) for a in [a])', 'max([a], key=lambda a: {k}(a))',
              'sorted([a], key=lambda a: {k})[0]', '[{k} for a in a]', "{{{k}}}{{a}}", "{{next({k}(a) for a in [a])}}",
              'next({k}(a).read() for a in [a])', "max(['1+1'], key=lambda a: {k}(a) - 2)", 'max([a], key={k})']
    for kn in knames:
        for sh in (shapes if not chk.quick else shapes[:1] + rng.sample(shapes[1:], 6)):
            lit = sh.format(k=kn)
            jobs.append({'kind': 'parse', 'literal': lit, 'via': 'text', 'alert': rng.random() < 0.3, 'keys': [kn]})
    jobs.append({'kind': 'parse', 'literal': 'next((open, eval, type) for a in a)', 'via': 'text', 'alert': False,
                 'keys': ['open', 'eval', 'type']})
    n_plain_jobs = len(jobs)
    # grammars with a sub-AST (p:pair - an object with attributes reachable through a name bound in the current AST):
    # (1) attributes of it in binding and reading positions, (2) texts in the format-field syntax rooted at bound and
    # unbound names, as constants and as alerts of every level; the verdict of is_eval_safe on the context the engine
    # built goes to the model (S1 through the parser), the recorded alert message to the loop correspondence
    pattrs = ['__frozen__', '__dict__', '__class__', '__doc__', '__parseinfo__', 'gi_frame', 'k', 'zz']
    pshapes = ['[0 for p.{A} in [0]]', '{{0: 0 for p.{A} in [a]}}', '[0 for [a, *p.{A}] in [a]]', '{{[0 for p.{A} in [0]]}}',
               'next(0 for p.{A} in [0])', '{{a:{{[0 for p.{A} in [0]]}}}}', 'p.{A}', '{{p.{A}}}', '[0 for a in a for p.{A} in [0]]',
               '[0 for p.v.{A} in [0]]', '[0 for p[p.{A}] in [0]]', 'sorted(0 for (a, p.{A}) in [a + a])']
    for A in pattrs:
        for sh in (pshapes if not chk.quick else pshapes[:1] + rng.sample(pshapes[1:], 5)):
            jobs.append({'kind': 'parse', 'literal': sh.format(A=A), 'via': 'text', 'alert': rng.random() < 0.35, 'sub': True,
                         'model': True, 'level': rng.randint(1, 3)})
    for l in field_literals(rng, 70 if chk.quick else 600):
        jobs.append({'kind': 'parse', 'literal': l, 'via': 'text', 'alert': True, 'sub': True, 'model': True,
                     'level': rng.randint(1, 3)})
        r = rng.random()
        if r < 0.4:
            jobs.append({'kind': 'parse', 'literal': l, 'via': 'text', 'alert': False, 'sub': True, 'model': True})
        elif r < 0.6:
            jobs.append({'kind': 'parse', 'literal': rng.choice(['', ' ', '\n  ']) + l + rng.choice(['', ' ', '\n']), 'via': 'patch',
                         'alert': rng.random() < 0.7, 'sub': True, 'model': True})
    # S3b: texts whose interpolation is known by construction, as constants and alerts, patched into the model and written in
    # the grammar
    import random
    irng = random.Random(f'S3b:{chk.seed}')      # a stream of its own: the families after this one keep their cases
    icases, idropped = interp_cases(irng, 170 if chk.quick else 3000)
    for ci, c in enumerate(icases):
        t = c['text']
        r = irng.random()
        jobs.append({'kind': 'parse', 'literal': t, 'via': 'patch', 'alert': False, 'sub': c['sub'], 'interp': ci})
        if r < 0.3:
            jobs.append({'kind': 'parse', 'literal': t, 'via': 'patch', 'alert': True, 'sub': c['sub'], 'interp': ci})
        if '`' not in t and '\n' not in t and (r > 0.55 or not chk.quick):
            jobs.append({'kind': 'parse', 'literal': t, 'via': 'text', 'alert': irng.random() < 0.3, 'sub': c['sub'], 'interp': ci,
                         'level': irng.randint(1, 3)})
    replies = run_child(jobs, scratch)
    n_keys = sum(1 for j, r in zip(jobs, replies) if j.get('keys') and r.get('keys_in_context'))
    n_refdiff = 0
    for job, rep in zip(jobs, replies):
        for e, got, ref in rep.get('refdiff', []):
            n_refdiff += 1
            how = 'ref-raises' if ref[0] == 'raises' else 'differs'
            inner = e[2:-1] if e.startswith(("f'", 'f"')) else e
            chk.violation(f"oracle:context-semantics:parser:{'+'.join(scope_kinds(e))}:{how}",
                          f'the constant {job["literal"]!r} (AST keys a{"".join(", " + k for k in job.get("keys", []))}) evaluates '
                          f'{e!r} to a value that is not the value of the expression when every name denotes its AST / context entry',
                          {'oracle': 'S2 parser reference semantics', 'literal': job['literal'], 'keys': job.get('keys'),
                           'alert': job['alert'], 'via': job['via'], 'evaluated': e, 'impl': got, 'reference': ref})
    chk.obligation('S2:constants evaluate to their value under context-only name resolution (keys spelled like builtins)', 'oracle',
                   n_refdiff == 0 and n_keys >= 60, f'{n_refdiff} difference(s); {n_keys} parses with builtin-named AST keys bound')
    chk.count('S3.keys_bound', n_keys)
    # S3: replay the recorded oracle calls through the extracted loop
    reqs = []
    idx = []
    for j, (job, rep) in enumerate(zip(jobs, replies)):
        if 'error' in rep:
            raise RuntimeError(f'child error on {job}: {rep["error"]}')
        if 'trace' not in rep:
            if job['via'] == 'patch':
                chk.violation('oracle:probe-grammar-rejected', "the probe grammar start = a:'x' b:`0` $ ; no longer compiles: "
                              + str(rep.get('outcome')), {'oracle': 'S3', 'job': job, 'reply': rep})
            else:
                chk.count('S3.text.grammar_rejected')
            continue
        lit = job['literal'] if job['via'] == 'patch' else rep.get('grammar_literal')
        if not isinstance(lit, str):
            continue
        objs: dict = {}

        def val(v):
            if v is None:
                return 'none'
            if isinstance(v, str) and v.startswith('raises:'):
                return 'none'
            if v[0] == 'str':
                return f'(some (s {sx(v[1])}))'
            key = json.dumps(v)
            objs.setdefault(key, len(objs) + 1)
            return f'(some (v {objs[key]}))'
        trimt, litt, fs, fe, es, ee = {}, {}, {}, {}, {}, {}
        cur = None
        weird = None
        for kind, arg, res in rep['trace']:
            if kind == 'trim':
                trimt[arg] = sx(res)
                cur = res
            elif kind == 'lit':
                if isinstance(res, str) and res.startswith('raises:'):
                    weird = 'literal_eval-' + res
                litt[cur] = val(res)
            elif kind == 'safe':
                (es if arg == cur else fs)[cur] = sx(bool(res))
            elif kind == 'eval':
                (ee if arg == cur else fe)[cur] = val(res)
        tab = lambda d: '(' + ' '.join(f'({sx(k)} {v})' for k, v in d.items()) + ')'
        reqs.append(f'(constant 40 {sx(lit)} {tab(trimt)} {tab(litt)} {tab(fs)} {tab(fe)} {tab(es)} {tab(ee)})')
        idx.append((j, weird, objs))
    mreps = mr.ask(reqs)
    bad = 0
    n_alert_cmp = 0
    n_alert_bad = 0
    n_rejected_text = 0
    n_interp = 0
    for (j, weird, objs), mrep in zip(idx, mreps):
        job, rep = jobs[j], replies[j]
        lit = job['literal']
        chk.case('S3:' + json.dumps([job['via'], job['alert'], lit]), nontrivial=bool(rep['trace']))
        chk.count(f"S3.{job['via']}.{'alert' if job['alert'] else 'constant'}")
        chk.count('S3.outcome.' + rep['outcome'].split(':')[0])
        real = rep['outcome']
        # ---- oracle on the implementation: a rejected expression is text or a semantic failure; no events
        observed = classify_events(rep.get('events', []))
        for evn in observed:
            chk.count('S2.parser.event.' + evn)
        if real == 'hang':
            shape = 'untrimmed' if lit != lit.strip() or '\n' in lit or "'" in lit or '"' in lit else 'other'
            chk.violation(f'loop:hang:{shape}-rejected-text', f'parsing with the constant {lit!r} never terminates: the rejected text '
                          'is compared untrimmed with its trimmed form for ever',
                          {'oracle': 'S3 loop', 'literal': lit, 'alert': job['alert'], 'via': job['via'],
                           'grammar': "start = a:'x' b:`" + lit + "` $ ;", 'input': 'x'})
        elif real.startswith('raises:'):
            chk.violation(f'loop:{real}', f'the constant {lit!r} makes the parse raise {real[7:]} (neither text nor a semantic failure)',
                          {'oracle': 'S3 loop', 'literal': lit, 'alert': job['alert'], 'via': job['via'], 'detail': rep.get('detail')})
        # ---- correspondence
        if mrep[0] == 'need':
            model = 'need:' + mrep[1]
        elif mrep[0] == 'failed':
            model = 'failed-semantics'
        elif mrep[0] == 'diverges':
            model = 'hang'
        else:
            v = mrep[0][1]
            model = ('value', 'str', sx_str(v[1])) if v[0] == 's' else ('value', 'obj', int(v[1]))
        if real == 'value' and not job['alert']:
            rv = rep['value']
            if rv[0] == 'str':
                realc = ('value', 'str', rv[1])
            else:
                realc = ('value', 'obj', objs.get(json.dumps(rv), -1))
        elif real == 'value':
            # the value of an alert expression is the message recorded in the parse information of the result
            al = rep.get('alerts')
            if al is None or len(al) != 1 or al[0][0] != int(job.get('level') or 1):
                realc = ('alerts-recorded', json.dumps(al))
            else:
                n_alert_cmp += 1
                rv = al[0][1]
                realc = ('value', 'str', rv[1]) if rv[0] == 'str' else ('value', 'obj', objs.get(json.dumps(rv), -1))
        elif weird and real.startswith('raises:'):
            realc = model     # literal_eval raised something else than ValueError/SyntaxError: outside the model (reported above)
        else:
            realc = real
        m_calls = [] if mrep[0] == 'need' or mrep[1] == 'nil' else [(c[0], sx_str(c[1])) for c in mrep[1]]
        r_calls = []
        cur = None
        for kind, arg, res in rep['trace']:
            if kind == 'trim':
                cur = res
            elif kind == 'eval':
                r_calls.append(('E' if arg == cur else 'F', cur))
        if realc != model or (m_calls != r_calls and not weird and real != 'hang'):
            bad += 1
            sig = 'corr:loop'
            what = f'ParseContext.constant differs from the model on the literal {lit!r}'
            if job['alert'] and real == 'value' and m_calls == r_calls:
                n_alert_bad += 1
                sig = 'corr:loop:alert-message' if realc[0] == 'value' else 'corr:loop:alert-not-recorded'
                what = (f'the alert {"^" * int(job.get("level") or 1)}`{lit}` records {rep.get("alerts")} in parseinfo.alerts, the '
                        f'interpolation loop (same evaluator calls) yields {model}')
            chk.violation(sig, what,
                          {'correspondence': 'S3', 'literal': lit, 'alert': job['alert'], 'via': job['via'], 'impl': realc,
                           'model': model, 'impl_calls': r_calls, 'model_calls': m_calls, 'sub_ast': bool(job.get('sub')),
                           'level': job.get('level')})
        # ---- oracle on the implementation: nothing evaluated (every attempt rejected, not a literal) => the text as written
        trims = [res for kind, arg, res in rep['trace'] if kind == 'trim']
        evaluated = any(kind == 'eval' or (kind == 'lit' and res is not None) for kind, arg, res in rep['trace'])
        if real == 'value' and trims and not evaluated:
            n_rejected_text += 1
            if '{' in lit:
                chk.count('S3.rejected_text_with_fields.' + ('alert' if job['alert'] else 'constant'))
            if job['alert']:
                got = [m for _, m in rep.get('alerts') or []]
            else:
                got = [rep['value']]
            if got != [['str', trims[-1]]]:
                n_interp += 1
                chk.violation(f"oracle:rejected-interpreted:{'alert' if job['alert'] else 'constant'}:"
                              f"{'format-fields' if '{' in lit else 'plain'}",
                              f"the {'alert' if job['alert'] else 'constant'} `{lit}` was rejected by the sandbox (no evaluation took "
                              f'place) but its result is {got}, not the text as written',
                              {'oracle': 'S3 rejected text', 'literal': lit, 'alert': job['alert'], 'via': job['via'],
                               'result': got, 'expected': trims[-1], 'sub_ast': bool(job.get('sub'))})
        for e, wr, diff in rep.get('dunder_write', []):
            chk.violation(f'escape:dunder-write:parser:{dunder_position(e)}',
                          f'the constant {lit!r} evaluates {e!r}, which changed the state behind the dunder attributes of the AST '
                          f'entries {wr}: {diff}',
                          {'oracle': 'S2 parser dunder state', 'literal': lit, 'alert': job['alert'], 'via': job['via'],
                           'evaluated': e, 'entries': wr, 'diff': diff})
        # every evaluation was allowed
        allowed = {}
        for kind, arg, res in rep['trace']:
            if kind == 'safe':
                allowed[arg] = res
            if kind == 'eval' and not allowed.get(arg):
                chk.violation('oracle:rejected-evaluated', f'the constant {lit!r} evaluates {arg!r} which is_eval_safe rejected',
                              {'oracle': 'S3 loop', 'literal': lit, 'evaluated': arg})
        # events through the parser: only the recorded leaks / escapes may fire
        for evn in observed:
            names = [n for n in sorted(explains(evn) & real_leaks) if n in lit]
            if names:
                for n in names:
                    chk.violation(f'builtin-leak:{n}', f'parsing with the constant {lit!r} fires the audit event {evn!r}',
                                  {'oracle': 'S2 parser', 'literal': lit, 'alert': job['alert'], 'event': evn})
            elif 'gi_frame' in lit:
                chk.violation('escape:attr:gi_frame', f'parsing with the constant {lit!r} fires the audit event {evn!r}',
                              {'oracle': 'S2 parser', 'literal': lit, 'alert': job['alert'], 'event': evn,
                               'grammar': "start = a:'x' b:`" + lit + "` $ ;", 'input': 'x'})
            else:
                chk.violation(f'escape:parser:{evn}', f'parsing with the constant {lit!r} fires the audit event {evn!r}',
                              {'oracle': 'S2 parser', 'literal': lit, 'alert': job['alert'], 'event': evn})
    # ---- S3b: the interpolation step against the interpolation known by construction; a text without braces is its own
    # interpolation whatever it is made of (every text of every job above that reached the step, every round of the loop)
    n_built = n_plain = n_ibad = n_shrunk = 0
    feats = set()
    for job, rep in zip(jobs, replies):
        if 'trace' not in rep:
            continue
        todo = []
        if 'interp' in job:
            c = icases[job['interp']]
            first = next((res for kind, arg, res in rep['trace'] if kind == 'trim'), None)
            if first == c['text'] and (job['via'] == 'patch' or rep.get('grammar_literal') == c['text']):
                todo.append((c['text'], c['expected'], c))
            else:
                chk.count('S3b.not_as_written')
        for kind, arg, res in rep['trace']:
            if kind == 'trim' and isinstance(res, str) and '{' not in res and '}' not in res and res and all(res != t for t, _, _ in todo):
                todo.append((res, res, None))
        for text, expected, c in todo:
            st = interp_step(rep, text, expected)
            reached = any(k == 'safe' and a != text for k, a, _ in rep['trace'])
            if c is not None:
                n_built += 1
                for f in interp_features(text).split('+'):
                    feats.add(f)
                    chk.count('S3b.feature.' + f)
                chk.count('S3b.%s.%s' % (job['via'], 'alert' if job['alert'] else 'constant'))
            elif reached:
                n_plain += 1
            if st is None:
                continue
            parts = c['parts'] if c is not None else ([('s', ch) for ch in text] if len(text) <= 30 else [('s', text)])
            sig = interp_sig(st[0], parts)
            if seen_sig(chk, sig):
                pass
            elif n_shrunk < (10 if chk.quick else 400):      # every failing text is reduced to its class before it is named
                n_shrunk += 1
                parts = interp_shrink(parts, bool(job.get('sub')), bool(job['alert']), st[0], scratch)
                sig = interp_sig(st[0], parts)
            else:
                sig = f'oracle:interpolation:{st[0]}:not-shrunk'
            small = interp_text(parts)
            chk.violation(sig,
                          f"the {'alert' if job['alert'] else 'constant'} `{job['literal']}` reads the text {text!r} as an f-string body "
                          f'and gets it wrong: {st[1]}; its interpolation is {expected!r} (smallest text found that goes wrong the same '
                          f'way: {small!r}, interpolation {interp_expected(parts)!r})',
                          {'oracle': 'S3b interpolation by construction', 'literal': job['literal'], 'alert': job['alert'],
                           'via': job['via'], 'text': text, 'expected': expected, 'step': list(st), 'shrunk': small,
                           'grammar': "start = a:'x' b:`" + small + "` $ ;", 'input': 'x'})
            if sig in chk.known_hits:
                chk.count('S3b.known_finding')
            else:
                n_ibad += 1
    need = {'dq-end', 'sq-end', 'bs-end', 'triple', 'both-quotes', 'dq', 'sq', 'backslash', 'brace-escape', 'non-ascii', 'fields', 'plain'}
    chk.obligation('S3b:the interpolation step yields the interpolation known by construction (chunks with quotes, backslashes, '
                   'escaped braces around quote-free fields; brace-free texts stand for themselves)', 'oracle',
                   n_ibad == 0 and n_built >= 180 and n_plain >= 100 and need <= feats and len(idropped) * 20 <= len(icases),
                   f'{n_ibad} wrong step(s) over {n_built} built texts as written + {n_plain} brace-free texts; features '
                   f'{sorted(feats)}; {len(idropped)} built texts not used (python reads them differently): {idropped[:3]}')
    chk.obligation('S3:ParseContext.constant vs the extracted loop on recorded oracle tables', 'correspondence',
                   bad == 0 and len(idx) >= len(lits), f'{bad} disagreement(s) over {len(idx)} compared runs')
    chk.obligation('S3:the message an alert records (parseinfo.alerts) = the value of the extracted loop', 'correspondence',
                   n_alert_bad == 0 and n_alert_cmp >= 100, f'{n_alert_bad} disagreement(s) over {n_alert_cmp} recorded alert messages')
    nf = chk.dist.get('S3.rejected_text_with_fields.alert', 0)
    chk.obligation('S3:a text the sandbox rejects comes back as written (constants and alerts, format-field syntax)', 'oracle',
                   n_interp == 0 and nf >= 30, f'{n_interp} interpreted; {n_rejected_text} rejected texts, {nf} alerts with fields')
    # ---- S1 through the parser: is_eval_safe on the contexts the engine built (sub-AST, parse information) vs the model
    creqs, cidx = [], []
    for j, (job, rep) in enumerate(zip(jobs, replies)):
        for e, verdict, ci in rep.get('checks', []):
            creqs.append(f"(check {ctx_sx(rep['ctxinfos'][ci])} {tree_sx(parse_tree(e))})")
            cidx.append((j, e, verdict))
    bad_c = 0
    for (j, e, verdict), mc in zip(cidx, mr.ask(creqs)):
        chk.count('S1.parser.accepted' if verdict else 'S1.parser.rejected')
        if target_kinds(e):
            chk.count('S1.parser.binding_target')
        if verdict is not (mc == '1'):
            bad_c += 1
            t2 = parse_tree(e)
            shape = 'unparsable' if t2 is None else type(ast.parse(e, mode='eval').body).__name__
            chk.violation(f'corr:check:parser:{shape}', f'while parsing with the constant {jobs[j]["literal"]!r} is_eval_safe({e!r}) = '
                          f'{verdict} on the context built by the engine, the model says {mc == "1"}',
                          {'correspondence': 'S1 parser', 'literal': jobs[j]['literal'], 'alert': jobs[j]['alert'], 'expr': e,
                           'impl': verdict, 'model': mc == '1'})
    chk.obligation('S1:check vs is_eval_safe on the contexts built by the engine (sub-AST objects)', 'correspondence',
                   bad_c == 0 and len(cidx) >= 150 and chk.dist.get('S1.parser.binding_target', 0) >= 20,
                   f"{bad_c} disagreement(s) over {len(cidx)} verdicts ({chk.dist.get('S1.parser.binding_target', 0)} with an "
                   f'attribute / subscript in binding position)')
    chk.sample({'S3': jobs[3]['literal'], 'impl': replies[3].get('outcome'), 'value': replies[3].get('value')})

    # data-driven injection: the text being parsed reaches the evaluator through `{a}` (second-order evaluation)
    inj = run_child([{'kind': 'parse', 'literal': '{a}', 'via': 'patch', 'alert': False}], scratch)[0]
    chk.extra['interpolated_text_reevaluated'] = "constant `{a}` re-evaluates its own result while it is a str (loop until fixpoint)"


# ----------------------------------------------------------------------------- S4 state carried between calls
# "can read only the names bound in the CURRENT AST ... and the values that safe expressions produce are unaffected" is a
# statement about every constant of every rule of every parse of a process, whatever was evaluated before.  S1-S3 run each
# constant in a grammar of its own; here the unit is a PROGRAM: many grammars (sibling rules, nested rule calls, keys spelled
# like builtins, names of TatSu's own bootstrap grammar), models parsed again with other inputs, the same text compiled
# again, semantics objects with a persistent safe_context() dict attached and detached, walrus bindings - in ONE interpreter.
SEQ_ORD_KEYS = ['w', 'v', 'x', 'y', 'tok', 'secret', 'item', 'val']
SEQ_BUILTIN_KEYS = ['len', 'max', 'min', 'sorted', 'sum', 'abs', 'repr', 'ord', 'any', 'all', 'next', 'iter', 'print', 'round']
# never bound by a generated grammar: AST keys of TatSu's bootstrap grammar, locals of the evaluation code
SEQ_OUTSIDE = ['rules', 'directives', 'keywords', 'title', 'name', 'exp', 'params', 'kwparams', 'base', 'decorators',
               'value', 'self', 'ctx', 'ast', 'context', 'literal', 'result', 'expression', 'semantics', 'tatsu']
SEQ_WALRUS = ['zq%d' % i for i in range(6)]
SEQ_CNAMES = ['c%d' % i for i in range(1, 17)]
SEQ_SEMS = [{'sid': 0, 'names': ['twice', 'tag']}, {'sid': 1, 'names': ['mark', 'len']}]
SEQ_CALLS = {'len': len, 'max': max, 'min': min, 'sorted': sorted}
# typed rules (`number::int = /\d+/ ;`) and the semantics TatSu ships: a model-builder semantics resolves the type name of a
# rule to a constructor - a builtin (also the ones the sandbox withholds: every type, dir, ...), a class it synthesizes, a user
# constructor registered with it - and keeps what it resolved for as long as the semantics object lives (one parse for
# parse(asmodel=True), the life of the model for compile(asmodel=True), the program for an object the caller passes around).
# None of these names is a name of the current AST or a pure builtin: a constant that mentions one stays text.
SEQ_TYPE_BUILTINS = ['int', 'float', 'str', 'bool', 'dir', 'tuple', 'frozenset', 'complex', 'enumerate', 'reversed', 'zip', 'slice']
SEQ_TYPE_SYNTH = ['Item', 'Tok', 'Val', 'Word', 'tok', 'item', 'node']
SEQ_TYPE_CTORS = ['mk', 'Leaf', 'tag']
SEQ_TYPE_KEYS = ['num', 'cnt', 'kind']
SEQ_TSEMS = [{'sid': 2, 'kind': 'mbs', 'names': []},
             {'sid': 3, 'kind': 'mbs-ctors', 'names': [], 'ctors': SEQ_TYPE_SYNTH + SEQ_TYPE_CTORS},
             {'sid': 4, 'kind': 'asmodel-parse', 'names': []},
             {'sid': 5, 'kind': 'mbs-fresh', 'names': []},
             {'sid': 6, 'kind': 'astsem', 'names': []}]
SEQ_SEM_CHOICES = [None, None, None, SEQ_SEMS[0], SEQ_SEMS[0], SEQ_SEMS[1], SEQ_SEMS[1], SEQ_TSEMS[0], SEQ_TSEMS[0], SEQ_TSEMS[0], SEQ_TSEMS[1], SEQ_TSEMS[1],
                   SEQ_TSEMS[2], SEQ_TSEMS[3], SEQ_TSEMS[4]]
NOEXP = object()
# values that depend on nothing but the current AST: (i) keys bound by literals that are EQUAL but not the same value (1 == True
# == 1.0, 0 == False == 0.0 == -0.0, tuples / lists of them) under the same key name, read by the same constant text in other
# rules / parses / grammars of the program; (ii) keys bound by a mutable literal (`[]`, `{}`), filled by a method call of a later
# constant of the rule (accepted: a plain method of a name of the current AST), read back; every parse starts from the literal.
SEQ_TWINS = [['1', 'True', '1.0'], ['0', 'False', '0.0', '-0.0'], ['2', '2.0'], ['(1, 0)', '(True, False)', '(1.0, 0.0)'],
             ['[1]', '[True]', '[1.0]']]
SEQ_TWIN_KEYS = ['flag', 'n']
SEQ_TWIN_READ = [('<{K}>', lambda v: f'<{v}>'), ('repr(K)', lambda v: repr(v)), ('{K!r}~', lambda v: f'{v!r}~'),
                 ('[K, K]', lambda v: [v, v]), ('{K}', lambda v: f'{v}'), ('format(K)', lambda v: format(v))]
SEQ_MUTABLE = [('[]', 'list'), ('[0]', 'list'), ('{}', 'dict'), ("{'n': 0}", 'dict')]
SEQ_MUT_KEYS = ['acc', 'bag']
SEQ_MUTATE = {'list': [('K.append(W)', lambda a, w: a.append(w)), ('K.extend([W, W])', lambda a, w: a.extend([w, w])),
                       ('K.insert(0, W)', lambda a, w: a.insert(0, w))],
              'dict': [('K.setdefault(W, 1)', lambda a, w: a.setdefault(w, 1))]}
SEQ_MUT_READ = [('{K}', lambda a: f'{a}'), ('len(K)', lambda a: len(a)), ('{K!r}~', lambda a: f'{a!r}~')]


def seq_value_key(v) -> str:
    return json.dumps(canon([type(v).__name__, repr(v)[:200]]))


def seq_literal_rules(rng, name: str, vocab: list, pristine: set) -> list:
    """rules whose keys are bound by literal constants; their constants are named d1.. (the same in every rule and grammar,
    so that the same text meets the same key set again).  Twins: 2-3 sibling rules that bind the SAME key to equal literals of
    different types and read it with the same constants"""
    out = []

    def new(nm):
        out.append({'name': nm, 'keys': [], 'late': None, 'call': None, 'consts': [], 'late_consts': [], 'typed': [], 'lit': True})
        return out[-1], iter('d%d' % i for i in range(1, 9))

    def con(cls, lit, fn, name=None, **kw):
        r['consts'].append(dict({'cls': cls, 'lit': lit, 'fn': fn, 'alert': False, 'name': name or next(dn), 'fname': None}, **kw))
    if rng.random() < 0.55:
        k = rng.choice(SEQ_TWIN_KEYS)
        cls = rng.choice(SEQ_TWINS)
        reads = [t for t in SEQ_TWIN_READ if t[0] != 'format(K)' or 'format' in pristine]
        reads = rng.sample(reads, rng.choice([1, 2, 2]))
        for j, lit in enumerate(rng.sample(cls, min(len(cls), rng.choice([2, 3])))):
            r, dn = new(name + 'abc'[j])
            con('twin-key', lit, (lambda T, sem, lit=lit: ast.literal_eval(lit)), name=k,
                value_key=seq_value_key(ast.literal_eval(lit)))
            for text, f in reads:
                con('twin', text.replace('K', k), (lambda T, sem, f=f, lit=lit: f(ast.literal_eval(lit))))
    else:
        r, dn = new(name)
        k = rng.choice(SEQ_MUT_KEYS)
        w = rng.choice(vocab)
        r['keys'] = [w]
        lit, kind = rng.choice(SEQ_MUTABLE)

        def start(T, sem):
            T['#' + k] = ast.literal_eval(lit)
            return ast.literal_eval(lit)
        con('mut-key', lit, start, name=k, value_key=seq_value_key(ast.literal_eval(lit)))
        for _ in range(rng.choice([1, 1, 2])):
            text, f = rng.choice(SEQ_MUTATE[kind])
            con('mut', text.replace('K', k).replace('W', w), (lambda T, sem, f=f: f(T['#' + k], T[w])))
        # (a text with braces in it would be read as a template once more: only the list is shown inside a frame)
        reads = [t for t in SEQ_MUT_READ if (t[0] != 'len(K)' or ('len' in pristine and w != 'len'))
                 and (t[0] == '{K}' or kind == 'list')]
        for text, f in rng.sample(reads, min(len(reads), rng.choice([1, 2]))):
            con('mut-read', text.replace('K', k),
                (lambda T, sem, f=f, text=text: NOEXP if ('len' in sem and 'len' in text) else f(T['#' + k])))
    for r in out:
        r['ncon'] = (len(r['consts']), 0)
        r['cnames'] = [c['name'] for c in r['consts']]
        r['declared'] = set(r['keys']) | set(r['cnames'])
    return out


class Drop(Exception):
    pass


def seq_word(rng, digits=False) -> str:
    if digits or rng.random() < 0.2:
        return str(rng.randint(0, 999))
    return rng.choice('123456789') + ''.join(rng.choice('abcdefgh') for _ in range(rng.randint(1, 4)))


def seq_settle(v, taken: set):
    """what the interpolation loop makes of an interpolated text that is not an evaluable expression: literal_eval decides.
    Raises Drop when the text could be evaluated (then this generator has no independent expectation)."""
    n = 0
    while isinstance(v, str):
        n += 1
        if n > 4 or v != v.strip() or '\n' in v or not v:
            raise Drop()
        try:
            v = ast.literal_eval(v)
            continue
        except (ValueError, SyntaxError, TypeError, MemoryError, RecursionError):
            pass
        if '{' in v or '}' in v or "'" in v or '"' in v or '\\' in v:
            raise Drop()
        try:
            t = ast.parse(v, mode='eval')
        except (ValueError, SyntaxError):
            return v
        names = {x.id for x in ast.walk(t) if isinstance(x, ast.Name)}
        if not names or names & taken:
            raise Drop()
        return v            # mentions a name bound nowhere: rejected, left as text
    return v


def seq_expected(v):
    return ['str', v] if isinstance(v, str) else canon([type(v).__name__, repr(v)[:200]])


def seq_template(rng, own, declared, pristine, foreign, semforeign, walrus, randnames, typenames=()):
    """-> (class, literal, fn(T, sem) -> value | NOEXP).  T: texts of the rule's keys; sem: names of the attached semantics"""
    o = rng.choice(own)
    o2 = rng.choice(own)
    bi = [b for b in SEQ_CALLS if b in pristine and b not in declared]
    kinds = ['own', 'own2', 'method', 'foreign', 'foreign', 'foreign', 'semcall', 'random']
    if bi:
        kinds += ['call', 'call', 'fcall']
    if walrus:
        kinds.append('walrus')
    if semforeign:
        kinds.append('semforeign')
    if typenames:
        kinds += ['typename', 'typename']
    kind = rng.choice(kinds)

    def callb(b, x, sem):
        return (b + ':' + x) if b in sem else SEQ_CALLS[b](x)
    if kind == 'own':
        return kind, '{%s}' % o, (lambda T, sem: T[o]), None
    if kind == 'own2':
        return kind, '{%s}~{%s}' % (o, o2), (lambda T, sem: T[o] + '~' + T[o2]), None
    if kind == 'method':
        return kind, '%s.upper()' % o, (lambda T, sem: T[o].upper()), None
    if kind == 'call':
        b = rng.choice(bi)
        return kind, '%s(%s)' % (b, o), (lambda T, sem: callb(b, T[o], sem)), None
    if kind == 'fcall':
        b = rng.choice(bi)
        return kind, '{%s(%s)}{%s}' % (b, o, o2), (lambda T, sem: str(callb(b, T[o], sem)) + T[o2]), None
    if kind in ('foreign', 'typename'):
        # 'typename': the name of the type of a rule of this grammar (`r::int`), used the way a grammar author would
        f = rng.choice(typenames) if kind == 'typename' else rng.choice(rng.choice(foreign))
        kind = 'foreign'
        lit = rng.choice(['F(O)', '{F(O)}', 'F(O) + 1', '{O}: {F(O)}', 'len(F(O))', 'F()'] if f in typenames and rng.random() < 0.6 else ['{F}', 'F', '{O}{F}', 'len(F)', 'F.upper()', '{F!r}', '{F}~{O}', 'max(O, F)', ' {F}', '{O}: {F}', 'F(O)',
                          '{F(O)}', '[F]', '{len(F)}', 'O + F', '{O.upper()}{F}']).replace('F', f).replace('O', o)
        return kind, lit, (lambda T, sem: Rejected(lit.strip())), f
    if kind == 'semcall':
        s = rng.choice([n for d in SEQ_SEMS for n in d['names'] if n not in declared])
        lit = '%s(%s)' % (s, o)
        return kind, lit, (lambda T, sem: (s + ':' + T[o]) if s in sem else
                           (SEQ_CALLS[s](T[o]) if s in SEQ_CALLS and s in pristine else Rejected(lit))), None
    if kind == 'semforeign':
        f = rng.choice(semforeign)
        lit = '{%s}~{%s}' % (o, f)
        return kind, lit, (lambda T, sem: NOEXP if f in sem else Rejected(lit)), None
    if kind == 'walrus':
        z = rng.choice(walrus)
        n = rng.randint(2, 99)
        return kind, '(%s := %d)' % (z, n), (lambda T, sem: n), None
    e = gen_random_expr(rng, rng.randint(1, 3), randnames)
    if '`' in e or '\n' in e or not e.strip():
        e = o
    return 'random', e, (lambda T, sem: NOEXP), None


class Rejected:
    """the expression mentions a name that is not bound in the current AST: it stays text"""
    def __init__(self, text):
        self.text = text


def seq_grammar(rng, gid: int, pristine: set, vocab: list) -> dict:
    nrules = rng.choice([1, 1, 2, 2, 3])
    bkeys = [b for b in SEQ_BUILTIN_KEYS if b in pristine]
    rules = []
    cn = iter(SEQ_CNAMES)
    for i in range(nrules):
        pool = vocab + (bkeys if rng.random() < 0.5 else [])
        keys = []
        for k in rng.sample(pool, min(len(pool), rng.randint(1, 3))):
            if k not in keys:
                keys.append(k)
        rules.append({'name': 'r%d' % (i + 1), 'keys': keys, 'late': None, 'call': None, 'consts': [], 'late_consts': [],
                      'typed': []})
    # leaf rules with a type: `t1::int = /\d+/ ;`, `t2::Item::Word = /\d+/ ;`
    typepool = [t for t in SEQ_TYPE_BUILTINS if t not in pristine] + SEQ_TYPE_SYNTH + SEQ_TYPE_CTORS
    trules = []
    if rng.random() < 0.7:
        for j in range(rng.choice([1, 1, 2])):
            tn = rng.choice(typepool if rng.random() < 0.5 else typepool[:len(typepool) - len(SEQ_TYPE_SYNTH) - len(SEQ_TYPE_CTORS)])
            spec = tn
            if tn in SEQ_TYPE_SYNTH[:4] and rng.random() < 0.25:
                spec = tn + '::' + rng.choice([b for b in SEQ_TYPE_SYNTH[:4] if b != tn])
            trules.append({'name': 't%d' % (j + 1), 'spec': spec, 'types': spec.split('::')})
        for r in rules:
            for _ in range(rng.choice([0, 1, 1, 2])):
                # the value of the typed rule is a key of this rule's AST, or is dropped (the rule is reduced all the same)
                r['typed'].append({'key': rng.choice(SEQ_TYPE_KEYS + [None]), 'rule': rng.choice(trules)['name']})
    top = [0]
    for i in range(1, nrules):
        if rng.random() < 0.4:
            rules[i - 1]['call'] = i
        else:
            top.append(i)
    if rng.random() < 0.65:
        for j in range(rng.choice([1, 1, 2])):
            for lr in seq_literal_rules(rng, 'f%d' % (j + 1), vocab, pristine):
                top.append(len(rules))
                rules.append(lr)
    for r in rules:
        if r.get('lit'):
            continue
        if rng.random() < 0.35:
            cand = [k for k in vocab if k not in r['keys']]
            r['late'] = rng.choice(cand)
        r['ncon'] = (rng.randint(1, 3), rng.randint(1, 2) if r['late'] else 0)
        r['cnames'] = [next(cn) for _ in range(sum(r['ncon']))]
        r['declared'] = set(r['keys']) | set(r['cnames']) | ({r['late']} if r['late'] else set()) | \
            ({'i'} if r['call'] is not None else set()) | {t['key'] for t in r['typed'] if t['key']}
    semnames = [n for d in SEQ_SEMS for n in d['names']]
    everything = set(vocab) | set(bkeys) | set(SEQ_OUTSIDE) | set(SEQ_WALRUS) | set(SEQ_CNAMES) | set(semnames) | set(pristine) | {'i'} \
        | set(typepool) | set(SEQ_TYPE_KEYS)
    mytypes = [t for tr in trules for t in tr['types']]
    everything |= set(SEQ_TWIN_KEYS) | set(SEQ_MUT_KEYS) | {'d%d' % i for i in range(1, 9)}
    for r in rules:
        if r.get('lit'):
            continue
        sib = [n for q in rules if q is not r for n in sorted(q['declared'])]
        ok = lambda names: [n for n in dict.fromkeys(names)
                            if n not in r['declared'] and n not in pristine and n not in semnames]
        # mostly names that other rules / other parses of the program bind; then names bound nowhere, names of constants, walrus
        # ... and type names: of the typed rules of this grammar, of the typed rules of other grammars of the program
        cats = [c for c in (ok(sib + vocab), ok(sib + vocab), ok(sib + vocab), ok(SEQ_OUTSIDE), ok(SEQ_CNAMES), ok(SEQ_WALRUS),
                            ok(mytypes), ok(mytypes), ok(mytypes), ok(typepool)) if c]
        foreign = [n for c in cats for n in c]
        semforeign = [n for n in semnames if n not in r['declared'] and n not in pristine]
        cnames = iter(r['cnames'])
        for phase, n in enumerate(r['ncon']):
            own = r['keys'] + ([r['late']] if phase else [])
            for _ in range(n):
                cls, lit, fn, fname = seq_template(rng, own, r['declared'], pristine, cats, semforeign, SEQ_WALRUS,
                                                   own + foreign[:6] + ['len', 'max', 'sorted', 'next', 'repr', 'open', 'type'],
                                                   typenames=ok(mytypes))
                alert = rng.random() < 0.2
                (r['late_consts'] if phase else r['consts']).append(
                    {'cls': cls, 'lit': lit, 'fn': fn, 'alert': alert, 'name': next(cnames), 'fname': fname})
    lines = ['start = ' + ' '.join(rules[i]['name'] for i in top) + ' $ ;']

    def con(c):
        return '^`%s`' % c['lit'] if c['alert'] else '%s:`%s`' % (c['name'], c['lit'])
    for r in rules:
        els = ["',' %s:/\\w+/" % k for k in r['keys']]
        els += ["',' " + (t['key'] + ':' if t['key'] else '') + t['rule'] for t in r['typed']]
        if r['call'] is not None:
            els.append('i:' + rules[r['call']]['name'])
        els += [con(c) for c in r['consts']]
        if r['late']:
            els.append("',' %s:/\\w+/" % r['late'])
            els += [con(c) for c in r['late_consts']]
        lines.append(r['name'] + ' = ' + ' '.join(els) + ' ;')
    for tr in trules:
        lines.append('%s::%s = /\\d+/ ;' % (tr['name'], tr['spec']))
    # execution order of the keys (input words) and of the constants
    korder, corder = [], []

    def walk(i):
        r = rules[i]
        korder.extend((i, k) for k in r['keys'])
        korder.extend((i, '#' + str(t['key'])) for t in r['typed'])       # '#': an input word for a typed rule (digits)
        if r['call'] is not None:
            walk(r['call'])
        corder.extend((i, c) for c in r['consts'])
        if r['late']:
            korder.append((i, r['late']))
            corder.extend((i, c) for c in r['late_consts'])
    for i in top:
        walk(i)
    return {'gid': gid, 'name': 'C17s%d' % gid, 'g': '\n'.join(lines), 'rules': rules, 'korder': korder, 'corder': corder,
            'taken': everything, 'types': mytypes, 'asmodel': bool(trules) and rng.random() < 0.3}


def seq_program(rng, nsteps: int, pristine: set) -> list[dict]:
    vocab = rng.sample(SEQ_ORD_KEYS, 5)
    grammars: list[dict] = []
    steps = []
    for sid in range(nsteps):
        r = rng.random()
        if grammars and r < 0.40:
            g = rng.choice(grammars)                      # the same model object parses another input
            how = 'same-model'
        elif grammars and r < 0.48:
            g = dict(rng.choice(grammars))                # the same text and name compiled again (tatsu.compile cache)
            g['gid'] = 1000 + sid
            how = 'recompiled'
        else:
            g = seq_grammar(rng, len(grammars), pristine, vocab)
            grammars.append(g)
            how = 'new-grammar'
        words = [seq_word(rng, digits=k.startswith('#')) for _, k in g['korder']]
        T: dict = {}
        for (ri, k), w in zip(g['korder'], words):
            T.setdefault(ri, {})[k] = w
        sem = rng.choice(SEQ_SEM_CHOICES)
        semset = set(sem['names']) if sem else set()
        expected = []
        opaque: set = set()
        for ri, _ in g['corder']:
            T.setdefault(ri, {})
        for ri, c in g['corder']:
            if c['cls'] == 'random':
                opaque.add(ri)      # its value (any object, e.g. a function) becomes an entry of the rule's AST
            if ri in opaque:
                expected.append(None)
                continue
            try:
                v = c['fn'](T[ri], semset)
                if v is NOEXP:
                    expected.append(None)
                elif isinstance(v, Rejected):
                    expected.append(['str', v.text])
                else:
                    expected.append(seq_expected(seq_settle(v, g['taken'])))
            except Drop:
                expected.append(None)
        steps.append({'id': sid, 'gid': g['gid'], 'name': g['name'], 'g': g['g'], 'text': ''.join(',' + w for w in words),
                      'sem': sem, 'how': how, 'grammar': g, 'expected': expected, 'asmodel': g['asmodel']})
    return steps


def seq_wire(steps):
    return [{k: s[k] for k in ('id', 'gid', 'name', 'g', 'text', 'sem', 'asmodel')} for s in steps]


def walrus_targets(lit: str) -> set:
    out = set()
    if not isinstance(lit, str):
        return out
    for src in (lit.strip(), 'f' + repr(lit.strip())):
        try:
            out |= {n.target.id for n in ast.walk(ast.parse(src, mode='eval')) if isinstance(n, ast.NamedExpr)}
        except (ValueError, SyntaxError):
            pass
    return out


def seq_problems(step: dict, rec: dict, semnames_all: set, vocab_all: set) -> list[tuple[str, str, dict]]:
    """oracles on ONE step of a sequence -> [(signature, what, detail)]"""
    g = step['grammar']
    out = []
    if rec.get('sb'):
        kinds = '+'.join(k for k in ('added', 'removed', 'replaced') if rec['sb'][k])
        out.append((f'state:safe_builtins-mutated:{kinds}',
                    f'after the parse safe_builtins() is no longer the filtered interpreter builtins: {rec["sb"]}', {'diff': rec['sb']}))
    if rec.get('sem_mutated'):
        out.append(('state:safe_context-mutated', 'the dict returned by semantics.safe_context() was modified by the parse: '
                    f'{rec["sem_mutated"]}', {'diff': rec['sem_mutated']}))
    for evn in classify_events(rec.get('events', [])):
        out.append((f'state:event:{evn}', f'the parse fires the audit event {evn!r}', {'event': evn}))
    has_random = any(c['cls'] == 'random' for _, c in g['corder'])
    if rec.get('outcome') != 'value' and not (has_random and rec.get('outcome') == 'failed-semantics'):
        out.append((f"state:outcome:{str(rec.get('outcome')).split(':')[0]}",
                    f"a grammar whose constants only use bound names, pure builtins and unbound names ends with {rec.get('outcome')}: "
                    f"{rec.get('detail')}", {'outcome': rec.get('outcome'), 'detail': rec.get('detail')}))
    calls = rec.get('calls') or []
    sem = set(step['sem']['names']) if step['sem'] else set()
    declared_of: dict = {}
    for ri, c in g['corder']:
        declared_of.setdefault(c['lit'], set()).update(g['rules'][ri]['declared'])
    alldecl = set().union(*(r['declared'] for r in g['rules']))
    declared_ns: dict = {}      # literals that the grammar compiler has already evaluated reach constant() as values
    for ri, c in g['corder']:
        if c.get('value_key'):
            declared_ns.setdefault(c['value_key'], set()).update(g['rules'][ri]['declared'])
    for n, call in enumerate(calls):
        lit = call['lit']
        if not isinstance(lit, str) and has_random:
            continue        # `1`, `None`: the grammar compiler already evaluated the text of the constant
        decl = declared_of.get(lit) if isinstance(lit, str) else declared_ns.get(json.dumps(canon(lit)))
        if decl is None and has_random:
            # the text of a random expression with quotes is not the literal the grammar compiler stores
            decl = set().union(*(g['rules'][ri]['declared'] for ri, c in g['corder'] if c['cls'] == 'random'))
        if decl is None:
            out.append(('state:unexpected-constant-call', f'constant() was called with {lit!r}, which the grammar does not contain', {'call': call}))
            continue
        astk = call['ast']
        if astk is None or not set(astk) <= decl:
            out.append(('state:current-ast-not-the-rule', f'the AST of the rule being parsed has the keys {astk}, the rule declares {sorted(decl)}',
                        {'call': call}))
            continue
        # a walrus of the literal itself writes into the context of this one call (the loop may look at it again)
        allowed = set(astk) | sem
        own_walrus = walrus_targets(lit)
        for d in call['ctx']:
            leaked = sorted(set(d.get('extra', [])) - allowed - own_walrus) if 'extra' in d else []
            lost = sorted(allowed - set(d.get('extra', []))) if 'extra' in d else []
            missing = d.get('missing', [])
            if d.get('empty') or d.get('error') or leaked or lost or missing:
                classes = set()
                for name in leaked:
                    if name in alldecl:
                        classes.add('sibling-rule')
                    elif name in SEQ_WALRUS:
                        classes.add('walrus')
                    elif name in semnames_all:
                        classes.add('semantics')
                    elif name in SEQ_TYPE_BUILTINS + SEQ_TYPE_SYNTH + SEQ_TYPE_CTORS:
                        classes.add('rule-type')
                    elif name in vocab_all:
                        classes.add('other-parse')
                    else:
                        classes.add('outside')
                if lost:
                    classes.add('own-name-lost')
                if missing:
                    classes.add('builtin-missing')
                if d.get('empty') or d.get('error'):
                    classes.add('no-context')
                out.append(('state:context-not-current-ast:' + '+'.join(sorted(classes)),
                            f'the constant {lit!r} is evaluated in a context that is not builtins | safe_context | current AST: '
                            f'foreign names {leaked[:8]}, own names lost {lost[:8]}, builtins missing {missing[:8]}',
                            {'call': call, 'leaked': leaked, 'lost': lost, 'missing': missing}))
                break
    # what an alert records is what constant() returned for its expression
    if rec.get('outcome') == 'value' and len(calls) == len(g['corder']) and rec.get('alerts') is not None:
        mask = lambda r: canon(r) if isinstance(r, list) and len(r) == 2 and isinstance(r[1], str) and r[0] != 'str' else r
        want = [mask(call.get('res')) for (ri, c), call in zip(g['corder'], calls) if c['alert']]
        got = [mask(m) for m in rec['alerts']]
        if want != got:
            k = next((i for i, (w, m) in enumerate(zip(want, got)) if w != m), min(len(want), len(got)))
            lit = [c['lit'] for _, c in g['corder'] if c['alert']][k] if k < len(want) else None
            out.append(('state:alert-message', f'the alerts of the parse record {got[k:k + 1]} for ^`{lit}`, constant() returned '
                        f'{want[k:k + 1]} ({len(got)} recorded, {len(want)} evaluated)',
                        {'literal': lit, 'recorded': got, 'evaluated': want}))
    exp = step['expected']
    if rec.get('outcome') == 'value' and len(calls) != len(exp):
        out.append(('state:constant-calls', f'{len(calls)} constants evaluated, the grammar runs {len(exp)}', {'calls': calls}))
    for (ri, c), e, call in zip(g['corder'], exp, calls):
        if e is not None and call.get('res') != e and call['lit'] == c['lit']:
            out.append((f"state:constant-value:{c['cls']}", f"the constant {c['lit']!r} evaluates to {call.get('res')}, expected {e} "
                        f"(keys of its rule: {g['rules'][ri]['keys']}, input {step['text']!r})",
                        {'literal': c['lit'], 'impl': call.get('res'), 'expected': e}))
            break
    return out


def run_sequences(chk: Check, info: dict, scratch: Path):
    rng = chk.rng
    pristine = set(info['safe_builtins'])
    nprog, nsteps = (2, 42) if chk.quick else (5, 100)
    semnames_all = {n for d in SEQ_SEMS for n in d['names']}
    vocab_all = set(SEQ_ORD_KEYS) | set(SEQ_BUILTIN_KEYS) | set(SEQ_CNAMES) | {'i'}
    n_bad = 0
    n_order = 0
    n_ctx = 0
    n_foreign_live = 0
    n_type_live = 0
    shrunk: dict = {}       # signature of a problem -> signature of its minimal reproduction
    for pi in range(nprog):
        steps = seq_program(rng, nsteps, pristine)
        order2 = list(steps)
        rng.shuffle(order2)
        runs = run_child([{'kind': 'seq', 'steps': seq_wire(steps), 'pristine': sorted(pristine)},
                          {'kind': 'info'}], scratch)
        run1 = runs[0]
        run2 = run_child([{'kind': 'seq', 'steps': seq_wire(order2), 'pristine': sorted(pristine)}], scratch)[0]
        for r in (run1, run2):
            if 'error' in r:
                raise RuntimeError('child error in a sequence: ' + r['error'])
        by1 = {r['id']: r for r in run1['steps']}
        by2 = {r['id']: r for r in run2['steps']}
        bound_so_far: set = set()
        types_so_far: set = set()
        for order, by, tag in ((steps, by1, 'forward'), (order2, by2, 'shuffled')):
            for pos, st in enumerate(order):
                rec = by[st['id']]
                if tag == 'forward':
                    chk.case('S4:' + json.dumps([st['g'], st['text'], st['sem'] and st['sem']['sid']]), nontrivial=bool(rec.get('calls')))
                    chk.count('S4.steps')
                    chk.count('S4.step.' + st['how'])
                    chk.count('S4.sem.' + ('none' if not st['sem'] else str(st['sem']['sid'])))
                    skind = st['sem'].get('kind', 'user') if st['sem'] else ('compile-asmodel' if st['asmodel'] else 'none')
                    chk.count('S4.semkind.' + skind)
                    builder = skind in ('mbs', 'mbs-ctors', 'mbs-fresh', 'asmodel-parse', 'compile-asmodel')
                    if st['grammar']['types']:
                        chk.count('S4.parses_of_grammars_with_typed_rules')
                    chk.count('S4.constants', len(rec.get('calls') or []))
                    n_ctx += sum(1 for c in rec.get('calls') or [] if c['ctx'])
                    for (ri, c), e in zip(st['grammar']['corder'], st['expected']):
                        chk.count('S4.tmpl.' + c['cls'])
                        if e is not None:
                            chk.count('S4.expected')
                        if c['cls'] == 'foreign' and c['fname'] in bound_so_far:
                            n_foreign_live += 1
                        if c['cls'] == 'foreign' and builder and c['fname'] in types_so_far | set(st['grammar']['types']):
                            n_type_live += 1        # names a type that this builder semantics may have resolved already
                    if builder:
                        types_so_far |= set(st['grammar']['types'])
                    for r in st['grammar']['rules']:
                        bound_so_far |= r['declared']
                    if rec.get('outcome', '').startswith('grammar-rejected'):
                        raise RuntimeError(f"generated grammar rejected: {rec.get('detail')}\n{st['g']}")
                probs = seq_problems(st, rec, semnames_all, vocab_all)
                for sig, what, detail in probs:
                    n_bad += 1
                    if sig in shrunk or len(shrunk) >= 8:
                        chk.violation(shrunk.get(sig, sig + ':after-history'), what, {'oracle': 'S4 sequences', 'detail': detail})
                        continue
                    # minimal reproduction: the step alone, then after one earlier step, else the whole prefix
                    cands = [[st]] + [[order[j], st] for j in range(pos - 1, max(-1, pos - 7), -1)]
                    found = None
                    for cand in cands:
                        rr = run_child([{'kind': 'seq', 'steps': seq_wire(cand), 'pristine': sorted(pristine)}], scratch)[0]
                        last = rr['steps'][-1]
                        same = [p for p in seq_problems(st, last, semnames_all, vocab_all) if p[0].split(':')[1] == sig.split(':')[1]]
                        if same:
                            found = (cand, same[0])
                            break
                    if found is None:
                        found = (order[:pos + 1], (sig, what, detail))
                    cand, (sig2, what2, detail2) = found
                    hist = 'fresh-process' if len(cand) == 1 else 'after-history'
                    if len(cand) == 2:
                        hist = 'after-same-model' if cand[0]['gid'] == st['gid'] else \
                            'after-same-grammar' if cand[0]['g'] == st['g'] else 'after-other-grammar'
                    shrunk[sig] = f'{sig2}:{hist}'
                    chk.violation(f'{sig2}:{hist}', what2 + f' [{tag} order, step {pos}; reproduced by a sequence of {len(cand)} parse(s)]',
                                  {'oracle': 'S4 sequences', 'detail': detail2,
                                   'sequence': [{'grammar': s['g'], 'input': s['text'],
                                                 'semantics_safe_context': s['sem'] and s['sem']['names'],
                                                 'semantics_kind': s['sem'] and s['sem'].get('kind', 'user'),
                                                 'compile_asmodel': s['asmodel'],
                                                 'model': s['name'] + '#' + str(s['gid'])} for s in cand[-6:]]})
        # the same step must behave the same wherever it stands in the sequence
        for st in steps:
            mask = lambda r: canon(r) if isinstance(r, list) and len(r) == 2 and isinstance(r[1], str) else r
            a = [(c['lit'], mask(c.get('res')), c['ctx']) for c in by1[st['id']].get('calls') or []]
            b = [(c['lit'], mask(c.get('res')), c['ctx']) for c in by2[st['id']].get('calls') or []]
            if a != b or by1[st['id']].get('outcome') != by2[st['id']].get('outcome'):
                n_order += 1
                diff = next((x for x in zip(a, b) if x[0] != x[1]), (a[-1:] , b[-1:]))
                chk.violation('state:order-dependent', f'the parse of {st["text"]!r} with\n{st["g"]}\nevaluates its constants differently '
                              f'depending on the parses that ran before it: {diff[0]} vs {diff[1]}',
                              {'oracle': 'S4 order', 'grammar': st['g'], 'input': st['text'], 'first_order': diff[0], 'second_order': diff[1]})
        # the interpreter that ran the whole program still reports the builtins S0 compared with the model
        after = runs[1]
        if sorted(after.get('safe_builtins', [])) != sorted(pristine):
            chk.violation('state:safe_builtins-mutated:names', 'after a sequence of parses safe_builtins() has other names than in a fresh '
                          f'interpreter: {sorted(set(after.get("safe_builtins", [])) ^ pristine)[:10]}', {'oracle': 'S4'})
            n_bad += 1
    chk.count('S4.contexts_compared', n_ctx)
    chk.count('S4.foreign_names_bound_earlier', n_foreign_live)
    chk.count('S4.type_names_resolved_by_a_builder_semantics', n_type_live)
    chk.obligation('S4:every constant of a sequence of parses is evaluated in builtins | safe_context | current AST and has its '
                   'stand-alone value; safe_builtins() and safe_context() dicts are left alone; order of parses is irrelevant',
                   'oracle', n_bad == 0 and n_order == 0 and n_ctx >= 100 and n_foreign_live >= 12 and n_type_live >= 8
                   and chk.dist.get('S4.tmpl.twin', 0) >= 10 and chk.dist.get('S4.tmpl.mut-read', 0) >= 10
                   and chk.dist.get('S4.step.same-model', 0) >= 10 and chk.dist.get('S4.expected', 0) >= 100,
                   f"{n_bad} problem(s), {n_order} order dependence(s) over {chk.dist.get('S4.steps', 0)} parses / "
                   f"{chk.dist.get('S4.constants', 0)} constants ({n_ctx} contexts compared, {chk.dist.get('S4.expected', 0)} values "
                   f"with an independent expectation, {n_foreign_live} unbound names that an earlier parse had bound, {n_type_live} constants "
                   f"naming the type of a rule that a model-builder semantics had resolved)")
    chk.sample({'S4': steps[0]['g'], 'input': steps[0]['text'], 'calls': by1[steps[0]['id']].get('calls')})


TABLE_ROWS: list = []


def main():
    chk = Check(PID)
    chk.rule = ('every name of vars(builtins) (157 on CPython 3.12) in 34+ syntactic positions (bare, called with plausible arguments, '
                'attribute, method, indirect call, lambda default, comprehension target, walrus, f-string, key= callback), fixed '
                'expressions (dunder / non-dunder attribute chains, nested f-strings, comprehensions, lambdas, syntax errors), random '
                'compositions over names x attributes x calls x lambdas x comprehensions, in 12 contexts (AST keys shadowing builtins, '
                'dunder key, lambda, mismatched callable, exception class/instance, partial) + 2 shadowing contexts (every builtin name '
                'the filter removed bound to data / to a same-named harmless function) with the name used free in nested scopes '
                '(27 shapes: generator expressions, key= lambdas, comprehensions, defaults, two deep; random nested compositions); '
                'accepted values compared with the value under context-only name resolution; grammars whose own AST keys are '
                'spelled like builtins (open:, eval:, type:, ...); accepted ones evaluated under an audit '
                'hook directly and through the parser (constant and alert, literal written in the grammar and patched into the model); '
                'sequences of parses in one interpreter (2 programs x 42 parses quick, 5 x 100 thorough, each also in a shuffled '
                'order): grammars of 1-3 rules (siblings / nested calls, a key bound between constants) over a small vocabulary of key '
                'names incl. builtin spellings, 10 constant shapes over own keys / pure builtins / semantics functions / names bound '
                'only elsewhere (other rule, other parse, other grammar, bootstrap grammar, walrus, detached semantics), constants and '
                'alerts, same model re-parsed, same text recompiled, persistent safe_context() dicts; typed leaf rules '
                '(`t::int`, `::dir`, `::Item::Word`, 12 withheld builtins + synthesized + user constructors) under the semantics TatSu '
                'ships (ModelBuilderSemantics kept for the program / fresh / with registered constructors, compile(asmodel=True), '
                'parse(asmodel=True), ASTSemantics) with constants that name those types; sibling rules binding one key to equal '
                'literals of different types (1 / True / 1.0, 0 / False / 0.0 / -0.0, tuples and lists of them) read by the same '
                'constant texts; keys bound by mutable literals ([] [0] {} {..}) filled by method calls of later constants and read '
                'back, the containers of every returned AST edited by the caller; '
                'every attribute name (harmless, dunder, blocked) in 52 syntactic positions of an attribute reference, 27 of them '
                'binding positions (comprehension targets: plain, tuple / list / starred / nested patterns, second clause, inside '
                'f-string fields and format specs, under subscripts), on a context with objects that have writable attributes and '
                'on grammars with a sub-AST, random comprehension targets (name / attribute / subscript / pattern); texts in the '
                'str.format field syntax (root x chain x conversion x spec, 12 frames) as constants and as alerts of level 1-3, '
                'alert messages read from parseinfo.alerts; texts built from literal chunks (quotes single / doubled / tripled / at '
                'the end / next to a field, backslashes before letters, quotes, braces and the end, escaped braces, non-ASCII, line '
                'ends) and 40 fields (quote-free, over the sub-AST, with quotes inside), whose interpolation is known by '
                'construction, as constants and alerts, patched and written in the grammar; 35 accepted expressions that fail when '
                'evaluated (index, key, conversion, iterator, arithmetic, format-spec errors). '
                'Non-trivial: the expression parses / the loop made at least one oracle call; distinct by content hash.')
    chk.trusted += ['CPython audit events (open, exec, compile, import, builtins.input, os.*, subprocess.*) observed beneath a '
                    "frame of '<string>' code; sys.stdin replaced by a recorder (exit/quit close it)",
                    'ast.parse -> rose tree conversion (harness/props/c17.py:to_tree); the scan_for_exceptions oracle has_exc',
                    'S4: the expected value of a templated constant is computed by the harness (python len/max/min/sorted/str.upper on the '
                    'texts of the keys; ast.literal_eval for the final text; a text that could be an evaluable expression gets no expectation); '
                    'ParserEngine.constant / engine.is_eval_safe / engine.safe_eval are wrapped to record the AST keys and the context; '
                    'S3 records literal_eval by replacing ast.literal_eval for the time of a parse',
                    'dunder-state snapshot of the objects reachable from a context (harness/props/c17.py: reachable / own_state: class, '
                    'identity and dunder entries of __dict__, function __defaults__/__kwdefaults__/__code__/__name__/...), depth 3; '
                    'alert messages are read from parseinfo.alerts of the result of model.parse(..., parseinfo=True) (S3) and from a '
                    'wrapper around ParseStateStack.alert (S4)',
                    'S3b: the expected interpolation of a built text is the concatenation of its chunks and of format(value, spec) of its '
                    'fields, computed by the harness and cross-checked with python reading the text as a raw triple-quoted f-string',
                    'reference evaluation eval(expr, ns, ns) with ns = context + empty __builtins__ (child interpreter, only for '
                    'expressions the checker accepted and that returned a value; reprs compared with addresses masked)',
                    'modelled: safeeval.safe_builtins / _check_safe_eval_cached / check_eval_context, engine.constant loop; the '
                    'capability semantics (Lib/SafeEval.v events) is an abstraction of eval(), tied by S2 only; make_hashable and the '
                    'lru caches are not modelled']
    chk.assumptions += ['methods of data values return data unless the attribute name is reflective (dunder, gi_*/f_*/cr_*/ag_*/tb_* '
                        'introspection, format/format_map): probed by S2',
                        'non-str results of literal_eval / safe_eval never compare equal to a str']
    # ---- T1
    info_t = None
    try:
        import t_safeeval
        os.environ['VERIF_REPO'] = str(vlib.REPO)
        info_t = t_safeeval.main()
        TABLE_ROWS.extend(info_t['rows'])
        chk.obligation('T1:safeeval.py + vars(builtins) -> coq/gen/SafeEvalGen.v', 'translator', True,
                       f"{info_t['n_builtins']} builtins, deny {len(info_t['filter']['deny'])}, blocked attrs {info_t['checker']['blocked']}")
    except Exception as e:
        import t_safeeval
        Path(t_safeeval.OUT).write_text(f'(* translator t_safeeval failed: {type(e).__name__} *)\nDefinition translator_failed : False := I.\n')
        chk.obligation('T1:safeeval.py + vars(builtins) -> coq/gen/SafeEvalGen.v', 'translator', False, f'{type(e).__name__}: {e}')
    st = chk.coq()
    if info_t is None:
        return chk.finish()
    ok, out = vlib.build_modelrun('SafeEval')
    chk.obligation('modelrun_SafeEval builds', 'build', ok, out[-500:])
    if not ok:
        return chk.finish()
    mr = ModelRun('SafeEval')
    scratch = Path(tempfile.mkdtemp(prefix='verif-c17-', dir='/var/tmp'))
    try:
        import time
        t0 = time.time()
        info = run_child([{'kind': 'info'}], scratch)[0]
        if 'error' in info:
            raise RuntimeError(info['error'])
        real_leaks, pinned = run_filter(chk, mr, info)
        t1 = time.time()
        run_checker_and_eval(chk, mr, info, scratch, real_leaks)
        t2 = time.time()
        run_parser(chk, mr, scratch, real_leaks)
        t3 = time.time()
        run_sequences(chk, info, scratch)
        chk.extra['phase_seconds'] = {'S0': round(t1 - t0, 1), 'S1+S2': round(t2 - t1, 1), 'S3': round(t3 - t2, 1),
                                      'S4': round(time.time() - t3, 1)}
    finally:
        shutil.rmtree(scratch, ignore_errors=True)
    chk.exhaustive = False
    return chk.finish()


if __name__ == '__main__':
    sys.exit(main())
