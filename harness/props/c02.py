"""C02 - generated Python parsers behave identically to the grammar model."""
from __future__ import annotations

import sys
from pathlib import Path

sys.path.insert(0, str(Path(__file__).resolve().parent.parent))
import vlib
from vlib import Check, ModelRun
import enginelib as E
import enginegen as G
import enginerun as R

PID = 'C02'


def single_append(e) -> bool:
    k = E.kind(e)
    if k in ('tok', 'pat', 'const', 'dot', 'empty', 'call', 'rep'):
        return True
    if k == 'group':
        return single_append(e[1])
    if k == 'choice':
        return all(single_append(x) for x in e[1])
    return False


def has_non_sa_binding(g) -> bool:
    for _, _, e in g['rules']:
        for x in E.walk(e):
            k = E.kind(x)
            if k == 'named' and not single_append(x[3]):
                return True
            if k == 'over' and not single_append(x[2]):
                return True
    return False


SETTINGS = [E.Settings(), E.Settings(ignorecase=True), E.Settings(nameguard=False), E.Settings(whitespace=r'[ \t]+'), E.Settings(parseinfo=True),
            E.Settings(ignorecase=False)]


def decorate(rng, g):
    """directives, @name rules with keywords, upper-case and keyword-like rule names, @nomemo"""
    rules = []
    ren = {}
    for i, (n, d, e) in enumerate(g['rules']):
        nn = n
        if i > 0 and rng.random() < 0.15:
            nn = rng.choice(['class', 'def', 'if', 'import', 'None', 'print'])      # Python keywords / builtins as rule names
            if nn in ren.values() or any(nn == r[0] for r in g['rules']):
                nn = n
        ren[n] = nn
        rules.append((nn, list(d), e))

    def rn(e):
        k = E.kind(e)
        if k == 'call':
            return ('call', ren.get(e[1], e[1]))
        if k == 'include':
            return ('include', ren.get(e[1], e[1]))
        if k in ('seq', 'choice'):
            return (k, [rn(x) for x in e[1]])
        if k in ('group', 'skipgroup', 'opt', 'skipto'):
            return (k, rn(e[1]))
        if k == 'rep':
            return ('rep', e[1], None if e[2] is None else rn(e[2]), e[3], rn(e[4]))
        if k == 'assoc':
            return ('assoc', e[1], rn(e[2]), rn(e[3]))
        if k == 'look':
            return ('look', e[1], rn(e[2]))
        if k == 'named':
            return ('named', e[1], e[2], rn(e[3]))
        if k == 'over':
            return ('over', e[1], rn(e[2]))
        return e
    rules = [(n, d + (['nomemo'] if rng.random() < 0.1 else []), rn(e)) for n, d, e in rules]
    g = dict(g)
    g['rules'] = rules
    g['directives'] = dict(g.get('directives', {}))
    r = rng.random()
    if r < 0.1:
        g['directives']['ignorecase'] = 'True'
    elif r < 0.2:
        g['directives']['nameguard'] = 'False'
    elif r < 0.3:
        g['directives']['comments'] = r'\(\*.*?\*\)'
    elif r < 0.35:
        g['directives']['parseinfo'] = 'True'
    elif r < 0.4:
        g['directives']['namechars'] = '-'
    return g


LONG_NAMES = ['optional_return_annotation', 'statement_label_identifier', 'qualified_type_parameter_list', 'declaration_specifier_sequence',
              'trailing_comment_or_annotation', 'x']
CTRL_PATTERNS = ['[a\t]+', 'a\tb', '[\t ]*b', 'a\x0bb?', '[\x0c\t]?x', 'b\t?']     # literal control characters inside /patterns/
G.PAT_SAMPLES.update({'[a\t]+': ['a', 'a\ta', '\t'], 'a\tb': ['a\tb'], '[\t ]*b': ['b', '\tb', ' \tb'], 'a\x0bb?': ['a\x0b', 'a\x0bb'],
                      '[\x0c\t]?x': ['x', '\tx', '\x0cx'], 'b\t?': ['b', 'b\t']})


def map_exp(e, f):
    """rebuild e bottom-up, applying f to every node"""
    k = E.kind(e)
    if k in ('seq', 'choice'):
        e = (k, [map_exp(x, f) for x in e[1]])
    elif k in ('group', 'skipgroup', 'opt', 'skipto'):
        e = (k, map_exp(e[1], f))
    elif k == 'rep':
        e = ('rep', e[1], None if e[2] is None else map_exp(e[2], f), e[3], map_exp(e[4], f))
    elif k == 'assoc':
        e = ('assoc', e[1], map_exp(e[2], f), map_exp(e[3], f))
    elif k == 'look':
        e = ('look', e[1], map_exp(e[2], f))
    elif k == 'named':
        e = ('named', e[1], e[2], map_exp(e[3], f))
    elif k == 'over':
        e = ('over', e[1], map_exp(e[2], f))
    return f(e)


def widen(rng, g):
    """families the plain generator does not reach: long names and list names (the folded multi-line define() declaration), cuts in
    every position (choices run through ChoiceContext in generated code), literal control characters in patterns / @@whitespace"""
    fam = rng.choice(['long-names', 'cuts', 'ctrl-patterns', 'plain', 'plain'])
    g = dict(g)
    if fam == 'long-names':
        ren = {}

        def f(e):
            if E.kind(e) == 'named':
                nn = ren.setdefault(e[2], rng.choice(LONG_NAMES) + (str(len(ren)) if rng.random() < 0.5 else ''))
                return ('named', e[1] or rng.random() < 0.4, nn, e[3])
            if E.kind(e) in ('tok', 'pat') and rng.random() < 0.25:
                return ('named', rng.random() < 0.5, ren.setdefault('$' + str(len(ren)), rng.choice(LONG_NAMES) + str(len(ren))), e)
            return e
        g['rules'] = [(n, d, map_exp(e, f)) for n, d, e in g['rules']]
    elif fam == 'cuts':
        from props.c05 import place_cuts
        g['rules'] = [(n, d, place_cuts(rng, e, 0.3)) for n, d, e in g['rules']]
    elif fam == 'ctrl-patterns':
        def f(e):
            if E.kind(e) in ('pat', 'tok') and rng.random() < 0.4:
                return ('pat', rng.choice(CTRL_PATTERNS))
            return e
        g['rules'] = [(n, d, map_exp(e, f)) for n, d, e in g['rules']]
        g['directives'] = dict(g.get('directives', {}))
        r = rng.random()
        if r < 0.3:
            g['directives']['whitespace'] = '[\t ]+'
        elif r < 0.45:
            g['directives']['whitespace'] = '[ \t\x0b]*'
    return g, fam


def norm_cfg(v):
    """regex settings are printed into generated code with control characters escaped (\\t for TAB): equal as regexes"""
    if isinstance(v, str):
        return v.replace('\t', '\\t').replace('\x0b', '\\v').replace('\x0c', '\\f').replace('\n', '\\n').replace('\r', '\\r')
    return v


CUT_WRAPS = ['group', 'opt', 'rep', 'named', 'skipgroup', 'posrep', 'posjoin', 'plain-group', 'named-plain-group',
             'look-cut', 'neglook-cut', 'skipto-cut', 'cut-then-nested', 'rep-cut-neglook', 'posrep-cut-neglook', 'join-cut-neglook',
             'rep-cut-rulefail', 'whole-option-choice']


def cut_scope_grammar(rng, wrap=None):
    """an outer choice whose alternatives share first tokens; the earlier alternative holds an inner construct (group, optional, closure,
    nested choice) with cuts in its options - the last one included - and then fails, so whether the cut stays inside decides the parse"""
    toks = ['a', 'b', 'c']

    def option(last):
        t = rng.choice(toks)
        r = rng.random()
        if r < (0.6 if last else 0.35):
            return ('seq', [('tok', t), 'cut'])
        if r < 0.75:
            return ('seq', [('tok', t), 'cut', ('tok', rng.choice(toks))])
        return ('tok', t)
    n = rng.randint(2, 3)
    inner = ('choice', [option(i == n - 1) for i in range(n)])
    drawn = rng.choice(CUT_WRAPS + ['group', 'whole-option-choice'])      # always drawn, so that the stream does not depend on the caller
    wrap = wrap or drawn
    t1, t2 = rng.choice(toks), rng.choice(toks)
    cutseq = rng.choice([('seq', [('tok', t1), 'cut', ('tok', t2)]), ('seq', [('tok', t1), 'cut']), ('seq', [('group', ('seq', [('tok', t1), 'cut'])), ('tok', t2)])])
    inner_e = {'group': ('group', inner), 'opt': ('opt', inner), 'rep': ('rep', False, None, False, inner),
               'named': ('named', False, 'n', ('group', inner)), 'skipgroup': ('skipgroup', inner),
               # a repetition that must match at least once, with the cut in its body: the cut must not outlive the repetition
               'posrep': ('rep', True, None, False, cutseq), 'posjoin': ('rep', True, ('tok', ','), False, cutseq),
               # a group without alternatives is transparent to cuts: the cut commits the enclosing option
               'plain-group': ('group', cutseq), 'named-plain-group': ('named', False, 'n', ('group', cutseq)),
               # a cut inside a lookahead stays inside it; a cut inside a skip-to expression commits the enclosing option like any element
               'look-cut': ('seq', [('look', False, ('group', ('seq', [('tok', t1), 'cut']))), ('tok', t1)]),
               'neglook-cut': ('seq', [('look', True, ('group', ('seq', [('tok', t2), 'cut', ('tok', 'y')]))), ('tok', t1)]),
               'skipto-cut': ('skipto', ('group', cutseq)),
               # a cut, then a nested construct that succeeds, then a failure: the commit must survive the nested scope
               'cut-then-nested': ('seq', [('tok', t1), 'cut', rng.choice([('opt', ('tok', t2)), ('rep', False, None, False, ('tok', t2)),
                                                                           ('group', ('choice', [('tok', t2), ('tok', 'y')]))])])}.get(wrap)
    alt1 = ('seq', [inner_e if inner_e is not None else ('tok', 'x'), ('tok', 'x'), 'eof'])
    extra_texts, extra_rules = [], []
    if wrap in ('rep-cut-neglook', 'posrep-cut-neglook', 'join-cut-neglook', 'rep-cut-rulefail'):
        # a LATER iteration passes a cut and then fails - by a negative lookahead, or inside a called rule - where the text
        # would go on matching what follows the repetition: the repetition must fail, not end quietly
        t3 = rng.choice([t for t in toks if t != t2] or toks)
        if wrap == 'rep-cut-rulefail':
            body = ('seq', [('tok', t1), 'cut', ('call', 'tail')])
            extra_rules = [('tail', [], ('seq', [('look', True, ('tok', t2)), ('tok', t3)]))]
        else:
            body = ('seq', [('tok', t1), 'cut', ('look', True, ('tok', t2)), ('tok', t3)])
        inner_e = {'rep-cut-neglook': ('rep', False, None, False, body), 'posrep-cut-neglook': ('rep', True, None, False, body),
                   'join-cut-neglook': ('rep', True, ('tok', ','), False, body), 'rep-cut-rulefail': ('rep', False, None, False, body)}[wrap]
        alt1 = ('seq', [inner_e, ('opt', ('tok', ',')), ('tok', t1), ('tok', t2), 'eof'])
        extra_texts = [f'{t1} {t3} {t1} {t2}', f'{t1} {t3} , {t1} {t2}', f'{t1} {t3} {t1} {t3} {t1} {t2}', f'{t1} {t2}', f'{t1} {t3} {t1} {t3}']
    alts = [alt1]
    if wrap == 'whole-option-choice':
        # the WHOLE option is the parenthesised choice (a | (b ~ c | d) | e): its cuts still stay inside the parentheses
        inner_e = rng.choice([('group', inner), ('group', ('group', inner)), inner])
        alts = [inner_e]
        extra_texts = ['x']
    for _ in range(rng.randint(1, 2)):
        alts.append(('seq', [('tok', rng.choice(toks)), ('tok', rng.choice(['y', 'x', 'a'])), 'eof']))
    if rng.random() < 0.3:
        alts.append(('seq', [('rep', False, None, False, ('tok', rng.choice(toks))), 'eof']))
    g = {'rules': [('start', [], ('choice', alts))] + extra_rules, 'directives': {}, 'keywords': []}
    if rng.random() < 0.4 and not extra_texts:      # the same through a rule call
        g['rules'] = [('start', [], ('choice', [('seq', [('call', 'inner'), ('tok', 'x'), 'eof'])] + alts[1:])), ('inner', [], inner_e)]
    words = toks + ['x', 'y']
    # every text of one or two words (what is needed to commit in the inner scope and fail right after it), and some longer ones
    texts = set(words) | {f'{a} {b}' for a in words for b in words} | {' '.join(rng.choice(words) for _ in range(3)) for _ in range(8)}
    if extra_texts and wrap != 'whole-option-choice':
        texts = set(list(sorted(texts))[::3]) | set(extra_texts)
    return g, sorted(texts)


def shard(col, shard_i, ngrammars, ninputs):
    mr = ModelRun('Engine')
    rng = col.rng
    cases = []
    for gi in range(ngrammars):
        if gi % 4 == 3:
            g, _k = G.lrec_grammar(rng)
            texts = G.lrec_inputs(rng, ninputs, g=g)
        elif gi % 8 == 5:
            g, texts = cut_scope_grammar(rng)
            col.count('family.cut-scope')
        elif gi % 8 == 2:
            # rules whose names start with underscores before an upper-case letter (token rules: no whitespace at entry) and bindings
            # whose taken branch yields nothing (end of text, lookahead, cut, void): what a generated parser binds then
            up = rng.choice(['_Num', '__Id', '_TOK', 'Tok', '_tok'])
            nothing = rng.choice(['eof', ('look', False, ('tok', ';')), ('look', True, ('tok', 'q')), 'void', ('seq', ['cut']), ('opt', ('tok', 'q'))])
            bind = rng.choice([('named', False, 'term', ('group', ('choice', [('tok', ';'), nothing]))),
                               ('named', False, 'term', ('opt', ('tok', ';'))),
                               ('over', False, ('group', ('choice', [('tok', ';'), nothing]))),
                               ('named', True, 'terms', ('group', ('choice', [('tok', ';'), nothing])))])
            g = {'rules': [('start', [], ('seq', [('tok', '-'), ('named', False, 'v', ('call', up)), ('tok', 'c'), bind])),
                           (up, [], rng.choice([('pat', r'[a-z0-9]+'), ('seq', [('pat', r'\d+')])]))], 'directives': {}, 'keywords': []}
            texts = ['- 1 c', '-1 c', '-1 c;', '- 1 c ;', '-x c', '-1c', '-1 c q', ' -1 c'][:max(6, ninputs)]
            col.count('family.underscore-upper+empty-binding')
        elif gi % 8 == 6:
            # keywords checked by a @name rule, with @@ignorecase given as a directive and overridden (or not) at parse time
            from props.c11 import gen_kw_grammar
            g, kws, _shape = gen_kw_grammar(rng)
            if rng.random() < 0.6:
                g['directives']['ignorecase'] = 'True'
            words = ['if', 'IF', 'If', 'then', 'end', 'End', 'END', 'foo', 'x', 'x1'] + kws[:6] + [k.upper() for k in kws[:4]] + [k.capitalize() for k in kws[:4]]
            texts = [' '.join(rng.choice(words) for _ in range(rng.randint(1, 3))) for _ in range(ninputs)]
            col.count('family.keywords')
        else:
            g = G.gen_grammar(rng, G.GenCfg(names=0.2, overrides=0.06, skipto=0.04, assoc=0.03, includes=(0.3 if gi % 4 == 1 else 0.0)), depth=rng.choice([2, 3]))
            g = decorate(rng, g)
            g, fam = widen(rng, g)
            col.count('family.' + fam)
            texts = [t[:40] for t in G.gen_inputs(rng, g, ninputs)]
            if fam == 'ctrl-patterns':
                texts += [t.replace(' ', rng.choice(['\t', ' \t', ' ']), 2) for t in texts[1:4]]
        cls = R.generated_parser(g)
        fp_g = E.grammar_text(g)
        if isinstance(cls, tuple):
            m = R.compile_grammar(g)
            col.case(['codegen', fp_g], nontrivial=True)
            col.count('codegen.' + cls[0])
            if not isinstance(m, tuple):       # the grammar compiles, so its generated source must be valid and loadable
                col.violation(f'G0:{cls[0]}:{cls[1] if len(cls) > 1 else ""}', 'the generated parser source is not valid / cannot be produced',
                              {'correspondence': 'G0 generated source is valid Python', 'grammar': fp_g, 'outcome': cls})
            continue
        col.count('codegen.ok')
        for t in texts:
            s = rng.choice(SETTINGS) if rng.random() < 0.5 else SETTINGS[0]
            semspec = ('none', {})
            if rng.random() < 0.25:
                semspec = ('none', {g['rules'][0][0]: 'tag'}) if g['rules'][0][0].isidentifier() else ('identity', {})
            cases.append(R.Case(g, t, None, s, semspec))
    # model.parse (implementation) and the faithful model, in one go
    results = []
    for off in range(0, len(cases), 400):
        results += R.run_cases(mr, cases[off:off + 400], mode='f')
    # the generated parser and the model of generated code (mode g)
    gen_model = []
    for off in range(0, len(cases), 400):
        chunk = cases[off:off + 400]
        reqs, idx = [], []
        for i, c in enumerate(chunk):
            m = R.compile_grammar(c.g)
            if isinstance(m, tuple):
                continue
            try:
                cls = R.generated_parser(c.g)
                gcfg = cls().self_config.override(**c.settings.kwargs())     # the generated parser's own layering
                reqs.append(E.model_request(c.g, m, c.text, c.start, c.settings, c.semspec, mode='g', cfg=gcfg))
                idx.append(i)
            except Exception:
                pass
        reps = mr.ask(reqs)
        out = [None] * len(chunk)
        from tatsu.util import safe_name
        for i, rep in zip(idx, reps):
            gsafe = {'rules': [(safe_name(n), d, e) for n, d, e in chunk[i].g['rules']]}   # generated methods are named safe_name(rule)
            out[i] = E.model_outcome(rep, gsafe, chunk[i].semspec)
        gen_model += out
    for (c, io, mo, extra), gm in zip(results, gen_model):
        fp = [E.grammar_text(c.g), c.text, c.settings.kwargs(), repr(c.semspec)]
        if mo is None:
            col.case(fp, nontrivial=False)
            continue
        go, _ = R.gen_outcome(c)
        col.case(fp, nontrivial=bool(c.text))
        col.count('generated:' + (go[0] if go else 'none'))
        if go[0] == 'timeout' or io[0] == 'timeout':
            continue
        # G2: the real generated parser vs the model of generated code
        if gm is not None and gm[0] != 'recursion' and go != gm:
            col.violation(f'G2:{R.kinds_signature(c) if len(E.grammar_text(c.g)) < 120 else "large"}:gen={go[0]}:model={gm[0]}',
                          'the generated parser differs from the model of generated code (Gen.v)',
                          {'correspondence': 'G2 generated parser vs Gen.v', 'case': c.describe(), 'generated': go, 'gen_model': gm})
        # the property itself: generated parser == model.parse
        if go != io:
            explained = gm is not None and gm == go and mo == io
            cfgdiff = []
            try:
                cls = R.generated_parser(c.g)
                gcfg = cls().self_config.override(**c.settings.kwargs())
                mcfg = R.compile_grammar(c.g).optimized().new_parse_config(**c.settings.kwargs())
                cfgdiff = sorted(f for f in ('parseinfo', 'ignorecase', 'nameguard', 'whitespace', 'namechars', 'comments', 'eol_comments',
                                             'left_recursion', 'memoization') if norm_cfg(getattr(gcfg, f)) != norm_cfg(getattr(mcfg, f)) and (getattr(gcfg, f) or getattr(mcfg, f)))
                if sorted(map(str, gcfg.keywords or ())) != sorted(map(str, mcfg.keywords or ())):
                    cfgdiff.append('keywords')
            except Exception:
                pass
            from tatsu.util import safe_name
            renamed = [n for n, _, _ in c.g['rules'] if safe_name(n) != n]
            if cfgdiff:
                cause = 'config:' + '+'.join(cfgdiff)
            elif renamed and 'parseinfo' in str(go) and str(go).replace("_'", "'") == str(io).replace("_'", "'"):
                cause = 'parseinfo-rule-name-is-safe_name'
            elif has_non_sa_binding(c.g):
                cause = 'last_node-binding'
            else:
                cause = 'define-placement-or-unoptimized'
            # inside the fragment of GenEquiv.v (C02_generated_parser_equals_model) the two MUST agree: a difference there is never
            # one of the listed findings (the theorem says the models agree, so either the code or a model is off)
            if not cfgdiff and cause != 'parseinfo-rule-name-is-safe_name':
                try:
                    frag = mr.ask([E.genok_request(c.g, R.compile_grammar(c.g))])[0]
                    in_fragment = bool(frag) and all(str(x) == '1' for x in frag)
                except Exception:
                    in_fragment = False
                col.count('fragment.differing-case-in-fragment' if in_fragment else 'fragment.differing-case-outside')
                if in_fragment:
                    cause = 'INSIDE-THE-PROVED-FRAGMENT'
                    explained = False
            if explained:
                sig = f'gen-vs-model:explained-by-Gen.v:{cause}'
            elif cause == 'INSIDE-THE-PROVED-FRAGMENT':
                sig = f'gen-vs-model:inside-the-proved-fragment:{io[0]}-vs-{go[0]}'
            else:
                sig = f'gen-vs-model:unexplained:{io[0]}-vs-{go[0]}:{sorted(c.settings.kwargs())}'
            col.violation(sig, f'the generated parser and model.parse disagree ({io[0]} vs {go[0]})',
                          {'oracle': 'generated parser vs model.parse', 'case': c.describe(), 'model.parse': io, 'generated': go,
                           'explained_by_coq_models': explained})
    if cases:
        col.sample(cases[len(cases) // 2].describe())


def replay_witness(chk):
    """the _refuted witness of Properties/C02.v on the real code"""
    import tatsu
    g = "start = n:('a' 'b') ;"
    m = tatsu.compile(g).parse('a b')
    ns: dict = {}
    exec(tatsu.to_python_sourcecode(g, name='W'), ns)
    p = ns['WParser']().parse('a b')
    chk.extra['refuted_witness_replay'] = {'grammar': g, 'text': 'a b', 'model.parse': E.canon(m), 'generated': E.canon(p)}
    chk.obligation('C02_gen_equiv_refuted replays on the real code', 'replay', E.canon(m) != E.canon(p) and E.canon(p) == {'dict': {'n': 'b'}},
                   str(chk.extra['refuted_witness_replay']))


PROBES = {
    # constructs outside the generator's IR, each compared directly: model.parse vs the generated parser
    'verbose-pattern-with-newlines': ("start = /(?x)\nfoo\nbar\n/ $ ;", ['foobar', 'foo', '\nfoo\nbar\n'], None),
    'verbose-pattern-one-line': ("start = /(?x) foo  bar / $ ;", ['foobar', 'foo bar'], None),
    'rule-params': ("start(A, 7) = 'x' ;", ['x'], 'args'),
    'rule-kwparams': ("start(A, k=1) = 'x' ;", ['x'], 'args'),
    'rule-param-with-base': ("start::A::B = 'x' ;", ['x'], 'args'),
    'based-rule': ("start = b ;\na = 'x' ;\nb < a = 'y' ;", ['x y', 'y', 'x'], None),
    'rule-include': ("a = 'x' 'y' ;\nstart = >a 'z' ;", ['x y z', 'z'], None),
    'gather-join': ("start = ','.{'a'}+ ';'%{'b'} $ ;", ['a,a;b;b', 'a , a b ; b', 'a,'], None),
    'alert': ("start = 'a' ^`warn` 'b' $ ;", ['a b', 'a'], None),
    'unicode-names': ("start = größe:'a' ключ:'b' ;", ['a b'], None),
    'eol': ("start = 'a' $-> 'b' ;", ['a\nb', 'a b'], None),
    'right-join': ("start = '^'>{n}+ $ ;\nn = /\\d/ ;", ['2 ^ 3 ^ 2', '1 ^ 2 ^ 3 ^ 4', '2'], None),
    'left-join': ("start = '-'<{n}+ $ ;\nn = /\\d/ ;", ['5 - 2 - 1', '9 - 1 - 2 - 3', '5'], None),
    'based-chain': ("start = c $ ;\na = 'x' ;\nb < a = 'y' ;\nc < b = 'z' ;", ['x y z', 'y z', 'z'], None),
    'nostak-rule': ("start = r 'b' $ ;\n@nostak\nr = 'a' ;", ['a b'], None),
    'override-decorator': ("start = r $ ;\nr = 'a' ;\n@override\nr = 'b' ;", ['a', 'b'], None),
}


def shard_probes(col, shard_i):
    import tatsu

    class Args:
        def start(self, ast, *a, **k):
            return ('$tag', 'start', [ast, list(a), sorted((x, y) for x, y in k.items() if x != 'parseinfo')])

    for name, (g, texts, sem) in PROBES.items():
        try:
            m = tatsu.compile(g)
        except Exception as e:  # noqa
            col.count('probe.grammar-rejected.' + name)
            continue
        try:
            ns: dict = {}
            exec(tatsu.to_python_sourcecode(g, name='P'), ns)
            cls = ns['PParser']
        except Exception as e:  # noqa
            col.case(['probe', name], nontrivial=True)
            col.violation(f'gen-vs-model:probe:{name}:does-not-generate', f'probe grammar compiles but its generated parser does not load: {type(e).__name__}: {e}'[:300],
                          {'oracle': 'probe', 'grammar': g})
            continue
        for t in texts:
            outs = []
            for run in (lambda: m.parse(t, start='start', semantics=Args() if sem else None), lambda: cls().parse(t, start='start', semantics=Args() if sem else None)):
                try:
                    outs.append(('ok', E.canon(run())))
                except tatsu.exceptions.FailedParse:
                    outs.append(('fail', None))
                except Exception as e:  # noqa
                    outs.append(('exc', type(e).__name__))
            col.case(['probe', name, t], nontrivial=True)
            col.count('probe.compared')
            if outs[0] != outs[1]:
                col.violation(f'gen-vs-model:probe:{name}', f'the generated parser and model.parse disagree on probe {name}',
                              {'oracle': 'generated parser vs model.parse (probe)', 'grammar': g, 'text': t, 'model.parse': outs[0], 'generated': outs[1]})


# ---- one generated parser OBJECT reused over a history of calls (failing calls with per-call settings in between): every call must
# ---- behave like the same call on a fresh parser and like model.parse (no setting may survive the call that gave it)
def shard_history(col, shard_i, nhist):
    import tatsu
    from props.c11 import gen_kw_grammar
    rng = col.rng

    def outcome(run):
        try:
            return ('ok', E.canon(run()))
        except tatsu.exceptions.FailedParse:
            return ('fail', None)
        except Exception as e:  # noqa
            return ('exc', type(e).__name__)
    for _ in range(nhist):
        if rng.random() < 0.6:
            g, kws, _shape = gen_kw_grammar(rng)
            words = ['if', 'IF', 'If', 'then', 'end', 'End', 'END', 'foo', 'x', 'x1', 'while'] + kws + [k.upper() for k in kws[:4]] + [k.capitalize() for k in kws[:4]]
            texts = [' '.join(rng.choice(words) for _ in range(rng.randint(1, 3))) for _ in range(8)]
        else:
            g = G.gen_grammar(rng, G.GenCfg(names=0.2, overrides=0.05), depth=2)
            texts = [t[:30] for t in G.gen_inputs(rng, g, 8)]
        cls = R.generated_parser(g)
        m = R.compile_grammar(g)
        if isinstance(cls, tuple) or isinstance(m, tuple):
            continue
        settings_pool = [{}, {}, {'ignorecase': True}, {'ignorecase': False}, {'nameguard': False}, {'whitespace': ''}, {'whitespace': '[ ]+'},
                         {'parseinfo': True}, {'start': g['rules'][-1][0]}]
        reused = cls()
        hist = []
        for step in range(rng.randint(3, 7)):
            t = rng.choice(texts)
            kw = dict(rng.choice(settings_pool))
            hist.append((t, kw))
            a = outcome(lambda: reused.parse(t, **kw))
            b = outcome(lambda: cls().parse(t, **kw))
            c = outcome(lambda: m.parse(t, **kw))
            col.case(['history', E.grammar_text(g), repr(hist)], nontrivial=step > 0)
            col.count('history.calls')
            col.count('history.reused:' + a[0])
            if a != b:
                col.violation(f'history:reused-parser-differs-from-fresh:{b[0]}-vs-{a[0]}:{"+".join(sorted(k for _t, k in hist[:-1] for k in k)) or "nosettings"}',
                              'a generated parser object reused after earlier calls behaves differently from a fresh one on the same call',
                              {'oracle': 'generated parser: calls are independent', 'grammar': E.grammar_text(g), 'history': hist,
                               'reused': a, 'fresh': b, 'model.parse': c})
                break
            if b[0] != c[0]:
                col.count('history.fresh-vs-model-differs')      # the one-shot comparison (shard) reports and classifies these


def shard_config_object(col, shard_i):
    """parse(text, config=ParserConfig(...), keyword=...) in one call: an explicit keyword wins over the config object; model.parse and the
    generated parser must agree (compared on acceptance and on the presence of parse information)"""
    import tatsu
    from tatsu.config import ParserConfig
    g = "start = n:'if' m:/[a-z]+/ $ ;"
    m = tatsu.compile(g)
    ns: dict = {}
    exec(tatsu.to_python_sourcecode(g, name='Q'), ns)
    cls = ns['QParser']
    combos = [
        ({'whitespace': ''}, {'whitespace': r'\s+'}, 'if x'), ({'whitespace': r'\s+'}, {'whitespace': ''}, 'if x'),
        ({'ignorecase': True}, {'ignorecase': False}, 'IF x'), ({'ignorecase': False}, {'ignorecase': True}, 'IF x'),
        ({'nameguard': False}, {'nameguard': True}, 'ifx'), ({'nameguard': True}, {'nameguard': False}, 'ifx'),
        ({}, {'parseinfo': True}, 'if x'), ({'parseinfo': True}, {'parseinfo': False}, 'if x'), ({'parseinfo': True}, {}, 'if x'),
        ({'comments': r'\(\*.*?\*\)'}, {'comments': ''}, 'if (* c *) x'), ({}, {'comments': r'\(\*.*?\*\)'}, 'if (* c *) x'),
    ]

    def outcome(run):
        try:
            r = run()
            return ('ok', bool(getattr(r, 'parseinfo', None)))
        except tatsu.exceptions.FailedParse:
            return ('fail', None)
        except Exception as e:  # noqa
            return ('exc', type(e).__name__)
    for cfgkw, kw, text in combos:
        a = outcome(lambda: m.parse(text, config=ParserConfig(**cfgkw), **kw))
        b = outcome(lambda: cls().parse(text, config=ParserConfig(**cfgkw), **kw))
        want = outcome(lambda: m.parse(text, **{**cfgkw, **kw}))            # the keyword wins
        col.case(['config-object', repr(cfgkw), repr(kw), text], nontrivial=True)
        col.count('config-object.compared')
        if a != b or a != want:
            col.violation(f'config-object:{"+".join(sorted(set(cfgkw) | set(kw)))}:model={a[0]}:generated={b[0]}:expected={want[0]}',
                          'a config object and a keyword setting in one call: the two back-ends disagree, or the keyword does not win',
                          {'oracle': 'config object vs keyword precedence', 'grammar': g, 'config': cfgkw, 'keywords': kw, 'text': text,
                           'model.parse': a, 'generated': b, 'keyword-wins': want})


def main():
    chk = Check(PID)
    chk.rule = ('random grammars over the core language with directives, @nomemo, upper-case and keyword-like rule names (class, def, None, ...), '
                'families: long / list names, cuts after every kind of element, literal control characters in patterns and @@whitespace; '
                'plus left-recursive templates x sentences/mutants x parse-time settings {defaults, ignorecase, nameguard off, whitespace override, '
                'parseinfo} x semantics {none, tagging, identity}; for each: generated source must load (G0), generated parser vs Gen.v (G2), '
                'generated parser vs model.parse (the property), with divergences classified by the Coq models.')
    chk.trusted += ['oracles per case from the real Python (re, unicode, resolved ParserConfig of the MODEL - the generated parser has its own '
                    'ParserConfig.new(...) initialiser, so a difference there shows up as an unexplained divergence)',
                    'Gen.v is a hand-written model of the generated-code runtime; whole-grammar equivalence is not proved (partial)']
    chk.coq()
    ok, out = vlib.build_modelrun('Engine')
    chk.obligation('modelrun_Engine builds', 'build', ok, out[-500:])
    if ok:
        replay_witness(chk)
        if chk.quick:
            vlib.run_sharded(chk, shard, 14, extra=(48, 10))
        else:
            vlib.run_sharded(chk, shard, 28, extra=(50, 10))
        vlib.run_sharded(chk, shard_probes, 1, procs=1)
        vlib.run_sharded(chk, shard_config_object, 1, procs=1)
        chk.obligation('config object and keyword settings in one call: same precedence in both back-ends', 'oracle',
                       not any(v['signature'].startswith('config-object:') for v in chk.violations))
        vlib.run_sharded(chk, shard_history, 14, extra=((12,) if chk.quick else (150,)))
        chk.obligation('a reused generated parser object behaves like a fresh one on every call of a history', 'oracle',
                       not any(v['signature'].startswith('history:') for v in chk.violations))
        chk.obligation('G0: generated source is valid, loadable Python', 'correspondence',
                       not any(v['signature'].startswith('G0') for v in chk.violations))
        chk.obligation('G2: generated parser vs the model of generated code', 'correspondence',
                       not any(v['signature'].startswith('G2') for v in chk.violations))
        chk.obligation('generated parser == model.parse (implementation only)', 'oracle',
                       not any(v['signature'].startswith('gen-vs-model') for v in chk.violations) and
                       not any(s.startswith('gen-vs-model:unexplained') for s in chk.known_hits))
    return chk.finish()


if __name__ == '__main__':
    sys.exit(main())
