"""C16 - left recursion is detected exactly, and never causes unbounded recursion.

Proof side: coq/theories/Properties/C16.v (model Lib/LeftRec.v, proofs Lib/LeftRecProof.v).
Tie R1: for generated grammars the compiled model's rule bodies are translated (fail closed) into the Coq
model's expressions; build/modelrun_LeftRec gives (is_lrec, is_memo) per rule, the first graph and whether
compilation with left recursion off raises; these are compared with tatsu.compile(text) (and with
.optimized(), which re-runs the analysis on rewritten bodies).
Oracles: (a) exactness - left calls, reachability and cycles recomputed by plain DFS from the generator's own
grammar tree (inside the property's guard); (b) every grammar is parsed on a battery of short inputs under a
recursion/timeout watchdog: RecursionError or timeout = "unbounded recursion"; (c) the switches through every channel (S7); (d) `@nomemo`
decorators in the text and every representation of the grammar that reaches the engine - generated Python parser,
generated model source, JSON, pretty text, pickle (S8).
"""
from __future__ import annotations

import ast
import hashlib
import inspect
import itertools
import os
import re
import signal
import sys
import textwrap
from concurrent.futures import ProcessPoolExecutor
from pathlib import Path

sys.path.insert(0, str(Path(__file__).resolve().parent.parent))
import vlib
from vlib import Check, ModelRun

PID = 'C16'
NAMES = 'abcdefghij'

# ================================================================== generator trees -> grammar text
# node = ('call', i) | ('tok', s) | ('opt', n) | ('clo', n) | ('pclo', n) | ('group', n) | ('cut',) | ('void',)
#      | ('pat', regex) | ('look', n) | ('nlook', n) | ('named', n) | ('const',) | ('seq', [n..]) | ('choice', [n..])


def render(n, names, top=False):
    k = n[0]
    if k == 'call':
        return names[n[1]]
    if k == 'tok':
        return repr(n[1])
    if k == 'opt':
        return '[' + render(n[1], names, True) + ']'
    if k == 'clo':
        return '{' + render(n[1], names, True) + '}'
    if k == 'pclo':
        return '{' + render(n[1], names, True) + '}+'
    if k == 'group':
        return '(' + render(n[1], names, True) + ')'
    if k == 'cut':
        return '~'
    if k == 'void':
        return '()'
    if k == 'const':
        return '`k`'
    if k == 'pat':
        return '/' + n[1] + '/'
    if k == 'look':
        return '&' + render(n[1], names)
    if k == 'nlook':
        return '!' + render(n[1], names)
    if k == 'named':
        return 'n:' + render(n[1], names)
    if k == 'seq':
        s = ' '.join(render(x, names) for x in n[1])
        return s if top else '(' + s + ')'
    if k == 'choice':
        s = ' | '.join(render(x, names, True) for x in n[1])
        return s if top else '(' + s + ')'
    raise ValueError(k)


def grammar_text(rules, names, left_recursion=None, directives=(), deco=None):
    """deco: per rule, whether the rule carries the `@nomemo` decorator in the text"""
    out = []
    if left_recursion is not None:
        out.append(f'@@left_recursion :: {left_recursion}')
    for key, value in directives:
        out.append(f'@@{key} :: {value}')
    for i, body in enumerate(rules):
        if deco is not None and deco[i]:
            out.append('@nomemo')
        out.append(f'{names[i]} = {render(body, names, True)} ;')
    return '\n'.join(out) + '\n'


# ------------------------------------------------------------------ the harness's own reading of the property
def true_nullable(rules):
    """least fixpoint: can the rule match empty (calls looked through)"""
    nul = [False] * len(rules)

    def nn(n):
        k = n[0]
        if k == 'call':
            return nul[n[1]]
        if k in ('tok',):
            return False
        if k in ('opt', 'clo', 'cut', 'void', 'const', 'look', 'nlook'):
            return True
        if k == 'pat':
            return re.compile(n[1]).match('') is not None
        if k in ('pclo', 'group', 'named'):
            return nn(n[1])
        if k == 'seq':
            return all(nn(x) for x in n[1])
        if k == 'choice':
            return any(nn(x) for x in n[1])
        raise ValueError(k)

    changed = True
    while changed:
        changed = False
        for i, b in enumerate(rules):
            v = nn(b)
            if v and not nul[i]:
                nul[i] = True
                changed = True
    return nul, nn


def spec_left_calls(n, call_nullable):
    """calls preceded only by elements able to match empty; call_nullable(i) says whether a call can"""
    def nn(n):
        k = n[0]
        if k == 'call':
            return call_nullable(n[1])
        if k == 'tok':
            return False
        if k in ('opt', 'clo', 'cut', 'void', 'const', 'look', 'nlook'):
            return True
        if k == 'pat':
            return re.compile(n[1]).match('') is not None
        if k in ('pclo', 'group', 'named'):
            return nn(n[1])
        if k == 'seq':
            return all(nn(x) for x in n[1])
        if k == 'choice':
            return any(nn(x) for x in n[1])
        raise ValueError(k)

    def lc(n):
        k = n[0]
        if k == 'call':
            return {n[1]}
        if k in ('opt', 'clo', 'pclo', 'group', 'look', 'nlook', 'named'):
            return lc(n[1])
        if k == 'choice':
            return set().union(*[lc(x) for x in n[1]]) if n[1] else set()
        if k == 'seq':
            out = set()
            for x in n[1]:
                out |= lc(x)
                if not nn(x):
                    break
            return out
        return set()

    return lc(n)


def reach_from(graph, i):
    """nodes reachable from i in >= 1 steps (plain DFS)"""
    seen = set()
    stack = list(graph[i])
    while stack:
        v = stack.pop()
        if v in seen:
            continue
        seen.add(v)
        stack.extend(graph[v])
    return seen


def on_cycle(graph):
    return [i in reach_from(graph, i) for i in range(len(graph))]


def has_cycle_within(graph, nodes):
    nodes = set(nodes)
    sub = [[j for j in graph[i] if j in nodes] if i in nodes else [] for i in range(len(graph))]
    return [i for i in nodes if i in reach_from(sub, i)]


def sccs_of(graph):
    n = len(graph)
    r = [reach_from(graph, i) for i in range(n)]
    out = []
    done = set()
    for i in range(n):
        if i in done:
            continue
        comp = {i} | {j for j in r[i] if i in r[j]}
        done |= comp
        out.append(sorted(comp))
    return out


def scc_has_common_node(graph, comp):
    return any(not has_cycle_within(graph, set(comp) - {v}) for v in comp)


def shape_of_leaderless(graph, unguarded):
    """classify a cycle that runs through unguarded rules only"""
    bad = has_cycle_within(graph, unguarded)
    if not bad:
        return None
    for comp in sccs_of(graph):
        if set(comp) & set(bad):
            if len(comp) > 1 and not scc_has_common_node(graph, comp):
                return 'no-common-node-scc'
    return 'leader-missing-despite-common-node'


# ================================================================== translator: compiled model -> Coq expression
LEAF_FALSE = {'Token', 'Dot', 'Fail', 'EOF', 'RuleInclude', 'Comment', 'EOLComment', 'NameMeta', 'IntMeta',
              'UIntMeta', 'FloatMeta', 'BoolMeta', 'Meta'}
LEAF_TRUE = {'Void', 'NIL', 'Constant', 'Alert', 'EOL', 'EmptyClosure'}
BOX_PLAIN = {'Group', 'SkipGroup', 'SkipTo', 'Option', 'Named', 'NamedList', 'Override', 'OverrideList',
             'PositiveJoin', 'LeftJoin', 'RightJoin', 'Synth'}
BOX_TRUE = {'Optional', 'Closure', 'Join', 'Gather', 'Lookahead', 'NegativeLookahead'}
BOX_POS = {'PositiveClosure', 'PositiveGather'}


class Untranslatable(Exception):
    pass


def tr(e, index, n):
    t = type(e).__name__
    if t == 'Call':
        return f'(call {index.get(e.name, n)})'
    if t == 'Cut':
        return 'cut'
    if t in LEAF_FALSE:
        return '(leaf 0)'
    if t in LEAF_TRUE:
        return '(leaf 1)'
    if t == 'Pattern':
        return '(leaf 1)' if re.compile(e.pattern).match('') is not None else '(leaf 0)'
    if t == 'Sequence':
        return '(seq (' + ' '.join(tr(x, index, n) for x in e.sequence) + '))'
    if t == 'Choice':
        return '(choice (' + ' '.join(tr(x, index, n) for x in e.options) + '))'
    if t in BOX_PLAIN:
        return '(box plain ' + tr(e.exp, index, n) + ')'
    if t in BOX_TRUE:
        return '(box true ' + tr(e.exp, index, n) + ')'
    if t in BOX_POS:
        return '(box pos ' + tr(e.exp, index, n) + ')'
    raise Untranslatable(t)


def tr_rules(rules, nomemo=None):
    index = {r.name: i for i, r in enumerate(rules)}
    n = len(rules)
    parts = []
    for i, r in enumerate(rules):
        nm = '(' + ' '.join(str(ord(c)) for c in r.name) + ')'
        flag = r.no_memo if nomemo is None else nomemo[i]
        parts.append(f'({nm} {1 if flag else 0} {tr(r.exp, index, n)})')
    return '(analyse POSFIX (' + ' '.join(parts) + '))'


def source_shape(chk: Check):
    """T1: the class tables above and the functions of pegen.py are the ones the model was written against."""
    from tatsu.peg import base as pbase
    import tatsu.peg  # noqa: F401  (loads every node class)
    from tatsu.peg.leftrec import pegen, sccutils

    want = {}
    for c in LEAF_FALSE:
        want[c] = 'Model'
    want.update({'Void': 'Void', 'NIL': 'NIL', 'Constant': 'Constant', 'Alert': 'Constant', 'EOL': 'EOL',
                 'EmptyClosure': 'EmptyClosure', 'Cut': 'Cut', 'Pattern': 'Pattern', 'Call': 'Model',
                 'Sequence': 'Sequence', 'Choice': 'Choice', 'Rule': 'Rule', 'BasedRule': 'Rule'})
    for c in BOX_PLAIN:
        want[c] = 'Box'
    want['PositiveJoin'] = want['LeftJoin'] = want['RightJoin'] = 'PositiveJoin'
    want.update({'Optional': 'Optional', 'Closure': 'Closure', 'Join': 'Join', 'Gather': 'Join',
                 'Lookahead': 'Lookahead', 'NegativeLookahead': 'NegativeLookahead',
                 'PositiveClosure': 'PositiveClosure', 'PositiveGather': 'PositiveGather'})
    bodies = {'Model': 'return False', 'Void': 'return True', 'NIL': 'return True', 'Constant': 'return True',
              'EOL': 'return True', 'EmptyClosure': 'return True', 'Cut': 'return True',
              'Pattern': "return bool(self._regex.match(''))", 'Box': 'return self.exp._nullable',
              'Rule': 'return self.exp._nullable', 'PositiveJoin': 'return self.exp._nullable',
              'Optional': 'return True', 'Closure': 'return True', 'Join': 'return True',
              'Lookahead': 'return True', 'NegativeLookahead': 'return True',
              'PositiveClosure': 'return self.exp.is_nullable()', 'PositiveGather': 'return self.exp.is_nullable()',
              'Sequence': 'return all(s._nullable for s in self.sequence)',
              'Choice': 'return any(o._nullable for o in self.options)'}
    bad = []
    seen = set()
    posbodies = set()
    for cls in pbase.model_classes():
        name = cls.__name__
        if name in ('Model', 'Leaf', 'Box', 'NamedBox', 'Grammar', 'Patterns', 'ModelContext'):
            continue
        seen.add(name)
        owner = next((k for k in cls.__mro__ if '_nullable' in vars(k)), None)
        if name not in want:
            bad.append(f'unknown node class {name}')
            continue
        if owner is None or owner.__name__ != want[name]:
            bad.append(f'{name}._nullable comes from {owner.__name__ if owner else None}, expected {want[name]}')
            continue
        fn = vars(owner)['_nullable']
        fn = getattr(fn, 'func', fn)
        src = textwrap.dedent(inspect.getsource(fn)).strip().split('\n')[-1].strip()
        if want[name] in ('PositiveClosure', 'PositiveGather'):
            # two modelled variants: the called rule's own nullability (as it is) / exp._nullable (repaired);
            # detect_variant() probes which one is in force and the model is asked accordingly
            if src not in ('return self.exp.is_nullable()', 'return self.exp._nullable'):
                bad.append(f'{owner.__name__}._nullable body is {src!r}')
            posbodies.add(src)
        elif src != bodies[want[name]]:
            bad.append(f'{owner.__name__}._nullable body is {src!r}')
        isn = next((k for k in cls.__mro__ if 'is_nullable' in vars(k)), None)
        exp_isn = 'Call' if name == 'Call' else 'Model'
        if isn is None or isn.__name__ != exp_isn:
            bad.append(f'{name}.is_nullable comes from {isn.__name__ if isn else None}')
    if len(posbodies) != 1:
        bad.append(f'PositiveClosure and PositiveGather disagree: {sorted(posbodies)}')
    missing = [c for c in want if c not in seen and c not in ('Model',)]
    # Comment/EOLComment/Meta etc. are all registered classes; anything in the table must exist
    if missing:
        bad.append(f'classes in the table but not in tatsu.peg: {sorted(missing)}')
    chk.obligation('T1:_nullable of every grammar node class matches the table of the model', 'translator',
                   not bad, '; '.join(bad[:8]))

    def fhash(fn):
        tree = ast.parse(textwrap.dedent(inspect.getsource(fn)))
        return hashlib.sha256(ast.dump(tree).encode()).hexdigest()[:16]

    got = {'_callable_rule_ids': fhash(pegen._callable_rule_ids), '_is_nullable_safe': fhash(pegen._is_nullable_safe),
           '_make_first_graph': fhash(pegen._make_first_graph), 'mark_left_recursion': fhash(pegen.mark_left_recursion),
           'find_cycles_in_scc': fhash(sccutils.find_cycles_in_scc),
           'strongly_connected_components': fhash(sccutils.strongly_connected_components)}
    ok = all(got[k] in v for k, v in PEGEN_HASHES.items())
    chk.obligation('T2:pegen.py/sccutils.py functions are the ones modelled (AST hash; both leader variants accepted)',
                   'translator', ok, str({k: got[k] for k in got if got[k] not in PEGEN_HASHES[k]}))
    return got, ('pos-repaired' if posbodies == {'return self.exp._nullable'} else 'pos-asks-rule')


PEGEN_HASHES = {
    '_callable_rule_ids': {'a1b5bd375dbf8395'},
    '_is_nullable_safe': {'69f065ec4970cd13'},
    '_make_first_graph': {'e809eccc1b72d827'},
    'mark_left_recursion': {'04e4e56e43df3e3a', 'ab8122cb8683888e'},
    'find_cycles_in_scc': {'9ba72bc428ecff35'},
    'strongly_connected_components': {'442437c5248c6937'},
}


# ================================================================== worker: everything that touches tatsu
class _Timeout(BaseException):
    pass


def _alarm(*_a):
    raise _Timeout()


def _guarded(fn, seconds):
    """outcome class of fn(): ('ok', value) | ('recursion',) | ('timeout',) | ('error', type name)"""
    signal.signal(signal.SIGALRM, _alarm)
    signal.setitimer(signal.ITIMER_REAL, seconds)
    try:
        v = fn()
        signal.setitimer(signal.ITIMER_REAL, 0)
        return ('ok', v)
    except RecursionError:
        signal.setitimer(signal.ITIMER_REAL, 0)
        return ('recursion',)
    except _Timeout:
        return ('timeout',)
    except BaseException as e:  # noqa: BLE001
        signal.setitimer(signal.ITIMER_REAL, 0)
        if isinstance(e, (KeyboardInterrupt, SystemExit)):
            raise
        return ('error', type(e).__name__)
    finally:
        signal.setitimer(signal.ITIMER_REAL, 0)


def _watch_guards(run, inp):
    """run() with the memo cache watched (diagnosis only).  Returns (result of run(), need, cap):
    need = the largest number of distinct other keys written to the memo cache between the planting of a guard entry
    (set_left_recursion_guard) and a later lookup of the same key while that activation of the rule has no outcome
    yet - a cache `perlinememos * linecount` entries wide (= cap, for the default setting of the tree under test)
    can push the guard out only when need >= cap;
    None when the engine does not have the three methods any more."""
    try:
        from tatsu.config import ParserConfig
        from tatsu.contexts.core import ParserCore
        from tatsu.contexts.engine import ParserEngine
        from tatsu.exceptions import FailedLeftRecursion
        o_memo, o_memoize = ParserCore.__dict__['memo'], ParserCore.__dict__['memoize']
        o_guard = ParserEngine.__dict__['set_left_recursion_guard']
        cap = int(max(1.0, ParserConfig().perlinememos) * max(1, len(inp.splitlines())))
    except Exception:  # noqa: BLE001
        return run(), None, None
    writes = []
    planted = {}     # key -> write indices of the guards of its activations without an outcome yet
    state = {'need': 0, 'planting': False}

    def kid(key):
        return (key.pos, key.ruleinfo.name)

    def memoize(self, key, memo):
        r = o_memoize(self, key, memo)
        if self._memos.get(key) is memo:
            writes.append(kid(key))
            if state['planting']:
                planted.setdefault(kid(key), []).append(len(writes))
            elif planted.get(kid(key)):
                planted[kid(key)].pop()     # the activation that planted the entry has its outcome now
        return r

    def guard(self, key):
        state['planting'] = True
        try:
            return o_guard(self, key)
        finally:
            state['planting'] = False

    def memo(self, key):
        r = o_memo(self, key)
        k = kid(key)
        if planted.get(k):
            # the rule is looked up again at a position where it is still active (whether or not the entry survived)
            state['need'] = max(state['need'], len(set(writes[planted[k][-1]:]) - {k}))
        return r

    ParserCore.memo, ParserCore.memoize, ParserEngine.set_left_recursion_guard = memo, memoize, guard
    try:
        res = run()
    finally:
        ParserCore.memo, ParserCore.memoize, ParserEngine.set_left_recursion_guard = o_memo, o_memoize, o_guard
    return res, state['need'], cap


def flags(rules):
    return [[bool(r.is_lrec), bool(r.is_memo), bool(r.memoizable)] for r in rules]


def riflags(rules):
    return [[bool(r.ruleinfo.is_lrec), bool(r.ruleinfo.is_memo)] for r in rules]


def _outcome(m, inp, kw, cfg=None):
    """canonical outcome of m.parse(inp, [config=ParserConfig(**cfg)], **kw):
    'ok:<json of the result>' | 'fail:<exception class>' | 'unbounded' | 'error:<class>'"""
    import json
    from tatsu.exceptions import FailedParse
    from tatsu.util import asjson

    def run():
        kwargs = dict(kw)
        if cfg is not None:
            from tatsu.config import ParserConfig
            kwargs['config'] = ParserConfig(**cfg)
        try:
            return 'ok:' + json.dumps(asjson(m.parse(inp, **kwargs)), sort_keys=True, default=repr)
        except FailedParse as e:
            return 'fail:' + type(e).__name__
    r = _guarded(run, 10)
    if r[0] == 'ok':
        return r[1]
    return 'unbounded' if r[0] in ('recursion', 'timeout') else 'error:' + r[1]


def settings_inputs(inputs):
    """at most 8 inputs of the battery, evenly spaced (the empty input first): every channel is run three times"""
    if len(inputs) <= 8:
        return list(inputs)
    return [inputs[i] for i in sorted({round(k * (len(inputs) - 1) / 7) for k in range(8)})]


def work_settings(obs, m, rules, names, inputs, settings):
    """S7: the same grammar with the left-recursion / memoization switches set through every channel:
    directives in the grammar text (-> configuration of the model) and, per parse, keyword settings and/or a
    ParserConfig object.  Observations only; the expected values are computed by the caller."""
    import tatsu
    from tatsu.exceptions import GrammarError
    st = {}
    inputs = settings_inputs(inputs)
    dtext = grammar_text(rules, names, directives=settings['directives'])
    st['text'] = dtext

    def comp(text):
        try:
            return ('compiled', tatsu.compile(text))
        except GrammarError as e:
            return ('GrammarError' if 'left-recursive' in str(e) else 'GrammarError-other', None)
    sys.setrecursionlimit(1200)
    d = _guarded(lambda: comp(dtext), 20)
    st['compile'] = d[1][0] if d[0] == 'ok' else d[0] if d[0] != 'error' else 'error:' + d[1]
    md = d[1][1] if d[0] == 'ok' else None
    if md is not None:
        st['config'] = [bool(md.config.left_recursion), bool(md.config.memoization)]
        st['flags'] = flags(md.rules)
    # the grammar in which the leaders of the parsed (optimized) grammar cannot match: what "left recursion off"
    # means for a parse of a model that has leaders (recursive_call refuses to enter them)
    leaders = set(obs.get('leaders_opt', []))
    dead = [('nlook', ('void',)) if names[i] in leaders else b for i, b in enumerate(rules)]
    x = _guarded(lambda: comp(grammar_text(dead, names)), 20)
    mx = x[1][1] if x[0] == 'ok' else None
    st['dead'] = x[1][0] if x[0] == 'ok' else x[0]
    sys.setrecursionlimit(800)
    st['base'] = [_outcome(m, inp, {}) for inp in inputs]
    runs = []
    for ch in settings['channels']:
        kw, cfg, eff = ch['kw'], ch['cfg'], ch['eff']
        row = {'on_directive_model': md is not None}
        target = md if md is not None else m
        if md is None:
            eff = list(settings_effective([], kw, cfg)[1])
        explicit = {'left_recursion': eff[0], 'memoization': eff[1]}
        row['got'] = [_outcome(target, inp, kw, cfg) for inp in inputs]
        # the same effective settings through the plainest channel: default model, both switches spelled out
        row['canon'] = [_outcome(m, inp, explicit) for inp in inputs]
        if not eff[0] and mx is not None:
            row['dead'] = [_outcome(mx, inp, explicit) for inp in inputs]
        runs.append(row)
    st['runs'] = runs
    obs['settings'] = st


REP_CHANNELS = ('compiled-model', 'python-source', 'model-source', 'json', 'pretty', 'pickle')


def work_reps(obs, m, text, inputs):
    """S8: the same grammar text brought to the engine through every representation TatSu can produce of it:
    the compiled model, the generated Python parser (to_python_sourcecode -> exec -> <Name>Parser()), the generated
    model source (to_parsermodel_sourcecode -> exec -> GRAMMAR_MODEL), the JSON form (asjson -> Grammar.loads), the
    pretty-printed text compiled again, a pickled copy.  Per channel: did it build, the (is_lrec, memoizable) of
    every RuleInfo the engine was handed while parsing (ParserEngine.call watched), the flags of the Rule objects
    where the channel yields a Grammar, and the canonical outcome per input.  Observations only."""
    import json
    import pickle
    import tatsu
    from tatsu.contexts.engine import ParserEngine
    from tatsu.peg import Grammar
    try:
        from tatsu.api.api import to_parsermodel_sourcecode
    except Exception:  # noqa: BLE001
        to_parsermodel_sourcecode = getattr(tatsu, 'to_parsermodel_sourcecode', None)
    inputs = settings_inputs(inputs)
    st = {'inputs': inputs, 'channels': {}}

    def from_python():
        src = tatsu.to_python_sourcecode(text)
        glob = {'__name__': 'c16_generated'}
        exec(compile(src, '<c16-generated-parser>', 'exec'), glob)  # noqa: S102
        return glob['GParser']()

    def from_model_source():
        src = to_parsermodel_sourcecode(text)
        glob = {'__name__': 'c16_generated_model'}
        exec(compile(src, '<c16-generated-model>', 'exec'), glob)  # noqa: S102
        return glob['GRAMMAR_MODEL']

    builders = {'compiled-model': lambda: m,
                'python-source': from_python,
                'model-source': from_model_source,
                'json': lambda: Grammar.loads(json.dumps(m.asjson())),
                'pretty': lambda: tatsu.compile(m.pretty()),
                'pickle': lambda: pickle.loads(pickle.dumps(m))}  # noqa: S301
    seen = {}
    picks = {0, len(inputs) // 2, len(inputs) - 1}
    o_call = ParserEngine.__dict__.get('call')
    if o_call is None:
        st['unwatched'] = True
        obs['reps'] = st
        return

    def call(self, ri):
        try:
            seen.setdefault(str(ri.name), [bool(ri.is_lrec), bool(ri.memoizable)])
        except Exception:  # noqa: BLE001
            seen.setdefault('?', None)
        return o_call(self, ri)

    for ch in REP_CHANNELS:
        row = {}
        sys.setrecursionlimit(1200)
        b = _guarded(builders[ch], 20)
        row['build'] = 'built' if b[0] == 'ok' else b[0] if b[0] != 'error' else 'error:' + b[1]
        if b[0] == 'ok':
            target = b[1]
            if hasattr(target, 'rules'):
                try:
                    row['flags'] = {str(r.name): [bool(r.is_lrec), bool(r.is_memo), bool(r.memoizable)] for r in target.rules}
                except Exception as e:  # noqa: BLE001
                    row['flags_error'] = type(e).__name__
            sys.setrecursionlimit(800)
            seen.clear()
            ParserEngine.call = call
            try:
                # the two parsers proper on every input; the channels that yield a Grammar object (whose Rule flags
                # are compared for every rule above) on three of them
                full = ch in ('compiled-model', 'python-source')
                row['out'] = [_outcome(target, inp, {}) if full or j in picks else None for j, inp in enumerate(inputs)]
            finally:
                ParserEngine.call = o_call
            row['seen'] = dict(seen)
        st['channels'][ch] = row
    sys.setrecursionlimit(800)
    obs['reps'] = st


def work(job):
    """job = (rules, names, inputs, nomemo or None, settings or None, reps or None).  Returns a dict of plain
    observations.  reps = {'deco': [bool per rule]}: the rules carry `@nomemo` decorators in the text (S8)."""
    import tatsu
    from tatsu.exceptions import GrammarError, FailedParse
    from tatsu.peg.leftrec.pegen import mark_left_recursion
    sys.setrecursionlimit(1200)
    rules, names, inputs, nomemo, settings, reps = job
    deco = reps['deco'] if reps is not None else None
    by_name = dict(zip(names, deco)) if deco is not None else None
    # S8: the grammar is named in the text, so that the code generators (which compile the text themselves) meet
    # the compiled model of this very text in tatsu.compile()'s cache instead of parsing it again
    named = (('grammar', 'G'),) if reps is not None else ()
    text = grammar_text(rules, names, deco=deco, directives=named)
    obs = {'text': text}
    c = _guarded(lambda: tatsu.compile(text), 20)
    obs['compile'] = c[0] if c[0] != 'error' else 'error:' + c[1]
    # compile with left recursion off
    off_text = grammar_text(rules, names, left_recursion=False, deco=deco, directives=named)

    def comp_off():
        try:
            tatsu.compile(off_text)
            return 'compiled'
        except GrammarError as e:
            return 'GrammarError' if 'left-recursive' in str(e) else 'GrammarError-other'
    o = _guarded(comp_off, 20)
    obs['off'] = o[1] if o[0] == 'ok' else o[0] if o[0] != 'error' else 'error:' + o[1]
    if c[0] != 'ok':
        return obs
    m = c[1]
    try:
        # S8: the model is told what the text says (the generator's decorator flags), not what the Rule objects say
        obs['req'] = tr_rules(m.rules, None if by_name is None else [by_name.get(r.name, False) for r in m.rules])
        obs['flags'] = flags(m.rules)
        obs['rule_names'] = [r.name for r in m.rules]
        if nomemo is not None:
            # no_memo cannot be set from grammar text at this commit (the @nomemo decorator is not read):
            # set the field and re-run the analysis the way Grammar._mark_left_recursion does
            for r, f in zip(m.rules, nomemo):
                r.no_memo = bool(f)
            mark_left_recursion(m.rules)
            obs['req_nm'] = tr_rules(m.rules)
            obs['flags_nm'] = flags(m.rules)
            for r in m.rules:
                r.no_memo = False
            mark_left_recursion(m.rules)
    except Untranslatable as e:
        obs['untranslatable'] = str(e)
        return obs
    op = _guarded(lambda: m.optimized(), 20)
    obs['optimized'] = op[0] if op[0] != 'error' else 'error:' + op[1]
    if op[0] == 'ok':
        try:
            obs['req_opt'] = tr_rules(op[1].rules,
                                      None if by_name is None else [by_name.get(r.name, False) for r in op[1].rules])
            obs['names_opt'] = [r.name for r in op[1].rules]
            obs['flags_opt'] = flags(op[1].rules)
            obs['ri_opt'] = riflags(op[1].rules)
            obs['leaders_opt'] = [r.name for r in op[1].rules if r.ruleinfo.is_lrec]
        except Untranslatable as e:
            obs['untranslatable'] = 'optimized: ' + str(e)
    outs = []
    sys.setrecursionlimit(800)      # short inputs, small grammars: bounded parses stay far below this
    for inp in inputs:
        def run(inp=inp):
            try:
                m.parse(inp)
                return 'ok'
            except FailedParse:
                return 'fail'
        r = _guarded(run, 10)
        outs.append(r[1] if r[0] == 'ok' else r[0] if r[0] != 'error' else 'error:' + r[1])
        if r[0] in ('recursion', 'timeout'):
            # one unbounded run is the verdict for this grammar; the rest of the battery is skipped.
            # Diagnosis (classification only, never a verdict): the same input with the parser settings that keep
            # the run-time guard entries alive - a memo cache that never evicts / cuts that do not prune memos.
            diag = {}
            for label, kw in (('bigcache', {'perlinememos': 10 ** 6}), ('nocutprune', {'prune_memos_on_cut': False}),
                              ('both', {'perlinememos': 10 ** 6, 'prune_memos_on_cut': False})):
                def rerun(inp=inp, kw=kw):
                    try:
                        m.parse(inp, **kw)
                        return 'ok'
                    except FailedParse:
                        return 'fail'
                if label == 'bigcache':
                    d, diag['need'], diag['cap'] = _watch_guards(lambda rerun=rerun: _guarded(rerun, 10), inp)
                else:
                    d = _guarded(rerun, 10)
                diag[label] = d[1] if d[0] == 'ok' else d[0] if d[0] != 'error' else 'error:' + d[1]
            obs['diag'] = diag
            break
    obs['parse'] = outs
    if settings is not None and op[0] == 'ok' and 'untranslatable' not in obs:
        work_settings(obs, m, rules, names, inputs, settings)
    if reps is not None and op[0] == 'ok' and 'untranslatable' not in obs:
        work_reps(obs, m, text, inputs)
    return obs


# ================================================================== generators
def atoms(n, extra=False):
    base = [('call', j) for j in range(n)] + [('tok', 't')]
    out = list(base)
    out += [('opt', a) for a in base]
    out += [('clo', a) for a in base]
    if extra:
        out += [('pclo', a) for a in base]
    return out


def seqs(n, maxlen, extra=False):
    at = atoms(n, extra)
    out = []
    for k in range(1, maxlen + 1):
        for combo in itertools.product(at, repeat=k):
            out.append(combo[0] if k == 1 else ('seq', list(combo)))
    return out


def bodies(n, maxlen, maxalts, extra=False):
    ss = seqs(n, maxlen, extra)
    out = list(ss)
    if maxalts >= 2:
        for a, b in itertools.combinations_with_replacement(range(len(ss)), 2):
            out.append(('choice', [ss[a], ss[b]]))
    return out


EDGE_FORMS = [lambda j: ('seq', [('call', j), ('tok', 't')]),
              lambda j: ('seq', [('opt', ('tok', 't')), ('call', j)]),
              lambda j: ('seq', [('clo', ('tok', 't')), ('call', j)]),
              lambda j: ('seq', [('opt', ('call', j)), ('tok', 't')]),
              lambda j: ('seq', [('clo', ('call', j)), ('tok', 't')]),
              lambda j: ('call', j)]
NON_EDGE_FORMS = [lambda j: ('seq', [('tok', 't'), ('call', j)]),
                  lambda j: ('seq', [('tok', 't'), ('opt', ('call', j))])]


def digraph_grammar(n, mask, form=None, rng=None, nonedges=False):
    """rule i has one alternative per edge i->j of the digraph `mask`, then the alternative 't'"""
    rules = []
    for i in range(n):
        alts = []
        for j in range(n):
            if mask >> (i * n + j) & 1:
                f = EDGE_FORMS[0] if form is None else (rng.choice(EDGE_FORMS) if form == 'random' else EDGE_FORMS[form])
                alts.append(f(j))
            elif nonedges and rng is not None and rng.random() < 0.3:
                alts.append(rng.choice(NON_EDGE_FORMS)(j))
        alts.append(('tok', 't'))
        rules.append(alts[0] if len(alts) == 1 else ('choice', alts))
    return rules


def random_node(rng, n, depth, toks):
    r = rng.random()
    if depth <= 0 or r < 0.45:
        k = rng.random()
        if k < 0.5:
            return ('call', rng.randrange(n))
        if k < 0.8:
            return ('tok', rng.choice(toks))
        return rng.choice([('cut',), ('void',), ('const',), ('pat', 't*'), ('pat', 'u+'), ('tok', rng.choice(toks))])
    if r < 0.62:
        return (rng.choice(['opt', 'clo', 'clo', 'pclo', 'group', 'named', 'look', 'nlook']),
                random_node(rng, n, depth - 1, toks))
    if r < 0.85:
        return ('seq', [random_node(rng, n, depth - 1, toks) for _ in range(rng.randint(2, 3))])
    return ('choice', [random_node(rng, n, depth - 1, toks) for _ in range(rng.randint(2, 3))])


def random_grammar(rng, n, toks):
    rules = []
    for _ in range(n):
        alts = [random_node(rng, n, 2, toks) for _ in range(rng.randint(1, 3))]
        if rng.random() < 0.7:
            alts.append(('tok', rng.choice(toks)))
        rules.append(alts[0] if len(alts) == 1 else ('choice', alts))
    return rules


def random_names(rng, n):
    names = list(NAMES[:n])
    if rng.random() < 0.5:
        rng.shuffle(names)
    return names


def battery(toks, quick):
    out = ['']
    for k in range(1, 4):
        for c in itertools.product(toks, repeat=k):
            out.append(''.join(c))
    out.append(toks[0] * 6)
    if len(out) > 10:
        out = out[:3] + out[3::3]
    return out


# ------------------------------------------------------------------ S6: what runs between entry and re-entry
# The run-time protection of a rule is an entry that is planted when the rule is entered at a position (the
# FailedLeftRecursion memo of set_left_recursion_guard for memoizable rules, the seed in _results for leaders) and
# that has to be still there when the rule is reached again at that position.  This stream builds rules that reach
# themselves at the same position - visibly (a detected left call) or behind a call to a rule that matches empty
# (invisible to the analysis: the guard entry is the only protection) - and puts in front of the re-entry the
# things that touch the caches while the parser comes back to the same position: cuts inside lookaheads / groups /
# optionals / closures / called rules, calls of left-recursive leaders (clear_recursion_errors), rows of memoized
# rule calls (the memo cache is bounded), and combinations of them.
LETTERS = 'abcdefghijklmnopqrstuvwxyz'
EMPTY_BODIES = [lambda: ('opt', ('tok', 'y')),
                lambda: ('clo', ('tok', 'y')),
                lambda: ('void',),
                lambda: ('choice', [('tok', 'y'), ('void',)]),
                lambda: ('seq', [('opt', ('tok', 'y')), ('opt', ('tok', 'y'))]),
                lambda: ('nlook', ('tok', 'q')),
                lambda: ('pat', 'y*')]


def reentry_grammar(rng):
    """-> (rules, info); rule 0 is the start rule and lies on the (visible or hidden) cycle"""
    rules = [None]

    def alloc(body):
        rules.append(body)
        return len(rules) - 1

    def zed():
        return rng.choice([('tok', 'z'), ('tok', 'z'), ('pat', 'z'), ('group', ('tok', 'z'))])

    kinds = []

    def cut_body():
        # something that executes a cut after moving past the start position (or not), then comes to an end
        k = rng.randrange(6)
        if k == 0:
            return ('seq', [zed(), ('cut',)])
        if k == 1:
            return ('seq', [zed(), ('cut',), ('opt', ('tok', 'x'))])
        if k == 2:
            return ('seq', [('cut',), zed()])
        if k == 3:
            return ('group', ('seq', [zed(), ('cut',)]))
        if k == 4:
            return ('seq', [zed(), ('opt', ('tok', 'x')), ('cut',)])
        return ('choice', [('seq', [('tok', 'y'), ('cut',)]), ('seq', [zed(), ('cut',)])])

    def disturber():
        """a list of sequence elements that leave the parser where it was"""
        k = rng.randrange(12)
        if k <= 2:
            kinds.append('cut-in-lookahead')
            return [('look', cut_body())]
        if k == 3:
            kinds.append('cut-in-negative-lookahead')
            return [('nlook', ('seq', [zed(), ('cut',), ('tok', 'q')]))]
        if k == 4:
            kinds.append('cut-in-lookahead-optional')
            return [('look', (rng.choice(['opt', 'clo']), ('seq', [zed(), ('cut',)])))]
        if k == 5:
            kinds.append('cut-in-skipped-optional')
            return [(rng.choice(['opt', 'clo']), ('seq', [('tok', 'q'), ('cut',)]))]
        if k == 6:
            kinds.append('bare-cut')
            return [('cut',)]
        if k == 7:
            kinds.append('cut-in-called-rule')
            c = alloc(cut_body())
            return [('look', ('call', c))]
        if k == 8:
            kinds.append('leader-in-lookahead')
            li = alloc(None)
            rules[li] = ('choice', [('seq', [('call', li), ('tok', 'x')]), zed()])
            return [('look', ('call', li))]
        if k == 9:
            kinds.append('leader-with-cut-in-lookahead')
            li = alloc(None)
            rules[li] = ('choice', [('seq', [('call', li), ('cut',), ('tok', 'x')]), ('seq', [zed(), ('cut',)])])
            return [('look', ('call', li))]
        kinds.append('memo-row')
        cnt = rng.choice([1, 2, 3, 5, 6, 7, 8, 9, 12])
        kinds.append(f'memo-row-{"short" if cnt < 7 else "long"}')
        out = []
        for _ in range(cnt):
            r = alloc(rng.choice([zed(), ('opt', zed()), ('seq', [zed(), ('opt', ('tok', 'x'))])]))
            out.append(('look', ('call', r)))
        return out

    hidden = rng.random() < 0.7
    two = rng.random() < 0.35
    empties = [alloc(rng.choice(EMPTY_BODIES)()) for _ in range(rng.choice([1, 1, 2]))] if hidden else []
    second = alloc(None) if two else None

    def prefix(nd):
        out = []
        for _ in range(nd):
            out += disturber()
        return out

    def hidden_calls():
        return [('call', rng.choice(empties)) for _ in range(rng.choice([1, 1, 2]))] if hidden else []

    def tail():
        return rng.choice([[], [('tok', 'x')], [('tok', 'x')], [('opt', ('tok', 'x'))]])

    def base():
        return rng.choice([zed(), ('pat', 'z+'), ('seq', [zed(), ('opt', ('tok', 'x'))])])

    def recur(target):
        return rng.choice([('call', target)] * 4 + [('opt', ('call', target)), ('group', ('call', target))])

    nd = rng.choice([0, 1, 1, 1, 2, 2, 3])
    if two:
        nd0 = rng.randint(0, nd)
        first = prefix(nd0) + hidden_calls() + [recur(second)] + tail()
        rules[second] = ('choice', [('seq', prefix(nd - nd0) + hidden_calls() + [recur(0)] + tail()), base()])
    else:
        first = prefix(nd) + hidden_calls() + [recur(0)] + tail()
    alts = [('seq', first) if len(first) > 1 else first[0], base()]
    if rng.random() < 0.2:
        alts.reverse()
    rules[0] = ('choice', alts)
    kinds.append('hidden' if hidden else 'visible')
    kinds.append('two-rule-cycle' if two else 'self-cycle')
    return rules, sorted(set(kinds))


def reentry_inputs():
    toks = ['z', 'y', 'x']
    out = ['']
    for k in (1, 2):
        out += [' '.join(c) for c in itertools.product(toks, repeat=k)]
    out += [' '.join(c) for c in list(itertools.product(toks, repeat=3))[::4]]
    out.append('z x x x')
    return out


# ------------------------------------------------------------------ S7: the channels of the two switches
# Left recursion is switched by `left_recursion` and, indirectly, by `memoization` (off forces left recursion off).
# Both can be set in the grammar text (directives -> the configuration of the model) and again for one parse
# (keyword settings, a ParserConfig object, or both).  Compile time (the GrammarError) looks at the model's
# configuration, run time (recursive_call, the re-entry guard, memoize) at the configuration of the parse; the
# stream sets the switches through every channel, in agreement and in conflict.
def settings_effective(directives, kw, cfg):
    """the harness's own reading of docs/config.rst / directives.rst: ((lr, memo) of the model, (lr, memo) of the parse)"""
    d = dict(directives)
    memo = d.get('memoization', True)
    lr = d.get('left_recursion', True) and memo
    comp = (bool(lr), bool(memo))
    if cfg is not None:                      # a configuration object carries every field
        memo = cfg.get('memoization', True)
        lr = cfg.get('left_recursion', True) and memo
    memo = kw.get('memoization', memo)
    lr = kw.get('left_recursion', lr) and memo
    return comp, (bool(lr), bool(memo))


def random_settings(rng):
    directives = []
    v = rng.choice([None, True, False, False])
    if v is not None:
        directives.append(('left_recursion', v))
    v = rng.choice([None, None, True, False])
    if v is not None:
        directives.append(('memoization', v))
    rng.shuffle(directives)
    channels = []
    seen = set()
    for _ in range(12):
        kw = {}
        v = rng.choice([None, True, True, False])
        if v is not None:
            kw['left_recursion'] = v
        v = rng.choice([None, None, True, False])
        if v is not None:
            kw['memoization'] = v
        cfg = None
        if rng.random() < 0.3:
            cfg = {}
            for key in ('left_recursion', 'memoization'):
                v = rng.choice([None, True, False])
                if v is not None:
                    cfg[key] = v
        fp = repr((sorted(kw.items()), cfg and sorted(cfg.items())))
        if fp in seen:
            continue
        seen.add(fp)
        comp, eff = settings_effective(directives, kw, cfg)
        channels.append({'kw': kw, 'cfg': cfg, 'eff': list(eff)})
        if len(channels) == 4:
            break
    comp, _ = settings_effective(directives, {}, None)
    return {'directives': directives, 'comp': list(comp), 'channels': channels}


def settings_sig(items):
    return ','.join(f'{"lr" if k == "left_recursion" else "memo"}={"T" if v else "F"}' for k, v in sorted(items))


def make_jobs(chk: Check):
    rng = chk.rng
    jobs = []   # (stream, rules, names, inputs, nomemo, settings)
    inputs_t = battery(['t'], chk.quick)
    inputs_tu = battery(['t', 'u'], chk.quick)

    def add(stream, rules, names=None, inputs=None, nomemo=None, settings=None, reps=None):
        n = len(rules)
        jobs.append((stream, rules, names or list(NAMES[:n]), inputs or inputs_t, nomemo, settings, reps))

    # S1: one rule, choices of <= 2 sequences of <= 2 atoms: exhaustive
    b1 = bodies(1, 2, 2)
    for b in (b1 if not chk.quick else b1[:42] + rng.sample(b1[42:], 160)):
        add('scope:1-rule', [b])
    # S2: two rules, one sequence of <= 2 atoms each: exhaustive (thorough) / sampled (quick)
    b2 = bodies(2, 2, 1)
    pairs = list(itertools.product(range(len(b2)), repeat=2))
    if chk.quick:
        pairs = rng.sample(pairs, 330)
    for x, y in pairs:
        add('scope:2-rules', [b2[x], b2[y]])
    # S2b: two rules, two alternatives, sampled
    b22 = bodies(2, 2, 2)
    for _ in range(100 if chk.quick else 800):
        add('scope:2-rules-2-alts', [rng.choice(b22), rng.choice(b22)])
    # S3: every digraph over 2 and 3 rules (all left-call graph shapes), edges as `j 't'`: exhaustive
    for mask in range(16):
        for form in range(len(EDGE_FORMS)):
            add('graphs:2-rules-all', digraph_grammar(2, mask, form))
    for mask in range(512):
        add('graphs:3-rules-all', digraph_grammar(3, mask))
    # S3b: 3-rule digraphs with random edge forms, non-edges, permuted names, random no_memo flags
    for _ in range(180 if chk.quick else 1200):
        mask = rng.randrange(512)
        add('graphs:3-rules-forms', digraph_grammar(3, mask, 'random', rng, nonedges=True), random_names(rng, 3),
            nomemo=[rng.random() < 0.3 for _ in range(3)])
    # S3c: three rules, sequences of <= 2 atoms, sampled
    b3 = bodies(3, 2, 1)
    for _ in range(150 if chk.quick else 1200):
        add('scope:3-rules', [rng.choice(b3) for _ in range(3)], random_names(rng, 3))
    b3x = bodies(2, 2, 1, extra=True)
    for _ in range(80 if chk.quick else 300):
        add('scope:2-rules+positive-closure', [rng.choice(b3x) for _ in range(2)])
    # S4: larger random graphs over every node kind the analysis distinguishes
    for _ in range(170 if chk.quick else 800):
        n = rng.randint(2, 7)
        add('random:larger', random_grammar(rng, n, ['t', 'u']), random_names(rng, n), inputs_tu,
            nomemo=[rng.random() < 0.25 for _ in range(n)])
    # S5: larger sparse digraphs (several components, nested cycles)
    for _ in range(60 if chk.quick else 250):
        n = rng.randint(4, 6)
        mask = 0
        for b in range(n * n):
            if rng.random() < 0.28:
                mask |= 1 << b
        add('random:larger-digraphs', digraph_grammar(n, mask, 'random', rng, nonedges=True), random_names(rng, n),
            nomemo=[rng.random() < 0.2 for _ in range(n)])
    # S6: cycles (visible or hidden behind a rule that matches empty) with cache-touching elements between the
    # entry of a rule and its re-entry at the same position
    inputs_g = reentry_inputs()
    for _ in range(260 if chk.quick else 1500):
        rules, kinds = reentry_grammar(rng)
        n = len(rules)
        names = [LETTERS[i] if i < len(LETTERS) else f'r{i}' for i in range(n)]
        if rng.random() < 0.5:
            rng.shuffle(names)
        for kd in kinds:
            chk.count('reentry.' + kd)
        add('guard:between-entry-and-reentry', rules, names, inputs_g)
    # S7: the switches through every channel (directives x keyword settings x configuration object), over
    # grammars with visible cycles (leaders), hidden cycles (guard entries only) and none
    for _ in range(120 if chk.quick else 800):
        r = rng.random()
        if r < 0.45:
            rules, _kinds = reentry_grammar(rng)
            n = len(rules)
            names = [LETTERS[i] if i < len(LETTERS) else f'r{i}' for i in range(n)]
            inputs = inputs_g
        elif r < 0.7:
            rules, names, inputs = digraph_grammar(3, rng.randrange(512), 'random', rng, nonedges=True), None, inputs_t
        elif r < 0.85:
            rules, names, inputs = [rng.choice(b22), rng.choice(b22)], None, inputs_t
        else:
            n = rng.randint(2, 5)
            rules, names, inputs = random_grammar(rng, n, ['t', 'u']), random_names(rng, n), inputs_tu
        st = random_settings(rng)
        chk.count('settings.directives[' + settings_sig(st['directives']) + ']')
        add('settings:channels', rules, names, inputs, settings=st)
    # S8: `@nomemo` decorators in the grammar text (on leaders, on other members of a cycle, on rules outside),
    # and the grammar brought to the engine through every representation (compiled model, generated Python parser,
    # generated model source, JSON, pretty-printed text, pickle), over grammars with visible cycles (one leader,
    # several leaders, nested components), hidden cycles and none
    for _ in range(160 if chk.quick else 1200):
        r = rng.random()
        if r < 0.35:
            rules, names, inputs = (digraph_grammar(3, rng.randrange(512), 'random', rng, nonedges=True),
                                    random_names(rng, 3), inputs_t)
        elif r < 0.5:
            rules, names, inputs = [rng.choice(b22), rng.choice(b22)], random_names(rng, 2), inputs_t
        elif r < 0.7:
            n = rng.randint(2, 5)
            rules, names, inputs = random_grammar(rng, n, ['t', 'u']), random_names(rng, n), inputs_tu
        elif r < 0.9:
            rules, _kinds = reentry_grammar(rng)
            n = len(rules)
            names = [LETTERS[i] if i < len(LETTERS) else f'r{i}' for i in range(n)]
            if rng.random() < 0.5:
                rng.shuffle(names)
            inputs = inputs_g
        else:
            n = rng.randint(4, 6)
            mask = 0
            for b in range(n * n):
                if rng.random() < 0.28:
                    mask |= 1 << b
            rules, names, inputs = digraph_grammar(n, mask, 'random', rng, nonedges=True), random_names(rng, n), inputs_t
        p = rng.choice([0.0, 0.25, 0.5, 0.5, 1.0])
        deco = [rng.random() < p for _ in rules]
        chk.count('reps.decorated-rules.' + ('none' if not any(deco) else 'all' if all(deco) else 'some'))
        add('representations:decorators', rules, names, inputs, reps={'deco': deco})
    return jobs


# ================================================================== comparison
def parse_reply(rep):
    def bl(x):
        return [] if x == 'nil' else x
    marks_h = [[a == '1', b == '1'] for a, b in bl(rep[0])]
    marks_f = [[a == '1', b == '1'] for a, b in bl(rep[1])]
    graph = [[int(j) for j in bl(row)] for row in bl(rep[2])]
    rn = [x == '1' for x in bl(rep[3])]
    nullopt = [None if x == 'none' else (x[1] == '1') for x in bl(rep[4])]
    return {'head': marks_h, 'fixed': marks_f, 'graph': graph, 'rn': rn, 'nullopt': nullopt,
            'err_off': rep[5] == '1', 'err_on': rep[6] == '1'}


def check_settings(chk, settings, o, inputs, guard, replay):
    """S7 oracles; returns the number of violations (at most one per grammar: the first, by channel and input)"""
    st = o['settings']
    dirs = settings['directives']
    comp = settings['comp']
    dsig = 'dir[' + settings_sig(dirs) + ']'
    replay = dict(replay, grammar=st['text'], directives=dirs)
    leaders = any(f[0] for f in o['flags'])      # the marks compared with the Coq model above
    want = 'GrammarError' if leaders and not comp[0] else 'compiled'
    chk.evaluations += 1
    chk.count('settings.compile.' + st['compile'])
    if st['compile'] != want:
        chk.violation(f'settings:error-when-off:{dsig}:want-{want}:got-{st["compile"]}',
                      'GrammarError for left recursion is not "the grammar has leaders and left recursion is off for '
                      'the model (switched off itself, or memoization is off)"', dict(replay, leaders=leaders, model_switches=comp))
        return 1
    if st['compile'] == 'compiled':
        if st['config'] != comp:
            chk.violation(f'settings:model-config:{dsig}:got[lr={st["config"][0]},memo={st["config"][1]}]',
                          '(left_recursion, memoization) of the compiled model are not what the directives say',
                          dict(replay, impl=st['config'], want=comp))
            return 1
        if st['flags'] != o['flags']:
            chk.violation(f'settings:marks-depend-on-switches:{dsig}', 'the marks of the rules change with the directives',
                          dict(replay, impl=st['flags'], default=o['flags']))
            return 1

    def cls(x):
        return x.split(':')[0] if x.startswith('fail') else x

    for ch, row in zip(settings['channels'], st['runs']):
        eff = ch['eff']
        on_d = row['on_directive_model']
        if not on_d:
            # the directive text does not compile (as it should): the channels are run on the default model
            eff = list(settings_effective([], ch['kw'], ch['cfg'])[1])
        psig = ('parse[' + settings_sig(ch['kw'].items())
                + ('' if ch['cfg'] is None else ';config(' + settings_sig(ch['cfg'].items()) + ')') + ']')
        esig = f'eff[{settings_sig([("left_recursion", eff[0]), ("memoization", eff[1])])}]'
        chk.count('settings.effective.' + esig)
        for j, inp in enumerate(settings_inputs(inputs)):
            got, canon, base = row['got'][j], row['canon'][j], st['base'][j]
            dead = row['dead'][j] if 'dead' in row else None
            chk.evaluations += 1
            kind = None
            if got.startswith('error') or canon.startswith('error'):
                kind = 'raised-' + (got if got.startswith('error') else canon).split(':')[1]
            elif got == 'unbounded' and eff[0] and base != 'unbounded':
                kind = 'unbounded-recursion-with-left-recursion-on'
            elif got == 'unbounded' and guard:
                kind = 'unbounded-recursion-inside-the-guard'
            elif eff[0] and base != 'unbounded' and got != base:
                kind = 'differs-from-the-default-settings'
            elif got != canon:
                kind = 'differs-from-the-plain-channel'
            elif dead is not None and cls(got) != cls(dead):
                kind = 'off-is-not-leaders-fail'
            if kind:
                chk.violation(f'settings:{kind}:{dsig if on_d else "dir[]"}:{psig}:{esig}',
                              'a parse does not depend on the effective (left_recursion, memoization) only: same grammar, '
                              'same input, same effective switches, set through different channels',
                              dict(replay, on_directive_model=on_d, kw=ch['kw'], config=ch['cfg'], effective=eff, input=inp,
                                   got=got, default_settings=base, plain_channel=canon, leaders_fail=dead))
                return 1
    return 0


def check_reps(chk, o, names, deco, spec_graph, replay):
    """S8 oracles; returns the number of violations (at most one per grammar: the first by channel, rule, input)"""
    st = o['reps']
    if st.get('unwatched'):
        chk.violation('reps:unwatched', 'ParserEngine.call is gone: the RuleInfo handed to the engine cannot be observed', replay)
        return 1
    by_name = dict(zip(names, deco))
    cyc = dict(zip(names, on_cycle(spec_graph)))
    want_seen = {nm: [ri[0], ri[1]] for nm, ri in zip(o.get('names_opt', []), o.get('ri_opt', []))}
    want_flags = dict(zip(o.get('rule_names', []), o['flags']))
    base = st['channels'].get('compiled-model', {}).get('out')

    def fl(v):
        return 'none' if v is None else f'lrec={"T" if v[0] else "F"},memo={"T" if v[-1] else "F"}'

    def rsig(nm):
        return f'rule[{fl(want_seen.get(nm))},nomemo={"T" if by_name.get(nm) else "F"},{"on" if cyc.get(nm) else "off"}-cycle]'

    for ch in REP_CHANNELS:
        row = st['channels'].get(ch)
        chk.evaluations += 1
        if row is None or row['build'] != 'built':
            chk.count('reps.build-failed.' + ch)
            chk.violation(f'reps:build:{ch}:{row and row["build"]}', f'the {ch} representation of the grammar could not be built',
                          dict(replay, channel=ch, build=row and row['build']))
            return 1
        chk.count('reps.built.' + ch)
        # static: the Rule objects of a channel that yields a Grammar carry the marks of the compiled model
        if 'flags_error' in row:
            chk.violation(f'reps:flags-unreadable:{ch}', 'rule flags of the representation cannot be read', dict(replay, channel=ch))
            return 1
        if 'flags' in row:
            for nm in sorted(want_flags):
                if row['flags'].get(nm) != want_flags[nm]:
                    got = row['flags'].get(nm)
                    chk.violation(f'reps:rule-flags:{ch}:{rsig(nm)}:got[{fl(got)}]',
                                  'the Rule object of this representation does not carry the (is_lrec, is_memo, memoizable) '
                                  'of the compiled model', dict(replay, channel=ch, rule=nm, got=got, want=want_flags[nm]))
                    return 1
        # dynamic: the RuleInfo handed to ParserEngine.call
        for nm in sorted(row.get('seen', {})):
            got = row['seen'][nm]
            if nm not in want_seen:
                chk.violation(f'reps:engine-rule-unknown:{ch}', 'the engine was handed a rule that the grammar does not have',
                              dict(replay, channel=ch, rule=nm))
                return 1
            chk.count('reps.ruleinfo.' + rsig(nm))
            if got != want_seen[nm]:
                chk.violation(f'reps:engine-marks:{ch}:{rsig(nm)}:got[{fl(got)}]',
                              'the RuleInfo handed to the engine for this rule does not carry the (is_lrec, memoizable) of the '
                              'marks of the grammar (the ones tied to the Coq model)',
                              dict(replay, channel=ch, rule=nm, got=got, want=want_seen[nm], decorated=by_name.get(nm)))
                return 1
        if base is None:
            continue
        for inp, got, b in zip(st['inputs'], row['out'], base):
            if got is None:
                continue
            chk.evaluations += 1
            kind = None
            if got.startswith('error'):
                kind = 'raised-' + got.split(':')[1]
            elif b == 'unbounded' or b.startswith('error'):
                continue        # the model's own run is the business of the runtime oracle above
            elif got == 'unbounded':
                kind = 'unbounded-recursion-where-the-model-terminates'
            elif got != b:
                kind = 'outcome-differs-from-the-model:' + b.split(':')[0] + '-vs-' + got.split(':')[0]
            if kind:
                lead = sorted(nm for nm, v in want_seen.items() if v[0])
                dl = 'decorated-leader' if any(by_name.get(nm) for nm in lead) else 'leaders' if lead else 'no-leader'
                chk.violation(f'reps:{kind}:{ch}:{dl}',
                              'the same grammar and input: this representation does not parse like the compiled model',
                              dict(replay, channel=ch, input=inp, got=got, model=b, leaders=lead,
                                   decorated=[nm for nm in names if by_name.get(nm)]))
                return 1
    return 0


def detect_variant():
    import tatsu
    g = "a = b 'x' | c 'y' | 'p' ;\nb = a 'x' | c 'z' | 'q' ;\nc = a 'w' | b 'v' | 'r' ;\n"
    m = tatsu.compile(g)
    got = [bool(r.is_lrec) for r in m.rules]
    # PositiveClosure._nullable: the called rule's own nullability (as it is) or exp._nullable (repaired)
    m2 = tatsu.compile("a = {b}+ a 'x' | 'x' ;\nb = ['y'] ;\n")
    pos = {True: 'pos-asks-rule', False: 'pos-repaired'}[bool(m2.rules[0].is_lrec)]
    if got == [True, False, False]:
        return 'head', pos
    if got == [True, True, True]:
        return 'fixed', pos
    return 'unknown:' + str(got), pos


def main():
    chk = Check(PID)
    chk.rule = ('grammars generated from trees over {rule call, token, optional, closure} (+ positive closure, group, cut, '
                'void, constant, patterns, lookaheads, named in the random streams): 1 rule with <=2 alternatives of <=2 '
                'elements exhaustive; 2 rules with one sequence of <=2 elements exhaustive in thorough (sampled in quick); '
                'every digraph over 2 rules (6 edge forms) and over 3 rules as left-call graph (512, exhaustive in both '
                'tiers); sampled 3-rule bodies, random edge forms, permuted names, no_memo flags; random grammars with 2-7 '
                'rules; rules that reach themselves at the same position, visibly or behind a call to a rule that matches '
                'empty, with cuts inside lookaheads/optionals/closures/called rules, calls of left-recursive leaders and '
                'rows of 1-12 memoized rule calls between the entry and the re-entry (inputs: all strings of <=2 of 3 '
                'tokens and some of 3-4). Each compiled, compiled with @@left_recursion :: False, optimized, and parsed on all token strings '
                'up to length 3 (+ one of length 6) under a recursion/timeout watchdog. A sample of the grammars '
                '(hidden / visible / no cycles) is also compiled with every combination of the @@left_recursion and '
                '@@memoization directives and parsed with the switches set again per parse (keyword settings, '
                'ParserConfig object, both), in agreement and in conflict with the directives. A further sample (visible cycles '
                'with one or several leaders, hidden cycles, none) carries @nomemo decorators in the text on none / some / all '
                'rules and is brought to the engine as compiled model, generated Python parser, generated model source, JSON, '
                'pretty-printed text compiled again and pickle; each is parsed on 8 inputs of the battery with the RuleInfo '
                'handed to ParserEngine.call watched. Non-trivial: the grammar has at '
                'least one left call; distinct by grammar text.')
    chk.trusted += ['the translator tr() in c16.py from compiled grammar nodes to model expressions (class table tied to '
                    'the source by T1), the harness-side DFS oracle, Python re for Pattern nullability',
                    'modelled: pegen.py (_callable_rule_ids, _is_nullable_safe, _make_first_graph, mark_left_recursion), '
                    'find_cycles_in_scc, every _nullable; specified not modelled: strongly_connected_components (by mutual '
                    'reachability); not modelled: the parser engine (recursive_call/rule_call) - runtime oracle only']
    chk.assumptions += ['rule names are pairwise distinct (the grammar parser rejects redefinitions)',
                        'exactness (detection iff cycle) is claimed inside the property guard only: no left call targets a '
                        'rule that can match empty']
    got_hashes, pos_src = source_shape(chk)
    chk.coq()
    ok, out = vlib.build_modelrun('LeftRec')
    chk.obligation('modelrun_LeftRec builds', 'build', ok, out[-500:])
    if not ok:
        return chk.finish()
    mr = ModelRun('LeftRec')
    variant, posvariant = detect_variant()
    chk.extra['positive_closure_variant'] = posvariant
    chk.obligation('V:PositiveClosure._nullable variant probed = variant read from the source', 'translator',
                   posvariant == pos_src, f'{posvariant} vs {pos_src}')
    chk.obligation('V:leader choice of the working tree is one of the two modelled variants', 'translator',
                   variant in ('head', 'fixed'), variant)
    chk.extra['variant'] = variant
    if variant not in ('head', 'fixed'):
        return chk.finish()
    jobs = make_jobs(chk)
    nproc = max(2, min(10, (os.cpu_count() or 4) - 4))
    with ProcessPoolExecutor(max_workers=nproc) as ex:
        results = list(ex.map(work, [j[1:] for j in jobs], chunksize=8))

    # ---- model requests in one batch
    reqs = []
    slots = []
    for k, o in enumerate(results):
        for key in ('req', 'req_nm', 'req_opt'):
            if key in o:
                slots.append((k, key))
                reqs.append(o[key].replace('POSFIX', '1' if posvariant == 'pos-repaired' else '0'))
    replies = mr.ask(reqs)
    model = {}
    for (k, key), rep in zip(slots, replies):
        model[(k, key)] = parse_reply(rep) if isinstance(rep, list) and rep and rep[0] != 'error' else None

    bad_corr = 0
    bad_oracle = 0
    bad_settings = 0
    bad_reps = 0
    untranslatable = 0
    for k, (job, o) in enumerate(zip(jobs, results)):
        stream, rules, names, inputs, nomemo, settings, reps = job
        deco = reps['deco'] if reps is not None else [False] * len(rules)
        n = len(rules)
        nul, _ = true_nullable(rules)
        spec_graph = [sorted(spec_left_calls(b, lambda i: False)) for b in rules]
        true_graph = [sorted(spec_left_calls(b, lambda i: nul[i])) for b in rules]
        has_left = any(spec_graph)
        chk.case(o['text'], nontrivial=has_left)
        chk.count('stream.' + stream)
        guard = not any(nul[j] for row in spec_graph for j in row)
        chk.count('guard.inside' if guard else 'guard.outside')
        cyc = on_cycle(spec_graph)
        chk.count('graph.cyclic' if any(cyc) else 'graph.acyclic')
        replay = {'grammar': o['text'], 'stream': stream, 'names': names}
        if 'untranslatable' in o:
            untranslatable += 1
            chk.violation('corr:untranslatable', f'grammar node class outside the model: {o["untranslatable"]}', replay)
            continue
        # ---------------- compile outcome
        if o['compile'] != 'ok':
            if o['compile'] in ('recursion', 'timeout'):
                # explained when the called rule's own `_nullable` loops through PositiveClosure/PositiveGather calls
                dep = [[] for _ in range(n)]

                def deps(nod, acc):
                    if nod[0] == 'pclo' and nod[1][0] == 'call':
                        acc.append(nod[1][1])
                    for x in nod[1:]:
                        if isinstance(x, tuple):
                            deps(x, acc)
                        elif isinstance(x, list):
                            for y in x:
                                deps(y, acc)
                for i, b in enumerate(rules):
                    deps(b, dep[i])
                cause = 'positive-closure-call-cycle' if any(on_cycle(dep)) else 'unexplained'
                chk.violation(f'lrec:compile-{o["compile"]}:{cause}',
                              'compiling the grammar recursed without bound (RecursionError) in the nullable analysis',
                              dict(replay, outcome=o['compile']))
            else:
                chk.count('compile.' + o['compile'])
            continue
        chk.count('compile.ok')
        mh = model.get((k, 'req'))
        if mh is None:
            bad_corr += 1
            chk.violation('corr:model-error', 'the extracted model failed on a translated grammar', dict(replay, req=o['req']))
            continue
        code = [[f[0], f[1]] for f in o['flags']]
        if code != mh[variant]:
            bad_corr += 1
            chk.violation('corr:marks', '(is_lrec, is_memo) of tatsu.compile differ from the model',
                          dict(replay, impl=code, model=mh[variant], variant=variant, graph=mh['graph']))
        memoizable_ok = all(f[2] == (f[1] and not f[0]) for f in o['flags'])
        if not memoizable_ok:
            bad_corr += 1
            chk.violation('corr:memoizable', 'Rule.memoizable is not is_memo and not no_memo and not is_lrec', replay)
        if 'req_nm' in o:
            mn = model.get((k, 'req_nm'))
            code_nm = [[f[0], f[1]] for f in o['flags_nm']]
            chk.evaluations += 1
            if mn is None or code_nm != mn[variant]:
                bad_corr += 1
                chk.violation('corr:marks-nomemo', '(is_lrec, is_memo) with no_memo flags differ from the model',
                              dict(replay, nomemo=nomemo, impl=code_nm, model=mn and mn[variant]))
            elif any(f[2] != (f[1] and not nm and not f[0]) for f, nm in zip(o['flags_nm'], nomemo)):
                bad_corr += 1
                chk.violation('corr:memoizable', 'Rule.memoizable is not is_memo and not no_memo and not is_lrec', replay)
        # error with left recursion off
        want_err = any(m[0] for m in mh[variant])
        got_err = o['off'] == 'GrammarError'
        if o['off'] not in ('GrammarError', 'compiled') or want_err != got_err or want_err != mh['err_off'] or mh['err_on']:
            bad_corr += 1
            chk.violation('corr:error-off', 'GrammarError with @@left_recursion :: False differs from the model',
                          dict(replay, impl=o['off'], model=mh['err_off']))
        # ---------------- optimized copy (the one parse() runs on)
        mo = None
        if o.get('optimized') != 'ok':
            chk.violation(f'lrec:optimized-{o.get("optimized")}', 'Grammar.optimized() did not come back', replay)
        elif 'req_opt' in o:
            mo = model.get((k, 'req_opt'))
            code_o = [[f[0], f[1]] for f in o['flags_opt']]
            chk.evaluations += 1
            if mo is None or code_o != mo[variant]:
                bad_corr += 1
                chk.violation('corr:marks-optimized', '(is_lrec, is_memo) of the optimized grammar differ from the model',
                              dict(replay, impl=code_o, model=mo and mo[variant], req=o['req_opt']))
            ri_ok = all(ri[0] == f[0] and ri[1] == f[2] for ri, f in zip(o['ri_opt'], o['flags_opt']))
            if not ri_ok:
                bad_corr += 1
                chk.violation('corr:ruleinfo', 'RuleInfo flags of the optimized grammar differ from the rule flags',
                              dict(replay, ruleinfo=o['ri_opt'], flags=o['flags_opt']))
        # ---------------- exactness oracle (harness DFS on the generator tree), inside the guard
        if guard:
            if [sorted(set(r)) for r in mh['graph']] != spec_graph:
                bad_oracle += 1
                chk.violation('oracle:left-calls', 'the first graph is not the set of left calls of the grammar',
                              dict(replay, model_graph=mh['graph'], oracle_graph=spec_graph))
            if got_err != any(cyc):
                bad_oracle += 1
                chk.violation('oracle:detection-exact', 'GrammarError with left recursion off is not "some rule reaches itself"',
                              dict(replay, impl=o['off'], oracle_cyclic=any(cyc)))
            for i in range(n):
                if not cyc[i] and (code[i][0] or code[i][1] == deco[i]):
                    bad_oracle += 1
                    chk.violation('oracle:off-cycle-touched', 'a rule on no left cycle is marked left recursive or lost its memo',
                                  dict(replay, rule=names[i], flags=code[i]))
            shape = shape_of_leaderless(spec_graph, [i for i in range(n) if not code[i][0]])
            if shape:
                chk.count('leaderless.' + shape)
                chk.violation('lrec:' + shape, 'a cycle of the left-call graph contains no rule marked is_lrec',
                              dict(replay, graph=spec_graph, marks=code))
        # ---------------- runtime oracle
        outs = o.get('parse', [])
        for inp, r in zip(inputs, outs):
            chk.count('parse.' + (r if not r.startswith('error') else 'error'))
        worst = next((r for r in outs if r in ('recursion', 'timeout')), None)
        # static prediction on the optimized grammar: a cycle of the true left graph through unguarded rules
        if worst:
            cause = 'unexplained'
            if mo is not None and 'ri_opt' in o:
                ung = [i for i, ri in enumerate(o['ri_opt']) if not ri[0] and not ri[1]]
                sh = shape_of_leaderless(mo['graph'], ung)
                if sh:
                    cause = sh
                elif has_cycle_within(true_graph, ung):
                    # a cycle that exists only when calls to rules that can match empty are looked through
                    # (outside the guard of the exactness claim), running through unguarded rules
                    cause = 'hidden-cycle-via-nullable-call'
                else:
                    # every rule is a leader or memoizable, so every re-entry should have met the entry planted when
                    # the rule was entered.  Which parser setting brings the protection back tells what removed it.
                    diag = o.get('diag', {})
                    # a HIDDEN cycle (of the true left graph, not of the analysed one) whose only protection is the guard entry of a
                    # memoizable rule on it - the other rules of the cycle may be @nomemo (finding D10d, whatever the decorators)
                    oc_true, oc_seen = on_cycle(true_graph), on_cycle([sorted(set(r)) for r in mo['graph']])
                    hidden_nodes = [i for i in range(len(oc_true)) if oc_true[i] and not oc_seen[i]]
                    hidden_memo = bool(hidden_nodes) and any(o['ri_opt'][i][1] for i in hidden_nodes)
                    if diag.get('bigcache') in ('ok', 'fail'):
                        if diag.get('need') is None:
                            cause = 'protection-evicted-from-memo-cache:unwatched'
                        elif diag['need'] < diag['cap']:
                            # fewer writes than the cache holds: the bound itself cannot have pushed the guard out
                            cause = 'protection-lost-below-the-memo-bound'
                        else:
                            cause = 'hidden-cycle-guard-evicted' if hidden_memo else 'protection-evicted-from-memo-cache'
                    elif diag.get('nocutprune') in ('ok', 'fail'):
                        cause = 'protection-pruned-by-cut'
                    elif diag.get('both') in ('ok', 'fail'):
                        cause = 'protection-evicted-and-pruned-by-cut'
            inp = inputs[outs.index(worst)]
            chk.violation(f'lrec:unbounded-{worst}:{cause}', f'parse({inp!r}) ended in {worst}: the parser recursed without bound',
                          dict(replay, input=inp, outcomes=dict(zip(inputs, outs)), marks=o.get('flags_opt'),
                               reruns=o.get('diag')))
        if any(r.startswith('error') for r in outs):
            kinds = sorted({r for r in outs if r.startswith('error')})
            chk.violation('runtime:' + '+'.join(kinds), 'parse raised something other than FailedParse', dict(replay, outcomes=outs))
        if settings is not None and 'settings' in o:
            bad_settings += check_settings(chk, settings, o, inputs, guard, replay)
        if reps is not None and 'reps' in o:
            bad_reps += check_reps(chk, o, names, deco, spec_graph, replay)
    chk.obligation('R1:(is_lrec, is_memo), optimized copy, GrammarError-when-off vs LeftRec.v', 'correspondence', bad_corr == 0)
    chk.obligation('O2:the left-recursion / memoization switches through every channel (directives, keyword settings, '
                   'configuration object): GrammarError iff leaders and the switch is off for the model; marks do not '
                   'depend on the switches; a parse depends on the effective switches only; off = the leaders fail; '
                   'on = no unbounded recursion', 'oracle', bad_settings == 0)
    chk.obligation('O3:@nomemo decorators in the text are the no_memo flags of the model; every representation of a grammar '
                   '(compiled model, generated Python parser, generated model source, JSON, pretty text, pickle) hands the '
                   'engine the same (is_lrec, memoizable) per rule - the marks tied to LeftRec.v by R1 - and parses every '
                   'input to the same outcome, none recursing without bound where the model does not', 'oracle', bad_reps == 0)
    chk.obligation('O1:left calls / detection / off-cycle rules vs harness DFS (inside the guard)', 'oracle', bad_oracle == 0)
    chk.obligation('T3:every node class met was translatable', 'translator', untranslatable == 0)
    chk.extra['pegen_hashes'] = got_hashes
    for k in (0, len(jobs) // 2, len(jobs) - 1):
        chk.sample({'grammar': results[k]['text'], 'flags': results[k].get('flags'), 'off': results[k].get('off'),
                    'parse': results[k].get('parse')})
    chk.exhaustive = False
    return chk.finish()


if __name__ == '__main__':
    sys.exit(main())
