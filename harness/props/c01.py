"""C01 - grammar models parse exactly as the documented PEG semantics prescribe."""
from __future__ import annotations

import sys
from pathlib import Path

sys.path.insert(0, str(Path(__file__).resolve().parent.parent))
import vlib
from vlib import Check, ModelRun
import enginelib as E
import enginegen as G
import enginerun as R

PID = 'C01'


def shard_random(col, shard, ngrammars, ninputs):
    mr = ModelRun('Engine')
    rng = col.rng
    cases = []
    for gi in range(ngrammars):
        cfg = G.GenCfg(ws_patterns=(gi % 7 == 0), assoc=(0.05 if gi % 3 == 1 else 0.0), includes=(0.3 if gi % 3 == 2 else 0.0), based=(0.5 if gi % 6 == 5 else 0.0))
        g = G.gen_grammar(rng, cfg, depth=rng.choice([2, 3, 3, 4]))
        starts = [None]
        if len(g['rules']) > 1 and rng.random() < 0.3:
            starts.append(rng.choice(g['rules'][1:])[0])
        for st in starts:
            for t in G.gen_inputs(rng, g, ninputs, st):
                cases.append(R.Case(g, t[:48], st))
                if ' ' in t and rng.random() < 0.5 and any(E.kind(x) in ('dot', 'skipto') for _, _, e in g['rules'] for x in E.walk(e)):
                    cases.append(R.Case(g, t[:48].replace(' ', rng.choice(['\r\n', '\r', '\n', '\n\r', '  '])), st))
                if ' ' in t and rng.random() < 0.15:      # whitespace is what \\s says it is: NBSP, LS, FS..US, VT, FF, NEL, ideographic space
                    cases.append(R.Case(g, t[:48].replace(' ', rng.choice(G.UNICODE_WS), rng.choice([1, 3])), st))
        for _, _, e in g['rules']:
            for x in E.walk(e):
                col.count('node.' + E.kind(x))
    R.differential(col, mr, cases, 'E1')
    # the one-call API: tatsu.parse(grammar, text) must agree with compile(grammar).parse(text)
    import tatsu
    for c in cases[::17]:
        m = R.compile_grammar(c.g)
        if isinstance(m, tuple):
            continue
        a = R.with_timeout(lambda: E.run_impl(m, c.text, c.start, c.settings), 10)

        class _M:
            def parse(self, text, **kw):
                return tatsu.parse(E.grammar_text(c.g), text, **kw)
        b = R.with_timeout(lambda: E.run_impl(_M(), c.text, c.start, c.settings), 10)
        col.count('api.tatsu.parse')
        if a != b:
            col.violation('api:tatsu.parse-vs-compile.parse', 'tatsu.parse(grammar, text) differs from compile(grammar).parse(text)',
                          {'oracle': 'tatsu.parse vs compile().parse', 'case': c.describe(), 'compile.parse': a, 'tatsu.parse': b})
    if cases:
        col.sample(cases[len(cases) // 2].describe())


# ---- AST-shape interactions: every pair / triple of element kinds in one sequence -------------------------
POOL = [
    ('tok', 'a'), ('pat', r'\d+'),
    ('rep', False, None, False, ('tok', 'a')), ('rep', True, None, False, ('tok', 'b')),
    ('rep', False, ('tok', ','), False, ('tok', 'a')), ('rep', True, ('tok', ','), True, ('tok', 'b')),
    ('assoc', True, ('tok', ','), ('tok', 'a')), ('assoc', False, ('tok', ','), ('tok', 'b')),
    ('group', ('seq', [('tok', 'b'), ('tok', 'c')])), ('opt', ('seq', [('tok', 'b'), ('tok', 'c')])), ('opt', ('tok', 'b')),
    ('choice', [('seq', [('tok', 'b'), ('tok', 'c')]), ('tok', 'a')]),
    ('call', 'lst'), ('call', 'one'), ('call', 'clo'),
    ('named', False, 'n', ('tok', 'a')), ('named', True, 'm', ('tok', 'b')), ('over', False, ('tok', 'c')),
    'empty', 'void', ('const', 'k'), ('look', False, ('tok', 'a')), ('skipgroup', ('tok', 'a')),
    ('named', False, 'n', ('group', ('seq', [('tok', 'b'), ('tok', 'c')]))), ('named', False, 'n', ('rep', False, None, False, ('tok', 'a'))),
    # names nested inside a named element: they are names of the rule too (None / [] when their part does not match)
    ('named', False, 'n', ('opt', ('seq', [('tok', 'a'), ('named', False, 'k', ('tok', 'b'))]))),
    ('named', False, 'n', ('group', ('choice', [('tok', 'a'), ('named', False, 'k', ('tok', 'b'))]))),
    ('named', True, 'm', ('rep', False, None, False, ('seq', [('tok', 'a'), ('named', True, 'j', ('tok', 'b'))]))),
    # elements that do NOT skip whitespace, next to elements that do (also after rules that match nothing)
    'dot', ('pat', r'\s*b'), ('pat', r'\s+c'), ('call', 'optr'), ('call', 'lookr'), ('call', 'UP'),
]
AUX = [('lst', [], ('seq', [('tok', 'a'), ('tok', 'b')])), ('one', [], ('tok', 'a')), ('clo', [], ('rep', False, None, False, ('tok', 'c'))),
       ('optr', [], ('opt', ('tok', 'x'))), ('lookr', [], ('look', False, ('pat', r'[abc]'))), ('UP', [], ('opt', ('tok', 'x')))]


def shard_shapes(col, shard, nshards, triples_per_shard):
    import itertools
    mr = ModelRun('Engine')
    rng = col.rng
    seqs = [list(p) for p in itertools.product(POOL, repeat=2)]
    seqs = [x for i, x in enumerate(seqs) if i % nshards == shard]
    for _ in range(triples_per_shard):
        seqs.append([rng.choice(POOL) for _ in range(3)])
    if shard == 0:
        # something consumed, then an element that may match NOTHING after skipping whitespace, then an element that does not skip
        for lead in (('tok', 'a'), ('pat', r'\d+')):
            for nul in (('call', 'optr'), ('call', 'lookr'), ('call', 'clo'), ('opt', ('tok', 'b')), 'void', ('const', 'k'), ('look', False, ('tok', 'a'))):
                for nosk in ('dot', ('pat', r'\s*b'), ('pat', r'\s+c'), ('call', 'UP')):
                    seqs.append([lead, nul, nosk])
    cases = []
    for es in seqs:
        g = {'rules': [('start', [], ('seq', es))] + AUX, 'directives': {}, 'keywords': []}
        texts = set()
        for _ in range(4):
            texts.add(G.join_lexemes(rng, G.sample_sentence(rng, g, g['rules'][0][2]), gaps=(' ',)))
        full = []
        for e in es:     # the sentence in which every optional part is present once or twice
            k = E.kind(e)
            if k == 'rep':
                one = G.sample_sentence(rng, g, e[4])
                sep = G.sample_sentence(rng, g, e[2]) if e[2] is not None else []
                full += one + sep + one
            elif k == 'opt':
                full += G.sample_sentence(rng, g, e[1])
            else:
                full += G.sample_sentence(rng, g, e)
        texts.add(' '.join(full))
        if any(e in ('dot',) or (isinstance(e, tuple) and (e[0] == 'pat' and e[1].startswith('\\s') or e == ('call', 'optr') or e == ('call', 'lookr') or e == ('call', 'UP'))) for e in es):
            for base in sorted(texts):
                texts |= {base.replace(' ', '  '), base.replace(' ', '\r\n'), ' ' + base + ' ', '  ' + base.replace(' ', ' \n')}
        for t in sorted(texts):
            cases.append(R.Case(g, t))
    col.count('shapes.sequences', len(seqs))
    R.differential(col, mr, cases, 'E1shape', batch=600)


# ---- "a rule's value is always one element of its caller" (implementation only, no model involved) --------------
RULE_BODIES = {
    'tok': ('tok', 'a'),
    'seq': ('seq', [('tok', 'a'), ('tok', 'b')]),
    'closure': ('rep', False, None, False, ('tok', 'a')),
    'positive': ('rep', True, None, False, ('tok', 'a')),
    'join': ('rep', False, ('tok', ','), False, ('tok', 'a')),
    'optional': ('seq', [('tok', 'a'), ('opt', ('tok', 'b'))]),
    'named': ('seq', [('named', False, 'n', ('tok', 'a')), ('tok', 'b')]),
    'override-token': ('seq', [('tok', 'a'), ('over', False, ('tok', 'b'))]),
    'override-group': ('over', False, ('group', ('seq', [('tok', 'a'), ('tok', 'b')]))),
    'override-closure': ('over', False, ('rep', False, None, False, ('tok', 'a'))),
    'override-list': ('seq', [('over', True, ('tok', 'a')), ('over', True, ('tok', 'b'))]),
    'group': ('group', ('seq', [('tok', 'a'), ('tok', 'b')])),
    'choice': ('choice', [('seq', [('tok', 'a'), ('tok', 'b')]), ('tok', 'a')]),
    'const': ('seq', [('tok', 'a'), ('const', 'k')]),
    'nested-call': ('seq', [('call', 'leaf'), ('call', 'leaf')]),
    'none-valued': ('opt', ('tok', 'b')),           # the rule's value is None when the optional is skipped
    'empty-closure': ('rep', False, None, False, ('tok', 'b')),
    'void': 'void',
}


def shard_one_element(col, shard):
    import tatsu
    rng = col.rng

    def parse(gtext, t):
        try:
            m = R._compiled.get(gtext) or tatsu.compile(gtext)
            R._compiled[gtext] = m
            return ('ok', E.canon(m.parse(t)))
        except tatsu.exceptions.FailedParse:
            return ('fail', None)
        except Exception as e:  # noqa
            return ('exc', type(e).__name__)
    for kind, body in RULE_BODIES.items():
        for where in ('first', 'middle', 'last', 'only-with-token'):
            pre = [] if where in ('first', 'only-with-token') else [('tok', 'x')]
            post = [] if where == 'last' else [('tok', 'c')]
            aux = [('r', [], body), ('leaf', [], ('tok', 'a'))]
            g_plain = {'rules': [('start', [], ('seq', pre + [('call', 'r')] + post))] + aux, 'directives': {}, 'keywords': []}
            g_named = {'rules': [('start', [], ('seq', pre + [('named', False, 'v', ('call', 'r'))] + post))] + aux, 'directives': {}, 'keywords': []}
            for _ in range(3):
                lex = [l for e in pre for l in G.sample_sentence(rng, g_plain, e)] + G.sample_sentence(rng, g_plain, body) + \
                      [l for e in post for l in G.sample_sentence(rng, g_plain, e)]
                t = ' '.join(lex)
                a = parse(E.grammar_text(g_plain), t)
                b = parse(E.grammar_text(g_named), t)
                col.case(['one-element', kind, where, t], nontrivial=True)
                col.count('one-element.compared')
                if a[0] != 'ok' or b[0] != 'ok':
                    continue
                k = len(pre) + 1 + len(post)
                want_v = b[1]['dict']['v'] if isinstance(b[1], dict) and 'dict' in b[1] else None
                idx = len(pre)
                okay = (a[1] == want_v) if k == 1 else (isinstance(a[1], list) and len(a[1]) == k and a[1][idx] == want_v)
                if not okay:
                    col.violation(f'oracle:rule-value-not-one-element:{kind}:{"first" if idx == 0 else "later"}',
                                  f"the value of rule r ({kind}) is not one element of its caller: {a[1]!r} (the value bound by v:r is {want_v!r})",
                                  {'oracle': 'a rule value is one element of its caller', 'grammar': E.grammar_text(g_plain), 'text': t,
                                   'result': a[1], 'value_of_r': want_v})


# ---- the DOCUMENTED semantics: an independent reference interpreter (props/c01_docref.py, no model involved) ---------------
def shard_docref(col, shard_i, ngrammars, ninputs, shrink):
    import props.c01_docref as D
    stats = [D.run(col, seed=col.rng.randrange(2 ** 30), ngrammars=ngrammars, ninputs=ninputs, shrink=shrink)]
    stats.append(D.run_corpus(col, seed=col.rng.randrange(2 ** 30), shrink=shrink, part=(shard_i, 14)))
    for st in stats:
        col.count('docref.compared', st['cases'])
        col.count('docref.agree', st['agree'])
        for sig, ent in st['findings'].items():
            # a case explained by several documented deviations at once is reported under each of them
            for part in (D.signature_parts(sig) if not sig.startswith('docref:unexplained') else [sig]):
                for _ in range(ent['count']):
                    col.violation(part, 'the implementation deviates from the documented AST semantics (docs quoted in c01_docref.DEVIATIONS)',
                                  {'oracle': 'documented semantics (reference interpreter)', 'combined_signature': sig, 'example': ent['example'],
                                   'docs': D.DEVIATIONS.get(part, {}).get('docs')})


# ---- skip-to: targets that do / do not skip whitespace themselves, junk and whitespace before the match ----
def shard_skipto(col, shard, n):
    mr = ModelRun('Engine')
    rng = col.rng
    targets = [('tok', 'b'), ('pat', 'b'), ('pat', r'\d+'), 'dot', ('call', 'Up'), ('call', 'low'), ('group', ('seq', [('tok', 'b'), ('tok', 'c')])),
               ('choice', [('pat', r'\d+'), ('tok', 'b')])]
    aux = [('Up', [], ('pat', r'[bc]')), ('low', [], ('pat', r'[bc]'))]
    cases = []
    for _ in range(n):
        tgt = rng.choice(targets)
        pre = rng.choice([[], [('tok', 'a')]])
        post = rng.choice([[], [('tok', 'c')], ['eof']])
        g = {'rules': [('start', [], ('seq', pre + [('skipto', tgt)] + post))] + aux, 'directives': {}, 'keywords': []}
        if rng.random() < 0.25:
            g['directives']['whitespace'] = rng.choice(['[ ]+', '[\\t ]+'])
        for _k in range(6):
            junk = ''.join(rng.choice(['z', 'x ', ' ', '\n', '9', 'q', '  ', 'a']) for _ in range(rng.randint(0, 5)))
            hit = rng.choice(['b', ' b', 'b c', '42', ' 42', '\n42', 'bc', ' b c', '', 'c'])
            text = ('a ' if pre and rng.random() < 0.8 else '') + junk + hit + rng.choice(['', ' ', ' c', 'c'])
            cases.append(R.Case(g, text))
    R.differential(col, mr, cases, 'E1skipto', batch=600)


LEAVES = [('tok', 'a'), ('tok', 'b'), 'cut', 'void', 'eof']


def shard_exhaustive(col, shard, nshards, budget, maxlen):
    """All 1-rule grammars whose body has at most `budget` nodes over the small construct set, and a 2-rule
    family start = <exp with call>, r = 'a' | 'b' r ; each with ALL inputs over {a, b, ' '} up to maxlen."""
    mr = ModelRun('Engine')
    exps = G.enum_exps(budget, LEAVES)
    inputs = list(vlib.all_strings('ab ', maxlen))
    cases = []
    for i, e in enumerate(exps):
        if i % nshards != shard:
            continue
        g = {'rules': [('start', [], e)], 'directives': {}, 'keywords': []}
        for t in inputs:
            cases.append(R.Case(g, t))
    exps2 = G.enum_exps(max(1, budget - 1), LEAVES[:2], calls=['r'])
    for i, e in enumerate(exps2):
        if i % nshards != shard or not any(E.kind(x) == 'call' for x in E.walk(e)):
            continue
        g = {'rules': [('start', [], e), ('r', [], ('choice', [('seq', [('tok', 'b'), ('call', 'r')]), ('tok', 'a')]))],
             'directives': {}, 'keywords': []}
        for t in inputs:
            cases.append(R.Case(g, t))
    col.count('exhaustive.grammars', len(cases) // max(1, len(inputs)))
    R.differential(col, mr, cases, 'E1x', batch=800)


def main():
    chk = Check(PID)
    chk.rule = ('E1: random grammars over the core expression language (size-bounded recursive generation, calls kept '
                'acyclic or guarded by a consumed token) x inputs sampled from the grammar, one-edit mutants and random strings; '
                'E1x: every expression up to a node budget over {a, b, ~, (), $, seq, choice, optional, closures, lookaheads, '
                'named, override, call} with every input over {a,b,space} up to a length bound. Non-trivial: non-empty input '
                'whose parse ends in success or an ordinary failure; distinct by (grammar text, input, start, settings).')
    chk.trusted += ['oracles supplied by the real Python for each case: re (match length and value of every pattern at every '
                    'position), str.isalnum/isalpha/lower/upper for the characters of the case, AST._unsafe() names, '
                    'the resolved ParserConfig (C09 checks the layering), Rule.is_lrec / Rule.memoizable of the optimized grammar (C16)',
                    'modelled by hand (tied by correspondence only): peg/*._parse, contexts/context.py closure/repeat/isolate/skip_to, '
                    'core.py/engine.py call path, state.py, cst.py, ast.py, Model.optimized; not modelled: tracing, heartbeat, error messages, '
                    '@nostak, rule includes/based rules (expanded by the harness), EOL, left/right joins']
    st = chk.coq()
    ok, out = vlib.build_modelrun('Engine')
    chk.obligation('modelrun_Engine builds', 'build', ok, out[-500:])
    if ok:
        if chk.quick:
            vlib.run_sharded(chk, shard_random, 14, extra=(10, 10))
            vlib.run_sharded(chk, shard_exhaustive, 14, extra=(14, 3, 3))
            vlib.run_sharded(chk, shard_shapes, 14, extra=(14, 25))
            vlib.run_sharded(chk, shard_skipto, 14, extra=(12,))
        else:
            vlib.run_sharded(chk, shard_random, 28, extra=(60, 14))
            vlib.run_sharded(chk, shard_exhaustive, 28, extra=(28, 4, 4))
            vlib.run_sharded(chk, shard_shapes, 28, extra=(28, 400))
            vlib.run_sharded(chk, shard_skipto, 28, extra=(120,))
            chk.exhaustive = True
        bad = [v for v in chk.violations if v['signature'].startswith('E1')]
        vlib.run_sharded(chk, shard_one_element, 1, procs=1)
        vlib.run_sharded(chk, shard_docref, 14, extra=((6, 6, False) if chk.quick else (150, 10, True)))
        chk.obligation('documented AST semantics: implementation vs the reference interpreter (every deviation is a listed finding)', 'oracle',
                       not any(v['signature'].startswith('docref:') for v in chk.violations))
        chk.obligation("a rule's value is one element of its caller (implementation only)", 'oracle',
                       not any(v['signature'].startswith('oracle:rule-value') for v in chk.violations))
        chk.obligation('E1: tatsu.compile(g).parse(t) vs modelrun eval (random)', 'correspondence',
                       not any(v['signature'].startswith('E1:') for v in chk.violations))
        chk.obligation('E1x: exhaustive small scope', 'correspondence',
                       not any(v['signature'].startswith('E1x:') for v in chk.violations))
        chk.obligation('E1shape: every pair (and sampled triples) of element kinds in one sequence', 'correspondence',
                       not any(v['signature'].startswith('E1shape:') for v in chk.violations))
        chk.obligation('E1skipto: skip-to targets with junk and whitespace before the match', 'correspondence',
                       not any(v['signature'].startswith('E1skipto:') for v in chk.violations))
    return chk.finish()


if __name__ == '__main__':
    sys.exit(main())
