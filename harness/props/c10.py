"""C10 - API results depend only on the arguments, not on earlier or concurrent calls.

A1  random histories of API calls (compile / model.parse / tatsu.parse / to_python_sourcecode / generated parser)
    over a pool of grammars, names, semantics objects, builder options, settings, start rules and texts
    (including parses that fail).  Every call's canonical result is compared with
      (a) the same call replayed in a process that has executed nothing else (a child forked from a zygote that
          has only imported tatsu; a sample is re-checked against brand new interpreters),
      (b) the prediction of Lib/Api.v (extracted, build/modelrun_Api): the symbolic result after the history T_h
          and from the initial state T_0.  T_h = T_0 -> the implementation must not depend on the history;
          T_h <> T_0 -> T_h is evaluated explicitly in a fresh process and must equal what the call returned.
A2  write set: a parse must not alter the grammar model (asjson) nor the configuration objects; after a warm-up
    parse a second parse writes nothing at all to any object reachable from the model (idempotent caches).
T   N threads parsing different inputs on ONE shared model under sys.setswitchinterval(1e-6) = sequential results.

Input classes added when the check was strengthened (all part of A1 / A2):
 * results are compared TYPE-EXACTLY (1, True and 1.0 are different results; json round trips alone equate them);
 * "sibling" grammars 7-9, generated from the seed: the same shape, with constants / rule parameters / rule keyword
   parameters that are == but of different type across the siblings (0/False/0.0/-0.0, 1/True/1.0, 2/2.0), and
   semantics whose actions turn tokens into such scalars and echo the rule parameters: any process-wide cache keyed by
   value (or hash) instead of identity serves one grammar the node of another;
 * SHORT-LIVED semantics objects: calls that build their own semantics object and drop it after the call (a new
   object per call, 8 classes that provide their actions in different ways: none applicable, bound methods, static
   methods, class methods, functions handed out by __getattr__, bound / static _default only, bound for some rules
   only).  The pool objects live as long as the process, so their id() is never handed out again; the id() of a dropped
   object is.  The worker plays the allocator adversarially: among a few candidate instances it uses the one that sits
   at the address of a finalised semantics object (there is none while every id()-keyed cache pins its key object).
   Random histories, directed runs on one model / one parser object / the module-level API, and thread scripts;
 * generated parser OBJECTS are called with every per-call option model.parse gets (asmodel=, config=, semantics=,
   settings, start) and constructed from a caller-owned config object; ParserConfig objects are shared by all the calls
   of a history that use them (as a program reuses one config); write-set oracle on the parser's own configuration,
   its active configuration after the call, the constructor's config and the config= argument of every call;
 * regex-valued settings in different FORMS (grammars 10-12 and settings 7-12, generated from the seed): the pattern
   text of whitespace / comments / eol_comments as a plain string, precompiled without flags, precompiled with a flag
   that changes what the text matches (IGNORECASE / VERBOSE / DOTALL / MULTILINE), and the same text in @@directives
   and in a /pattern/ of a rule; texts on which the flags matter; every form used after every other form of the same
   text (parse / tatsu.parse / compile settings, caller-owned config objects, generated parser objects);
 * T with FORCED PREEMPTION: first parses on a cold model whose type names nobody has used in the process (fresh names
   per round), by 2-6 threads that are driven in lock step - through sys.monitoring LINE events - through every
   function that touches state the threads share (found by inspection of the modules: module-level containers, locks,
   function caches, the class registry, cached attributes of the model) and their direct callers: every thread does
   the check of a check-then-act sequence before any thread acts.  Oracles: sequential results, and ONE class object
   per type name over the results of all the threads and of a later sequential parse;
 * T with ONE THREAD AHEAD (second kind of forced preemption): lock step brings the threads to a window together; a
   thread that ARRIVES while another one is in the middle of building state of a cold model (optimized copy, rule map,
   lookahead sets, left-recursion flags, rule infos, synthesized classes) sees whatever the builder has published so
   far.  The leader makes the first call on a cold model and is stopped before the first execution of a line of the
   functions that build model state after construction (found by inspection: every function of the grammar-model
   package outside the constructors that assigns attributes, the cached properties, their callees, plus the lock-step
   functions); in the window a NEW thread makes one complete call, or is found blocked on a lock the leader holds.
   One window per cold model (a completed call has used the model), at every n-th such line (the scripts share the
   lines out between them), plus rounds with a window at every line.  Over three seed-generated LEFT-RECURSIVE grammars
   (nested direct recursion, indirect recursion through 2-3 rules, a typed selector chain): their results depend on
   flags an analysis pass leaves on the rules after construction.  Oracles: the result of the same call on a model of
   its own that no other thread ever touched, for the leader, for every follower and for a LATER sequential parse on
   the shared model (a shared model left wrong for good makes the threads and the later parse agree, wrongly).
 * grammars that are NOT in the optimizer's normal form (16-18, generated from the seed): groups around one element or
   around a group, optionals directly inside optionals / around closures and joins, groups as bodies of closures, joins,
   gathers, named / override / lookahead / skip elements around groups, choices with a leading bar, rules that only call
   another rule (chains), rule includes, rules with parameters / node types / decorators, directives - inside longer
   sequences and choices.  The first parse with a model builds (and caches on it) Grammar.optimized(): a rewritten COPY
   that shares nodes and containers with the model the caller - and, through the compile cache, every other caller -
   holds.  Every grammar of the pool before was already in normal form, so that copy was the identity and "a parse never
   alters the grammar model" was only ever checked where there was nothing to alter.  The model is now looked at in four
   ways before / after every parse and in every compile result: asjson, a direct walk over node classes and declared
   fields, pretty(), pretty_lean().  Directed histories use a compiled grammar in every other way (generate the source,
 * CONSTANT EXPRESSIONS OVER NAMES (grammars 19-21 and semantics 9-10, generated from the seed): constants `name`,
   `{name}!`, `len(name)`, `{a}-{b}`, `a + b` ... whose names are named elements of SOME rule: defined in the rule that
   holds the constant, in another rule of the grammar, in a rule of another grammar of the family, provided by the
   safe_context() of a semantics object (which hands out its own dict), or nowhere.  What a name stands for is per rule
   invocation; a name that is not defined stays text.  Every grammar after every grammar, one model / one generated parser
   object over all the texts, with and without the semantics objects that provide names; write set of their dicts.
 * calls that are given NOTHING but the caller's ParserConfig object next to one model-building option, through every
   entry point that takes config= (directed; such calls were left to the dice of the random histories);
 * BUILDER OPTIONS IN CONTAINERS THE CALLER OWNS AND REUSES (builder options 6-15, generated from the seed): typedefs=
   lists over a module / a mapping / a class that define node classes, constructors= lists, BuilderConfig objects built
   over those very lists (alone and combined with typedefs= / basetype=), and ModelBuilderSemantics objects built per call
   from them: ONE object per container per process, given to compile / tatsu.parse / ModelBuilderSemantics in many calls
   (before: every call built its own throw-away objects).  Write-set oracle over every container before / after every call
   (contents by name, nested containers by identity), and every call compared with a fresh process as before; the node
   classes of a result carry their module, and a difference of classes is the recorded registry finding D6c only when
   the classes are synthesized ones in both results (else history:unexplained-classes).
"""
from __future__ import annotations

import ast
import json
import os
import subprocess
import sys
import random as _random
import threading
from concurrent.futures import ThreadPoolExecutor
from pathlib import Path

sys.path.insert(0, str(Path(__file__).resolve().parent.parent))
import vlib
from vlib import Check, ModelRun

PID = 'C10'

# =============================================================================== worker (runs in /repo's python)
WORKER_SRC = r'''
import sys, os, re, json, signal, hashlib, threading, dataclasses, gc, weakref, types, functools, importlib
import tatsu
from tatsu.util import asjson
from tatsu.objectmodel import Node, ModelBuilderSemantics
from tatsu.objectmodel.builder import BuilderConfig
from tatsu.config import ParserConfig

GRAMMARS = {
 1: """
start = {item}+ $ ;
item = word | num ;
word = /[a-z]+/ ;
num = /\\d+/ ;
""",
 2: """
start::Prog = items:{item}+ $ ;
item = pair | atom ;
pair::Pair = '(' l:atom r:atom ')' ;
atom::Atom = v:/[a-z]+/ ;
""",
 3: """
@@grammar :: Toks
start = 'begin' {stmt} 'end' $ ;
stmt::Stmt = kind:'let' name:ident | kind:'print' name:ident ;
ident = /[a-z_]+/ ;
""",
 4: """
start = a $ ;
a = 'a' {b} ;
b::Bee = 'b' x:/x*/ ;
alt::Alt = z:'z' $ ;
""",
 5: """
start::Prog::Base = first:atom rest:{atom} $ ;
atom::Atom::Leaf = n:/\\d+/ ;
""",
 6: """
@@keyword :: if then
@@left_recursion :: True
start = expr $ ;
expr = expr '+' term | term ;
@name
term = /[a-z]+/ ;
""",
}
# sibling grammars (same shape, constants that are == but of another type), generated by the harness from the seed
EXTRA = json.loads(os.environ.get('C10_EXTRA') or '{}')
for _k, _v in EXTRA.get('grammars', {}).items():
    GRAMMARS[int(_k)] = _v
NAMES = {0: None, 1: 'Alpha', 2: 'Beta'}
TEXTS = {
 1: ['ab 12 c', 'ab', '', 'AB 1', 'ab ! c', '1 t o 0', 't 1 f', 'z 0 f o 1'],
 2: ['a (b c)', '(a b) c', '(a', 'a', ''],
 3: ['begin let x print y end', 'BEGIN LET x END', 'beginletxend', 'begin end', 'begin let end'],
 4: ['a b bxx', 'z', 'b xx', 'a c', 'a'],
 5: ['1 2 3', '1', 'x', '1 x'],
 6: ['a + b + c', 'a + if', 'a +', 'if', 'a'],
}
for _k, _v in EXTRA.get('texts', {}).items():
    TEXTS[int(_k)] = _v
STARTS = {0: None, 1: 'start', 2: 'a', 3: 'alt', 4: 'b', 5: 'atom', 6: 'nosuch', 7: 'item', 8: 'num'}
SETTINGS = {0: {}, 1: {'whitespace': ''}, 2: {'ignorecase': True}, 3: {'nameguard': False},
            4: {'bogus_setting': 1}, 5: {'parseinfo': True}, 6: {'memoization': False}}
# regex-valued settings in different FORMS (generated by the harness from the seed): the text of a pattern as a plain
# string, the same text precompiled without flags, the same text precompiled WITH flags.  {'$re': text, 'flags': n}
# stands for re.compile(text, n); the object is built once per process (as a program keeps its compiled patterns).
def _setting_value(v):
    if isinstance(v, dict) and '$re' in v:
        return re.compile(v['$re'], v.get('flags', 0))
    return v
for _k, _v in EXTRA.get('settings', {}).items():
    SETTINGS[int(_k)] = {kk: _setting_value(vv) for kk, vv in _v.items()}

class B1(Node):
    pass
class B2(Node):
    pass
class Ident:
    def _default(self, ast, *args, **kwargs):
        return ast
class Tag:
    def __init__(self, tag):
        self.tag = tag
    def _default(self, ast, *args, **kwargs):
        return ast
    def item(self, ast, *args, **kwargs):
        return {'tag': self.tag, 'item': ast}
    def atom(self, ast, *args, **kwargs):
        return {'tag': self.tag, 'atom': ast}
    def term(self, ast, *args, **kwargs):
        return [self.tag, ast]
    def b(self, ast, *args, **kwargs):
        return (self.tag, ast)
class Conv:
    """actions that turn tokens into typed scalars (int / bool / float) and echo the parameters of the rule"""
    WORDS = {'t': True, 'f': False, 'o': 1.0, 'z': 0.0}
    def num(self, ast, *args, **kwargs):
        return int(ast)
    def word(self, ast, *args, **kwargs):
        return self.WORDS.get(ast, ast)
    def item(self, ast, *args, **kwargs):
        return {'item': ast, 'args': list(args), 'kw': {k: v for k, v in kwargs.items() if k != 'parseinfo'}}
    def _default(self, ast, *args, **kwargs):
        return ast
class Twin:
    """two semantics objects that compare (and hash) equal, as value-like classes do, but are not the same object"""
    def __init__(self, tag):
        self.tag = tag
    def __eq__(self, other):
        return isinstance(other, Twin)
    def __hash__(self):
        return hash('Twin')
    def _default(self, ast, *args, **kwargs):
        return [self.tag, ast]
class Ctx:
    """a semantics object that provides names for the constant expressions of a grammar (`...`): safe_context() hands
    out the object's own dict, as a program that keeps its evaluation context on the semantics object does"""
    def __init__(self, ctx):
        self.ctx = dict(ctx)
    def safe_context(self):
        return self.ctx
SEMS = {1: Ident(), 2: Tag('A'), 3: Tag('B'), 4: ModelBuilderSemantics(), 5: ModelBuilderSemantics(basetype=B1),
        6: Conv(), 7: Twin('$twinA'), 8: Twin('$twinB')}
for _k, _v in (EXTRA.get('contexts') or {}).items():
    SEMS[int(_k)] = Ctx(_v)

# ---- short-lived semantics objects: created for ONE call and dropped after it (a request handler that builds its
# semantics object per request).  Their lifetime ends, so the allocator may hand their address (their id()) to a later,
# unrelated object: anything remembered under id(object) without keeping the object alive (or re-validating it) is then
# served to the wrong object.  Classes differ in HOW an action is found, because that decides what a cache entry holds:
# nothing at all (no action for the rule), a method bound to the object, or a callable that does not reference it.
EPH_BASE = 100
EPH_RULES = ('item', 'atom', 'num', 'ident', 'b', 'term', 'pair')

def _eph_method(label, rule):
    def action(self, ast, *args, **kwargs):
        return {'by': label, 'tag': self.tag, 'rule': rule, 'ast': ast}
    action.__name__ = rule
    return action

def _eph_function(label, rule):
    def action(ast, *args, **kwargs):
        return {'by': label, 'rule': rule, 'ast': ast}
    action.__name__ = rule
    return action

def _eph_clsfunction(label, rule):
    def action(cls, ast, *args, **kwargs):
        return {'by': label, 'cls': cls.__name__, 'rule': rule, 'ast': ast}
    action.__name__ = rule
    return action

class EphBase:
    def __init__(self, tag):
        self.tag = tag
class EphForeign(EphBase):
    """written for some other grammar: no action applies to any rule of the pool, no _default"""
    def expression(self, ast, *args, **kwargs):
        return ('expression', self.tag, ast)
    def statement(self, ast, *args, **kwargs):
        return ('statement', self.tag, ast)
class EphBound(EphBase):
    """ordinary methods (bound to the object, use its state)"""
class EphStatic(EphBase):
    """@staticmethod actions"""
class EphClassm(EphBase):
    """@classmethod actions"""
class EphDynamic(EphBase):
    """actions handed out by __getattr__: plain functions that do not reference the object"""
    _FUNCS = {r: _eph_function('dynamic', r) for r in EPH_RULES}
    def __getattr__(self, name):
        try:
            return EphDynamic._FUNCS[name]
        except KeyError:
            raise AttributeError(name) from None
class EphDefault(EphBase):
    """only a bound _default"""
    def _default(self, ast, *args, **kwargs):
        return {'by': 'default', 'tag': self.tag, 'ast': ast}
class EphStaticDefault(EphBase):
    """only a static _default"""
    @staticmethod
    def _default(ast, *args, **kwargs):
        return {'by': 'static-default', 'ast': ast}
class EphPartial(EphBase):
    """bound methods for some rules, nothing for the others"""
for _r in EPH_RULES:
    setattr(EphBound, _r, _eph_method('bound', _r))
    setattr(EphStatic, _r, staticmethod(_eph_function('static', _r)))
    setattr(EphClassm, _r, classmethod(_eph_clsfunction('classm', _r)))
for _r in EPH_RULES[::2]:
    setattr(EphPartial, _r, _eph_method('partial', _r))
EPH_KINDS = [EphForeign, EphBound, EphStatic, EphClassm, EphDynamic, EphDefault, EphStaticDefault, EphPartial]
EPH_STAT = {'made': 0, 'collected': 0, 'address_reused': 0}
_EPH_DEAD = set()        # addresses of short-lived semantics objects that have been finalised
_EPH_REFS = {}
_EPH_LOCK = threading.Lock()
EPH_PROBES = 48

def _eph_watch(obj):
    i = id(obj)
    def gone(_ref):
        _EPH_REFS.pop(i, None)
        _EPH_DEAD.add(i)
        EPH_STAT['collected'] += 1
    _EPH_REFS[i] = weakref.ref(obj, gone)

def eph_new(n):
    """a NEW object per use.  Which address a new object gets is the allocator's choice; the adversarial choice is
    made here: among a few candidate instances the one that sits at the address of a finalised semantics object is
    used (none exists as long as everything that remembers an id() also keeps the object alive)."""
    x = n - EPH_BASE
    cls, tg = EPH_KINDS[(x // 4) % len(EPH_KINDS)], 'T%d' % (x % 4)
    with _EPH_LOCK:
        chosen = cls(tg)
        if _EPH_DEAD and id(chosen) not in _EPH_DEAD:
            spare = [chosen]
            for _ in range(EPH_PROBES):
                c = cls(tg)
                if id(c) in _EPH_DEAD:
                    chosen = c
                    break
                spare.append(c)
            del spare
        EPH_STAT['made'] += 1
        if id(chosen) in _EPH_DEAD:
            _EPH_DEAD.discard(id(chosen))
            EPH_STAT['address_reused'] += 1
        _eph_watch(chosen)
    return chosen

# ---- builder options whose containers are OWNED BY THE CALLER and reused: typedefs= lists and the modules / mappings /
# classes in them, constructors= lists, BuilderConfig objects built over those lists.  ONE object per container name per
# process (a program keeps its registry of node classes and passes it to every call); described by the harness from the
# seed (EXTRA['owned']).  Whatever a call writes into one of them is seen by every later call that is given the object.
OWN = EXTRA.get('owned') or {'containers': {}, 'bopts': {}}
OWNED = {}
OWN_SEM_BASE = 100000
OWN_BASES = {'Node': Node, 'B1': B1, 'B2': B2}

def _own_class(name, modname):
    return type(name, (Node,), {'__module__': modname})

def owned(cname):
    if cname in OWNED:
        return OWNED[cname]
    spec = OWN['containers'][cname]
    kind = spec['kind']
    mod = 'c10own_' + cname
    if kind == 'module':
        o = types.ModuleType(mod)
        for n in spec['types']: setattr(o, n, _own_class(n, mod))
    elif kind == 'mapping':
        o = {n: _own_class(n, mod) for n in spec['types']}
    elif kind == 'class':
        o = type(mod, (), dict({n: _own_class(n, mod) for n in spec['types']}, __module__=mod))
    elif kind == 'list':
        o = [_own_class(x[2:], '__main__') if x.startswith('T:') else owned(x) for x in spec['items']]
    elif kind == 'builderconfig':
        kw = {}
        if spec.get('typedefs'): kw['typedefs'] = owned(spec['typedefs'])
        if spec.get('constructors'): kw['constructors'] = owned(spec['constructors'])
        if spec.get('basetype'): kw['basetype'] = OWN_BASES[spec['basetype']]
        if 'synthok' in spec: kw['synthok'] = spec['synthok']
        o = BuilderConfig(**kw)
    else:
        raise KeyError(kind)
    OWNED[cname] = o
    return o

def _nm(x):
    return '%s.%s' % (getattr(x, '__module__', '?'), getattr(x, '__name__', None) or type(x).__name__)

def _own_ref(x):
    for cname, o in OWNED.items():
        if o is x: return '@' + cname
    if isinstance(x, (list, tuple)): return [type(x).__name__] + [_own_ref(v) for v in x]
    return _nm(x)

def owned_snapshot():
    """what a program sees when it looks at its own containers (contents by name, nested containers by identity)"""
    out = {}
    for cname, o in list(OWNED.items()):
        kind = OWN['containers'][cname]['kind']
        if kind == 'builderconfig':
            v = {k: _own_ref(x) if not isinstance(x, (bool, int, str, type(None))) else repr(x) for k, x in vars(o).items()}
        elif kind == 'list':
            v = [_own_ref(x) for x in o]
        elif kind == 'mapping':
            v = [[k, _own_ref(x)] for k, x in o.items()]
        else:
            v = sorted([k, _own_ref(x)] for k, x in vars(o).items() if not k.startswith('__'))
        out[cname] = jdump(v)
    return out

def owned_role(cname):
    spec = OWN['containers'][cname]
    return 'builder-' + (spec.get('role') or spec['kind'])

def own_bopt_of(n):
    return (n - OWN_SEM_BASE) % 32

def prepare_owned(op):
    """the caller's containers exist before the call that is given them (so that the write-set oracle has a before)"""
    for d in (op, op.get('a'), op.get('p'), op.get('t')):
        if not isinstance(d, dict): continue
        b = d.get('bopt')
        if isinstance(b, int) and str(b) in OWN['bopts']: bopt(b)
        n = d.get('sem')
        if isinstance(n, int) and n >= OWN_SEM_BASE: bopt(own_bopt_of(n))

def sem_obj(n):
    if n >= OWN_SEM_BASE:
        # a ModelBuilderSemantics object built for this call from the caller's containers
        kw = dict(bopt(own_bopt_of(n)))
        if 'builderconfig' in kw: kw['config'] = kw.pop('builderconfig')
        return ModelBuilderSemantics(**kw)
    return SEMS[n] if n < EPH_BASE else eph_new(n)

def bopt(i):
    # builder options; each triggers model building on its own (api.compile: basetype / builderconfig / ...)
    if i is None: return {}
    if i == 1: return {'basetype': B1}
    if i == 2: return {'basetype': B2}
    if i == 3: return {'basetype': B1, 'synthok': False}
    if i == 4: return {'builderconfig': BuilderConfig(basetype=B2)}
    if i == 5: return {'typedefs': [{'B1': B1}]}
    if str(i) in OWN['bopts']:
        out = {}
        for k, v in OWN['bopts'][str(i)].items():
            if k in ('typedefs', 'constructors', 'builderconfig'): out[k] = owned(v)
            elif k == 'basetype': out[k] = OWN_BASES[v]
            else: out[k] = v
        return out
    raise KeyError(i)

def sem_kind(s):
    if s is None: return 'none'
    for k, v in SEMS.items():
        if v is s: return 'user:%d' % k
    if isinstance(s, EphBase):
        return 'eph:%s:%s' % (type(s).__name__, s.tag)
    if isinstance(s, ModelBuilderSemantics):
        c = s.config
        return 'builder:%s:%s' % (getattr(c.basetype, '__name__', c.basetype), len(c.constructors or []))
    return 'other:' + type(s).__name__

def jdump(x):
    return json.dumps(x, sort_keys=True, default=lambda o: '<' + type(o).__name__ + '>')

def collect_types(x, out, seen, depth=0):
    if depth > 40 or id(x) in seen: return
    if isinstance(x, (str, bytes, int, float, bool, type(None))): return
    seen.add(id(x))
    if isinstance(x, dict):
        for v in list(x.values()): collect_types(v, out, seen, depth + 1)
    elif isinstance(x, (list, tuple, set, frozenset)):
        for v in list(x): collect_types(v, out, seen, depth + 1)
    elif hasattr(x, '__dict__') and not isinstance(x, type):
        mro = [c.__name__ for c in type(x).__mro__]
        if 'BaseNode' in mro:
            # classes that are not the library's carry their module: two classes of one name that come from
            # different containers of the caller (or one from a container, one synthesized) are different results
            out[type(x).__name__] = [c.__name__ if (c.__module__ or '').split('.')[0] in ('tatsu', 'builtins')
                                     else c.__module__ + '.' + c.__name__ for c in type(x).__mro__]
            for k, v in list(vars(x).items()):
                if not k.startswith('_') and k not in ('parseinfo', 'ctx'):
                    collect_types(v, out, seen, depth + 1)

def tag(x):
    """type-exact: True == 1 == 1.0 and 0.0 == -0.0 in Python (and after a json round trip compared with ==)"""
    if isinstance(x, bool): return {'$scalar': 'bool', 'v': repr(x)}
    if isinstance(x, float): return {'$scalar': 'float', 'v': repr(x)}
    if isinstance(x, dict): return {k: tag(v) for k, v in x.items()}
    if isinstance(x, (list, tuple)): return [tag(v) for v in x]
    return x

def canon_ok(x):
    try:
        j = tag(json.loads(jdump(asjson(x))))
    except Exception as e:
        j = {'asjson-raises': type(e).__name__}
    types = {}
    collect_types(x, types, set())
    return {'ok': j, 'pytype': type(x).__name__, 'types': types}

def canon_exc(e):
    r = {'exc': type(e).__name__}
    pos = getattr(e, 'pos', None)
    if isinstance(pos, int): r['pos'] = pos
    return r

def model_structure(m):
    """the grammar model as a program that holds it can walk it: the class of every node and its declared fields, down
    from the grammar through rules, expressions and their containers - read directly, neither through asjson() nor
    through pretty() (both are ways of LOOKING at the model and are compared separately)"""
    from tatsu.peg.base import Model
    onpath = set()
    def walk(x, depth):
        if isinstance(x, (str, bytes, int, float, bool, type(None))): return [type(x).__name__, repr(x)]
        if isinstance(x, re.Pattern): return ['re', x.pattern, x.flags]
        if depth > 80 or id(x) in onpath: return '<cycle>'
        onpath.add(id(x))
        try:
            if isinstance(x, dict): return {'$dict': [[walk(k, depth + 1), walk(v, depth + 1)] for k, v in x.items()]}
            if isinstance(x, (list, tuple)): return [walk(v, depth + 1) for v in x]
            if isinstance(x, (set, frozenset)): return {'$set': sorted(jdump(walk(v, depth + 1)) for v in x)}
            if isinstance(x, Model):
                if dataclasses.is_dataclass(x):
                    names = [f.name for f in dataclasses.fields(x)]
                else:
                    names = sorted(vars(x))
                names = [k for k in names if not k.startswith('_') and k not in ('ast', 'ctx', 'parseinfo')]
                return [type(x).__name__, {k: walk(getattr(x, k, None), depth + 1) for k in names}]
            return '<' + type(x).__name__ + '>'
        finally:
            onpath.discard(id(x))
    return jdump(walk(m, 0))

def model_looks(m):
    """(structure, pretty, lean pretty) of a grammar model (str() of a Grammar is the default repr with an address)"""
    out = []
    for f in (lambda: model_structure(m), lambda: m.pretty(), lambda: m.pretty_lean()):
        try: out.append(f())
        except Exception as e: out.append('raises-' + type(e).__name__)
    return out

def canon_model(m):
    try:
        dig = hashlib.sha256(jdump(asjson(m)).encode()).hexdigest()[:16]
    except Exception as e:
        dig = 'asjson-raises-' + type(e).__name__
    looks = [hashlib.sha256(x.encode()).hexdigest()[:12] for x in model_looks(m)]
    return {'ok': 'model', 'pytype': type(m).__name__, 'name': getattr(m, 'name', None),
            'rules': [r.name for r in getattr(m, 'rules', ())], 'sem': sem_kind(getattr(m, 'semantics', None)),
            'digest': dig, 'looks': looks, 'types': {}}

def cfg_snapshot(c):
    if c is None: return None
    d = c.asdict()
    d['semantics'] = sem_kind(d.get('semantics'))
    return jdump(d)

SNAP_PARTS = ('asjson', 'config', 'name', 'rules', 'structure', 'pretty', 'pretty-lean')

def model_snapshot(m):
    return (jdump(asjson(m)), cfg_snapshot(m.config), m.name, [r.name for r in m.rules], *model_looks(m))

def compile_kwargs(a):
    kw = dict(SETTINGS[a['cs']])
    if a.get('sem'): kw['semantics'] = sem_obj(a['sem'])
    if a.get('asmodel'): kw['asmodel'] = True
    kw.update(bopt(a.get('bopt')))
    return kw

def do_compile(a, text=None):
    return tatsu.compile(GRAMMARS[a['g']] if text is None else text, name=NAMES[a['name']], **compile_kwargs(a))

def build_sem(s):
    if s is None or s == 'none': return None
    if s[0] == 'user': return sem_obj(s[1])
    if s[0] == 'builder':
        bo = bopt(s[1])
        return ModelBuilderSemantics(config=BuilderConfig.new(
            config=bo.get('builderconfig'), synthok=bo.get('synthok', True), basetype=bo.get('basetype'),
            typedefs=bo.get('typedefs'), constructors=bo.get('constructors')))
    raise KeyError(s)

class Env:
    def __init__(self):
        self.models = {}
        self.sources = {}
        self.parsers = {}
        self.parser_cfg = {}
        self.cfgs = {}

    def cfg(self, i):
        """ParserConfig objects owned by the caller: ONE object per settings id, shared by every call of the history"""
        if not i:
            return None
        if i not in self.cfgs:
            self.cfgs[i] = ParserConfig(**SETTINGS[i])
        return self.cfgs[i]

def find_parser_class(ns):
    from tatsu.parsing import Parser
    cands = [v for k, v in ns.items() if isinstance(v, type) and issubclass(v, Parser) and v is not Parser
             and k.endswith('Parser')]
    return cands[0]

def mparse_call(m, p, extra=None):
    g = p['g']
    kw = dict(SETTINGS[p['ps']])
    if STARTS[p['start']] is not None: kw['start'] = STARTS[p['start']]
    if p.get('sem'): kw['semantics'] = sem_obj(p['sem'])
    if p.get('asmodel'): kw['asmodel'] = True
    if extra: kw.update(extra)
    return m.parse(TEXTS[g][p['text']], **kw)

def run_op(env, op):
    k = op['op']
    if k == 'compile':
        m = do_compile(op['a'])
        env.models[op['var']] = m
        return canon_model(m)
    if k in ('mparse', 'cparse'):
        if k == 'cparse':
            m = do_compile(op['a'])
        else:
            if op['var'] not in env.models:
                return {'exc': 'UNBOUND'}
            m = env.models[op['var']]
        before = model_snapshot(m)
        cfgobj = None
        extra = None
        if op['p'].get('cfgobj'):
            cfgobj = env.cfg(op['p']['cfgobj'])
            extra = {'config': cfgobj}
        cfg_before = cfg_snapshot(cfgobj)
        try:
            r = canon_ok(mparse_call(m, op['p'], extra))
        except Exception as e:
            r = canon_exc(e)
        after = model_snapshot(m)
        if before != after:
            r['mutated'] = [n for n, x, y in zip(SNAP_PARTS, before, after) if x != y]
        if cfg_before != cfg_snapshot(cfgobj):
            r['mutated'] = r.get('mutated', []) + ['config-argument']
        return r
    if k == 'tparse':
        t = op['t']
        kw = dict(SETTINGS[t['ts']])
        if STARTS[t['start']] is not None: kw['start'] = STARTS[t['start']]
        if NAMES[t['name']] is not None: kw['name'] = NAMES[t['name']]
        if t.get('sem'): kw['semantics'] = sem_obj(t['sem'])
        if t.get('asmodel'): kw['asmodel'] = True
        kw.update(bopt(t.get('bopt')))
        cfgobj = env.cfg(t.get('cfgobj'))
        if cfgobj is not None: kw['config'] = cfgobj
        cfg_before = cfg_snapshot(cfgobj)
        try:
            r = canon_ok(tatsu.parse(GRAMMARS[t['g']], TEXTS[t['g']][t['text']], **kw))
        except Exception as e:
            r = canon_exc(e)
        if cfg_before != cfg_snapshot(cfgobj):
            r['mutated'] = ['config-argument']
        return r
    if k == 'gen':
        a = op['a']
        src = tatsu.to_python_sourcecode(GRAMMARS[a['g']], name=NAMES[a['name']], **SETTINGS[a['cs']])
        env.sources[op['var']] = src
        body = '\n'.join(l for l in src.split('\n') if 'generated by' not in l)
        return {'ok': 'source', 'digest': hashlib.sha256(body.encode()).hexdigest()[:16], 'types': {}}
    if k == 'mkparser':
        if op['src'] not in env.sources:
            return {'exc': 'UNBOUND'}
        ns = {'__name__': 'genparser_' + str(op['src'])}
        exec(compile(env.sources[op['src']], '<generated>', 'exec'), ns)
        cls = find_parser_class(ns)
        kw = dict(SETTINGS[op['cs']])
        if op.get('sem'): kw['semantics'] = sem_obj(op['sem'])
        ccfg = env.cfg(op.get('ccfg'))
        if ccfg is not None: kw['config'] = ccfg
        before = cfg_snapshot(ccfg)
        env.parsers[op['var']] = cls(**kw)
        env.parser_cfg[op['var']] = ccfg
        r = {'ok': 'parser', 'cls': cls.__name__, 'types': {}}
        if before != cfg_snapshot(ccfg):
            r['mutated'] = ['constructor-config']
        return r
    if k == 'pparse':
        if op['var'] not in env.parsers:
            return {'exc': 'UNBOUND'}
        p = op['p']
        kw = dict(SETTINGS[p['ps']])
        if STARTS[p['start']] is not None: kw['start'] = STARTS[p['start']]
        if p.get('sem'): kw['semantics'] = sem_obj(p['sem'])
        if p.get('asmodel'): kw['asmodel'] = True
        cfgobj = env.cfg(p.get('cfgobj'))
        if cfgobj is not None: kw['config'] = cfgobj
        parser = env.parsers[op['var']]
        ccfg = env.parser_cfg.get(op['var'])
        def snaps():
            return {'parser-config': cfg_snapshot(getattr(parser, 'self_config', None)),
                    'parser-active-config': cfg_snapshot(getattr(parser, 'config', None)),
                    'constructor-config': cfg_snapshot(ccfg), 'config-argument': cfg_snapshot(cfgobj)}
        before = snaps()
        try:
            r = canon_ok(parser.parse(TEXTS[p['g']][p['text']], **kw))
        except Exception as e:
            r = canon_exc(e)
        after = snaps()
        mutated = sorted(k for k in before if before[k] != after[k])
        if mutated:
            r['mutated'] = mutated
        return r
    if k == 'explicit':
        # evaluate a symbolic result of Lib/Api.v: (val gm sem rest) / (gen gm) / (model gm sem)
        gm = op['gm']
        m = tatsu.compile(GRAMMARS[gm['g']], name=NAMES[gm['name']], **SETTINGS[gm['cs']])
        if op['kind'] == 'gen':
            from tatsu.ngcodegen.ngparser_gen import pythongen
            src = pythongen(m)
            body = '\n'.join(l for l in src.split('\n') if 'generated by' not in l)
            return {'ok': 'source', 'digest': hashlib.sha256(body.encode()).hexdigest()[:16], 'types': {}}
        S = build_sem(op['sem'])
        if op['kind'] == 'model':
            if S is not None: m.semantics = S
            return canon_model(m)
        r = op['rest']
        if r['route'] == 'm':
            kw = dict(SETTINGS[r['ps']])
            if STARTS[r['start']] is not None: kw['start'] = STARTS[r['start']]
            if S is not None: kw['semantics'] = S
            if r.get('cfgobj'): kw['config'] = env.cfg(r['cfgobj'])
            return canon_ok(m.parse(TEXTS[gm['g']][r['text']], **kw))
        else:
            tsem = sem_obj(r['sem']) if r.get('sem') else None
            config = ParserConfig.new(config=env.cfg(r.get('cfgobj')), start=STARTS[r['start']], name=NAMES[r['name']],
                                      source=None, semantics=tsem, **SETTINGS[r['ts']])
            config.semantics = S
            return canon_ok(m.parse(TEXTS[gm['g']][r['text']], start=STARTS[r['start']], semantics=tsem,
                                    config=config))
    if k == 'writeset':
        return op_writeset(op)
    if k == 'threads':
        return op_threads(op)
    raise KeyError(k)

# ---- A2: deep write set
def deep_objects(root):
    """every object with a __dict__ reachable from the model through attributes / containers (not classes,
    modules, functions), with the path it was found at"""
    import types as _t
    out, seen, stack = [], set(), [(root, 'model')]
    while stack:
        x, path = stack.pop()
        if id(x) in seen or isinstance(x, (str, bytes, int, float, bool, type(None), type, _t.ModuleType,
                                            _t.FunctionType, _t.MethodType, _t.BuiltinFunctionType)):
            continue
        seen.add(id(x))
        if isinstance(x, dict):
            for kk, v in list(x.items()): stack.append((v, path + '[' + repr(kk)[:20] + ']'))
        elif isinstance(x, (list, tuple, set, frozenset)):
            for i, v in enumerate(list(x)): stack.append((v, path + '[%d]' % i))
        elif hasattr(x, '__dict__'):
            mod = getattr(type(x), '__module__', '')
            if mod.startswith('tatsu') or mod == '__main__':
                out.append((path, x))
                for kk, v in list(vars(x).items()): stack.append((v, path + '.' + kk))
            import weakref
        if isinstance(x, __import__('weakref').ref):
            pass
    return out

def shallow(v):
    if isinstance(v, (str, bytes, int, float, bool, type(None))): return repr(v)
    if isinstance(v, (list, tuple)) and not hasattr(v, '_fields'): return type(v).__name__ + '[' + ','.join(shallow(i) for i in v) + ']'
    if isinstance(v, (set, frozenset)): return type(v).__name__ + '{' + ','.join(sorted(shallow(i) for i in v)) + '}'
    if isinstance(v, dict): return 'dict{' + ','.join(sorted(repr(k) + ':' + shallow(x) for k, x in v.items())) + '}'
    if isinstance(v, tuple) and hasattr(v, '_fields'): return type(v).__name__ + '(' + ','.join(shallow(i) for i in v) + ')'
    return '<%s>' % type(v).__name__

def deep_snapshot(root):
    snap = {}
    for path, x in deep_objects(root):
        snap[id(x)] = (path, type(x).__name__, {k: shallow(v) for k, v in vars(x).items()})
    return snap

def snap_diff(a, b):
    """attribute writes between two snapshots: (class, attr, kind)"""
    out = []
    for oid, (path, cls, attrs) in b.items():
        if oid not in a:
            continue          # object became reachable through a new attribute: reported at that attribute
        old = a[oid][2]
        for k, v in attrs.items():
            if k not in old: out.append([cls, k, 'added'])
            elif old[k] != v: out.append([cls, k, 'changed'])
        for k in old:
            if k not in attrs: out.append([cls, k, 'deleted'])
    return sorted(map(list, set(map(tuple, out))))

def op_writeset(op):
    m = do_compile(op['a'])
    pub0 = model_snapshot(m)
    s0 = deep_snapshot(m)
    outs = []
    def one(p):
        try: return canon_ok(mparse_call(m, p))
        except Exception as e: return canon_exc(e)
    outs.append(one(op['p1']))
    s1 = deep_snapshot(m)
    pub1 = model_snapshot(m)
    outs.append(one(op['p2']))
    s2 = deep_snapshot(m)
    outs.append(one(op['p1']))
    s3 = deep_snapshot(m)
    pub3 = model_snapshot(m)
    return {'ok': 'writeset', 'first': snap_diff(s0, s1), 'second': snap_diff(s1, s2), 'third': snap_diff(s2, s3),
            'public_changed': pub0 != pub1 or pub1 != pub3, 'results': outs, 'repeat_equal': outs[0] == outs[2],
            'types': {}}

# ---- threads
def collect_classes(x, out, seen, depth=0):
    """the node CLASS objects of a result, by class name (kept alive by the caller, so that id() is meaningful)"""
    if depth > 40 or id(x) in seen: return
    if isinstance(x, (str, bytes, int, float, bool, type(None))): return
    seen.add(id(x))
    if isinstance(x, dict):
        for v in list(x.values()): collect_classes(v, out, seen, depth + 1)
    elif isinstance(x, (list, tuple, set, frozenset)):
        for v in list(x): collect_classes(v, out, seen, depth + 1)
    elif hasattr(x, '__dict__') and not isinstance(x, type):
        if any(c.__name__ == 'BaseNode' for c in type(x).__mro__):
            out.setdefault(type(x).__name__, {})[id(type(x))] = type(x)
            for k, v in list(vars(x).items()):
                if not k.startswith('_') and k not in ('parseinfo', 'ctx'):
                    collect_classes(v, out, seen, depth + 1)

def retype(text, suffix):
    """the same grammar with type names nobody has used in this process (rule::Type -> rule::Type<suffix>): the
    process-wide class registry is cold for them"""
    return re.sub(r'::([A-Za-z_][A-Za-z_0-9]*)', lambda m: '::' + m.group(1) + suffix, text)

# ---- forced preemption.  Whether the interpreter switches threads inside a window of a few lines is the
# environment's choice; here the adversarial choice is made on purpose.  The functions that touch state shared by the
# threads (module-level containers / locks / function caches, the class registry, cached attributes of the shared model)
# and their direct callers are found by inspection of the modules; sys.monitoring LINE events of exactly those code
# objects make every participating thread wait, before each line, until ALL running threads stand before the same line
# (or a few milliseconds have passed: the others are blocked on a lock or took another path).  The threads thus
# execute the watched functions in lock step: every check of a check-then-act sequence is done by all the threads
# before any of them acts.  Only the first executions of each function by each thread are driven (the caches are cold then).
LOCKSTEP_MODULES = ['tatsu.objectmodel.synth', 'tatsu.objectmodel.builder', 'tatsu.api.api', 'tatsu.util.regextools',
                    'tatsu.util.typetools', 'tatsu.contexts.core', 'tatsu.contexts.engine', 'tatsu.peg.base',
                    'tatsu.config', 'tatsu.util.configs', 'tatsu.input.textlines', 'tatsu.parsing',
                    'tatsu.objectmodel.basenode', 'tatsu.boot.generator']
LOCKSTEP_ATTRS = {'_optimized', '_registry', '_BIND_CACHE'}
_LOCK_TYPES = (type(threading.Lock()), type(threading.RLock()))

def _module_codes(mod):
    out, seen = [], set()
    fn = getattr(mod, '__file__', None)
    def add_code(c):
        if c in seen or c.co_filename != fn: return
        seen.add(c); out.append(c)
        for k in c.co_consts:
            if isinstance(k, types.CodeType): add_code(k)
    def visit(o, depth=0):
        if isinstance(o, (staticmethod, classmethod)): o = o.__func__
        if isinstance(o, property):
            for f in (o.fget, o.fset, o.fdel):
                if f: visit(f, depth + 1)
            return
        if isinstance(o, functools.cached_property): o = o.func
        w = getattr(o, '__wrapped__', None)
        if w is not None and depth < 4: visit(w, depth + 1)
        if isinstance(o, types.FunctionType): add_code(o.__code__)
        elif isinstance(o, type) and o.__module__ == mod.__name__ and depth < 3:
            for v in list(vars(o).values()): visit(v, depth + 1)
    for v in list(vars(mod).values()): visit(v)
    return out

def lockstep_codes():
    watched = []
    for mn in LOCKSTEP_MODULES:
        try: mod = importlib.import_module(mn)
        except Exception: continue
        names = set(LOCKSTEP_ATTRS)
        for k, v in list(vars(mod).items()):
            if k.startswith('__') and k.endswith('__'): continue
            if isinstance(v, (dict, set, list) + _LOCK_TYPES): names.add(k)
            if hasattr(v, 'cache_info') and hasattr(v, '__wrapped__'): names.add(k)
        codes = _module_codes(mod)
        direct = [c for c in codes if (set(c.co_names) | set(c.co_freevars)) & names
                  or (hasattr(vars(mod).get(c.co_name), 'cache_info'))]
        callee = {c.co_name for c in direct}
        callers = [c for c in codes if c not in direct and c.co_name not in callee and set(c.co_names) & callee]
        watched += direct + callers
    return watched

class LockStep:
    def __init__(self, visits, timeout):
        self.visits, self.timeout = visits, timeout
        self.codes = lockstep_codes()
        self.cv = threading.Condition()
        self.points = {}
        self.tls = threading.local()
        self.active = 0
        self.tool = None
        self.stat = {'watched_functions': len(self.codes), 'syncs': 0, 'all_arrived': 0, 'timeouts': 0}
    def install(self):
        mon = sys.monitoring
        for tid in (mon.PROFILER_ID, mon.COVERAGE_ID, 3, 4):
            try:
                mon.use_tool_id(tid, 'c10-lockstep'); self.tool = tid; break
            except ValueError:
                continue
        mon.register_callback(self.tool, mon.events.PY_START, self.on_start)
        mon.register_callback(self.tool, mon.events.LINE, self.on_line)
        for c in self.codes:
            mon.set_local_events(self.tool, c, mon.events.LINE | mon.events.PY_START)
    def remove(self):
        mon = sys.monitoring
        for c in self.codes:
            mon.set_local_events(self.tool, c, 0)
        mon.register_callback(self.tool, mon.events.PY_START, None)
        mon.register_callback(self.tool, mon.events.LINE, None)
        mon.free_tool_id(self.tool)
    def begin_round(self, n):
        with self.cv:
            self.active = n
            self.points = {}
    def enter(self):
        self.tls.seen = {}
        self.tls.on = True
    def leave(self):
        self.tls.on = False
        with self.cv:
            self.active -= 1
            for st in self.points.values():
                if st[0] and st[0] >= self.active:
                    st[0] = 0; st[1] += 1
            self.cv.notify_all()
    def on_start(self, code, offset):
        tls = self.tls
        if getattr(tls, 'on', False):
            tls.seen[code] = tls.seen.get(code, 0) + 1
    def on_line(self, code, line):
        tls = self.tls
        if not getattr(tls, 'on', False) or tls.seen.get(code, 0) > self.visits:
            return
        tls.on = False
        try:
            self.sync((code, line))
        finally:
            tls.on = True
    def sync(self, point):
        with self.cv:
            self.stat['syncs'] += 1
            st = self.points.setdefault(point, [0, 0])
            st[0] += 1
            if st[0] >= self.active:
                st[0] = 0; st[1] += 1
                self.stat['all_arrived'] += 1
                self.cv.notify_all()
                return
            gen = st[1]
            if not self.cv.wait_for(lambda: st[1] != gen, self.timeout) and st[1] == gen:
                st[0] -= 1
                self.stat['timeouts'] += 1

# ---- forced preemption, second kind: ONE thread ahead of the others.  In lock step all the threads reach a window
# together; a thread that ARRIVES while another one is in the middle of building shared state (the first user of a cold
# model: optimized copy, rule maps, lookahead sets, left-recursion flags, rule infos, synthesized classes ...) is the
# other adversarial schedule: it sees whatever the builder has made visible so far.  The leader thread makes the first
# call on the cold model; from a chosen point on it stops before the first execution of every distinct line of the
# watched functions, and in each such window a NEW thread (a follower) makes one COMPLETE call on the shared model - or
# turns out to be blocked (on a lock the leader holds: its top frame does not move), which is the correct way not to
# see a half-built state; blocked followers finish when the leader lets them.
# A follower that completes a call has made the first use itself, so where the windows begin matters.  A sequential
# calibration run of the leader's call on a model of its own gives the ordered distinct lines, and for each whether the
# thread holds one of the library's module-level locks there and whether the line belongs to a state-building function.
# Rounds (a cold model each): windows from the first line of every lock-held stretch on (the followers cannot build the
# state themselves: they meet every intermediate state the lock holder publishes); windows from a few sampled lines of
# state-building functions outside the locks on; windows from the very first line on.
# Watched: the lock-step functions plus, found by inspection of the code objects of the grammar-model package, every
# function outside the constructors that assigns attributes (state of the model that is built AFTER construction: by an
# analysis pass, at first use, as a cache), every cached property, and the functions of the package they call.
STATE_PACKAGES = ['tatsu.peg']
_CTOR_NAMES = {'__init__', '__post_init__', '__new__', '__init_subclass__', '__set_name__'}

def _package_modules(pkgname):
    import pkgutil
    out = []
    try: pkg = importlib.import_module(pkgname)
    except Exception: return out
    out.append(pkg)
    for info in pkgutil.walk_packages(getattr(pkg, '__path__', []), pkgname + '.'):
        try: out.append(importlib.import_module(info.name))
        except Exception: continue
    return out

def model_state_codes():
    import dis
    codes, cached = [], set()
    for pk in STATE_PACKAGES:
        for mod in _package_modules(pk):
            codes += [c for c in _module_codes(mod) if c not in codes]
            for v in list(vars(mod).values()):
                if isinstance(v, type) and v.__module__ == mod.__name__:
                    for a in list(vars(v).values()):
                        if isinstance(a, functools.cached_property): cached.add(a.func.__code__)
    def stores(c):
        return any(i.opname in ('STORE_ATTR', 'DELETE_ATTR') for i in dis.get_instructions(c))
    direct = [c for c in codes if c in cached or (c.co_name not in _CTOR_NAMES and stores(c))]
    called = set()
    for c in direct: called |= set(c.co_names)
    dnames = {c.co_name for c in direct}
    callees = [c for c in codes if c not in direct and c.co_name in called and c.co_name not in dnames
               and not (c.co_name.startswith('__') and c.co_name.endswith('__'))]
    return direct, callees

def library_locks():
    out = []
    mods = []
    for mn in LOCKSTEP_MODULES:
        try: mods.append(importlib.import_module(mn))
        except Exception: continue
    for pk in STATE_PACKAGES: mods += _package_modules(pk)
    for mod in mods:
        for v in list(vars(mod).values()):
            if isinstance(v, _LOCK_TYPES) and not any(v is o for o in out): out.append(v)
    return out

class Stagger:
    def __init__(self, max_pauses, timeout, poll=0.001, patience=3):
        self.max_pauses, self.timeout, self.poll, self.patience = max_pauses, timeout, poll, patience
        direct, callees = model_state_codes()
        self.direct = set(direct)
        self.codes = list(dict.fromkeys(lockstep_codes() + direct + callees))
        self.locks = library_locks()
        self.cv = threading.Condition()
        self.tool = None
        self.leader = None
        self.mode = None
        self.stat = {'watched_functions': len(self.codes), 'state_functions': len(direct), 'library_locks': len(self.locks),
                     'rounds': 0, 'rounds_from_lock_held_line': 0, 'windows': 0, 'served': 0, 'blocked': 0, 'timeouts': 0,
                     'follower_calls': 0, 'windows_in_state_functions': 0, 'windows_lock_held': 0}
    def install(self):
        mon = sys.monitoring
        for tid in (mon.PROFILER_ID, mon.COVERAGE_ID, 3, 4):
            try:
                mon.use_tool_id(tid, 'c10-stagger'); self.tool = tid; break
            except ValueError:
                continue
        mon.register_callback(self.tool, mon.events.LINE, self.on_line)
    def remove(self):
        mon = sys.monitoring
        self.disarm()
        mon.register_callback(self.tool, mon.events.LINE, None)
        mon.free_tool_id(self.tool)
    def arm(self):
        # events only while the leader runs; a line the leader has seen is switched off (DISABLE) until the next round
        mon = sys.monitoring
        mon.restart_events()
        for c in self.codes:
            mon.set_local_events(self.tool, c, mon.events.LINE)
    def disarm(self):
        mon = sys.monitoring
        for c in self.codes:
            mon.set_local_events(self.tool, c, 0)
    def held(self):
        for l in self.locks:
            try:
                if (l._is_owned() if hasattr(l, '_is_owned') else l.locked()): return True
            except Exception:
                continue
        return False
    def calibrate(self, call):
        """the ordered distinct lines of the watched functions in a sequential run of the call"""
        self.mode, self.seen, self.order, self.busy = 'calibrate', set(), [], False
        self.leader = threading.get_ident()
        self.arm()
        try:
            call()
        finally:
            self.disarm()
            self.leader, self.mode = None, None
        return self.order
    def begin_round(self, start_key, spawn, single=False):
        self.mode, self.seen, self.busy, self.single = 'run', set(), False, single
        self.start_key, self.open, self.pauses = start_key, start_key is None, 0
        self.spawn = spawn
        self.followers, self.waiting = [], []
        self.stat['rounds'] += 1
    def on_line(self, code, line):
        if threading.get_ident() != self.leader or self.busy:
            return
        k = (code, line)
        if k in self.seen:
            return sys.monitoring.DISABLE
        self.seen.add(k)
        if self.mode == 'calibrate':
            self.order.append((k, self.held(), code in self.direct))
            return
        if not self.open:
            if k != self.start_key: return
            self.open = True
        if self.pauses >= (1 if self.single else self.max_pauses):
            return
        self.pauses += 1
        self.busy = True
        try:
            tr = os.environ.get('C10_STAGGER_TRACE')
            b = dict(self.stat) if tr else None
            if code in self.direct: self.stat['windows_in_state_functions'] += 1
            if self.held(): self.stat['windows_lock_held'] += 1
            self.pause()
            if tr:
                self.stat.setdefault('trace', []).append([code.co_name, line] + [x for x in ('served', 'blocked', 'timeouts') if self.stat[x] != b[x]])
        finally:
            self.busy = False
    def pause(self):
        import time
        self.stat['windows'] += 1
        if self.waiting and not self.held():
            # the followers that were blocked run now: let them finish first (a crowd of threads is not the point)
            t0 = time.monotonic()
            sys.setswitchinterval(0.005)
            try:
                for t in self.waiting:
                    t.join(max(0.0, 3.0 - (time.monotonic() - t0)))
            finally:
                sys.setswitchinterval(1e-6)
            self.waiting = []
        st = {'started': False, 'done': False, 'ident': None}
        def body(call):
            st['ident'] = threading.get_ident()
            st['started'] = True
            try:
                call()
            finally:
                with self.cv:
                    st['done'] = True
                    self.stat['follower_calls'] += 1
                    self.cv.notify_all()
        t = self.spawn(body)
        self.followers.append(t)
        t0 = time.monotonic()
        last, still = None, 0
        while True:
            with self.cv:
                if st['done'] or self.cv.wait_for(lambda: st['done'], self.poll):
                    self.stat['served'] += 1
                    return
            if time.monotonic() - t0 > self.timeout:
                self.stat['timeouts'] += 1
                return
            fr = sys._current_frames().get(st['ident']) if st['started'] else None
            sg = None if fr is None else (id(fr), fr.f_lasti)
            still = still + 1 if (sg is not None and sg == last) else 0
            last = sg
            if still >= self.patience:
                self.stat['blocked'] += 1
                self.waiting.append(t)
                return
    def lead(self, call):
        self.leader = threading.get_ident()
        self.arm()
        try:
            return call()
        finally:
            self.disarm()
            self.leader = None

def op_stagger(op):
    sys.setswitchinterval(1e-6)
    import random
    calls = op['calls']
    tcompile = bool(op.get('tcompile'))
    keep = []
    def one(m, p, classes=None):
        try:
            r = mparse_call(m, p)
            if classes is not None:
                keep.append(r)
                collect_classes(r, classes, set())
            return canon_ok(r)
        except Exception as e:
            return canon_exc(e)
    def clear_compile_cache():
        import tatsu.api.api as _api
        for v in vars(_api).values():
            if isinstance(v, dict) and v and all(isinstance(k, tuple) for k in v): v.clear()
    def attempt(m, text, p, classes):
        try:
            mm = do_compile(op['a'], text) if tcompile else m
        except Exception as e:
            return canon_exc(e)
        return one(mm, p, classes)
    conf = op['stagger']
    sg = Stagger(conf['max_pauses'], conf['timeout'], conf['poll'], conf['patience'])
    rnd = random.Random(conf['seed'])
    bad, idbad, later, count = [], [], [], [0, 0]
    def text_of(suffix):
        return retype(GRAMMARS[op['a']['g']], suffix) if op.get('fresh_types') else None
    def reference(text, classes):
        try:
            clear_compile_cache()
            pm = do_compile(op['a'], text)
            return [one(pm, p, classes) for p in calls]
        except Exception as e:
            return [canon_exc(e)] * len(calls)
    def play(why, start_key, text, single, ref):
        count[1] += 1
        rn = count[1]
        clear_compile_cache()
        m = None if tcompile else do_compile(op['a'], text)
        classes = {}
        results = []          # (call index, result)
        rlock = threading.Lock()
        turn = [rnd.randrange(64)]
        def spawn(body):
            turn[0] += 1
            i = 1 + turn[0] % (len(calls) - 1) if len(calls) > 1 else 0
            def run():
                def call():
                    r = attempt(m, text, calls[i], classes)
                    with rlock: results.append((i, r))
                body(call)
            t = threading.Thread(target=run)
            t.start()
            return t
        sg.begin_round(start_key, spawn, single)
        def leader():
            r = sg.lead(lambda: attempt(m, text, calls[0], classes))
            with rlock: results.append((0, r))
        lt = threading.Thread(target=leader)
        lt.start()
        lt.join()
        for t in sg.followers: t.join(60)
        died = sum(1 for t in sg.followers if t.is_alive())
        # what each call returns when it is the only one: on the shared (now warm) model, and on a model of its own
        # that no other thread has ever touched (the shared model may have been left in a wrong state for good)
        try:
            mm = do_compile(op['a'], text) if tcompile else m
            want = [one(mm, p, classes) for p in calls]
        except Exception as e:
            want = [canon_exc(e)] * len(calls)
        if ref is None:
            ref = reference(text, classes)
        with rlock: got = list(results)
        got += [(0, {'exc': 'THREAD-STUCK'})] * died
        at = None if start_key is None else '%s:%d' % (start_key[0].co_name, start_key[1])
        for i, r in got:
            count[0] += 1
            if r != ref[i]:
                bad.append({'thread': i, 'round': rn, 'role': 'leader' if i == 0 else 'follower',
                            'windows': why, 'from': at, 'got': r, 'want': ref[i]})
        for i in range(len(calls)):
            if want[i] != ref[i]:
                later.append({'thread': i, 'round': rn, 'windows': why, 'from': at, 'got': want[i], 'want': ref[i]})
        for name, objs in sorted(classes.items()):
            if len(objs) > 1:
                idbad.append({'round': rn, 'class': name, 'distinct_objects': len(objs)})
        return ref
    seq = None
    sg.install()
    try:
        # calibration: the leader's call, alone, on a model of its own; the sequential results of all the calls on it
        clear_compile_cache()
        text0 = text_of('S0')
        m0 = None if tcompile else do_compile(op['a'], text0)
        order = sg.calibrate(lambda: attempt(m0, text0, calls[0], None))
        sg.stat['calibration_lines'] = len(order)
        sg.stat['calibration_lines_lock_held'] = sum(1 for o in order if o[1])
        keepc = {}
        ref0 = reference(text0, keepc)
        seq = ref0
        # ONE window per cold model (a follower that completes a call has used the model: the next window would not
        # be a first use any more): at every stride-th line that is under a library lock or in a state-building function
        points = [k for (k, held, state) in order if held or state]
        for k in points[conf['offset'] % conf['stride']::conf['stride']][:conf['max_single']]:
            play('one', k, text0, True, ref0)
            sg.stat['single_window_rounds'] = sg.stat.get('single_window_rounds', 0) + 1
        # windows at every line from the first line of each lock-held stretch on, and from the very first line on
        starts = [('from-lock', k) for i, (k, held, state) in enumerate(order) if held and (i == 0 or not order[i - 1][1])]
        starts = starts[:2] + [('all', None)]
        for j, (why, k) in enumerate(starts):
            play(why, k, text_of('S%d' % (j + 1)), False, None)
            if why == 'from-lock': sg.stat['rounds_from_lock_held_line'] += 1
    finally:
        sg.remove()
    return {'ok': 'threads', 'bad': bad[:5], 'nbad': len(bad), 'idbad': idbad[:5], 'later': later[:5], 'n': count[0],
            'seq': seq, 'stagger': sg.stat, 'types': {}}

def op_threads(op):
    if op.get('stagger'):
        return op_stagger(op)
    sys.setswitchinterval(1e-6)
    calls = op['calls']
    cold, fresh_types, tcompile = op['cold'], bool(op.get('fresh_types')), bool(op.get('tcompile'))
    keep = []          # every result object stays alive until the end: class identities are compared by id()
    def one(m, p, classes=None):
        try:
            r = mparse_call(m, p)
            if classes is not None:
                keep.append(r)
                collect_classes(r, classes, set())
            return canon_ok(r)
        except Exception as e:
            return canon_exc(e)
    def clear_compile_cache():
        import tatsu.api.api as _api
        for v in vars(_api).values():
            if isinstance(v, dict) and v and all(isinstance(k, tuple) for k in v): v.clear()
    ls = None
    if op.get('lockstep'):
        ls = LockStep(op['lockstep']['visits'], op['lockstep']['timeout'])
    text = None
    m = None
    seq = None
    if not cold:
        m = do_compile(op['a'])
        seq = [one(m, p) for p in calls]
    bad, idbad, later, n = [], [], [], 0
    if ls: ls.install()
    try:
        for rn in range(op['rounds']):
            if cold:
                # a model nobody has parsed with yet: all caches (optimized copy, rule infos, synthesized classes) cold
                clear_compile_cache()
                if fresh_types:
                    text = retype(GRAMMARS[op['a']['g']], 'R%d' % rn)
                if not tcompile:
                    m = do_compile(op['a'], text)
            res = [None] * len(calls)
            classes = {}
            bar = threading.Barrier(len(calls))
            if ls: ls.begin_round(len(calls))
            def w(i):
                acc = []
                bar.wait()
                if ls: ls.enter()
                try:
                    for _ in range(op['reps']):
                        try:
                            # tcompile: every thread obtains the model itself (module-level API from many threads)
                            mm = do_compile(op['a'], text) if tcompile else m
                        except Exception as e:
                            acc.append(canon_exc(e))
                            continue
                        acc.append(one(mm, calls[i], classes))
                finally:
                    if ls: ls.leave()
                res[i] = acc
            ts = [threading.Thread(target=w, args=(i,)) for i in range(len(calls))]
            for t in ts: t.start()
            for t in ts: t.join()
            want = seq
            if cold:
                # what each call returns when it is the only one: the same (now warm) model, one call after the other
                try:
                    mm = do_compile(op['a'], text) if tcompile else m
                    want = [one(mm, p, classes) for p in calls]
                except Exception as e:
                    want = [canon_exc(e)] * len(calls)
                # ... and on a model of its own that no other thread has ever touched: the first calls may have left
                # the shared model in a wrong state for good (then the threads and the later parse agree, wrongly)
                try:
                    clear_compile_cache()
                    pm = do_compile(op['a'], text)
                    ref = [one(pm, p, classes) for p in calls]
                except Exception as e:
                    ref = [canon_exc(e)] * len(calls)
                for i in range(len(calls)):
                    if want[i] != ref[i]:
                        later.append({'thread': i, 'round': rn, 'got': want[i], 'want': ref[i]})
            for i, acc in enumerate(res):
                for r in acc or [{'exc': 'THREAD-DIED'}]:
                    n += 1
                    if r != want[i]:
                        bad.append({'thread': i, 'round': rn, 'got': r, 'want': want[i]})
            for name, objs in sorted(classes.items()):
                if len(objs) > 1:
                    idbad.append({'round': rn, 'class': name, 'distinct_objects': len(objs)})
            seq = want
    finally:
        if ls: ls.remove()
    return {'ok': 'threads', 'bad': bad[:5], 'nbad': len(bad), 'idbad': idbad[:5], 'later': later[:5], 'n': n,
            'seq': seq, 'lockstep': ls.stat if ls else None, 'types': {}}

def ctx_snapshot():
    return [[k, repr(sorted(v.ctx.items(), key=repr))] for k, v in SEMS.items() if isinstance(v, Ctx)]

def run_script(script):
    env = Env()
    out = []
    for op in script:
        made = EPH_STAT['made']
        own_before = None
        if OWN['bopts']:
            prepare_owned(op)
            own_before = owned_snapshot() if OWNED else None
        ctx_before = ctx_snapshot()
        try:
            out.append(run_op(env, op))
        except BaseException as e:
            if isinstance(e, (KeyboardInterrupt, SystemExit)): raise
            out.append(canon_exc(e))
        if own_before and isinstance(out[-1], dict):
            own_after = owned_snapshot()
            changed = sorted({owned_role(c) for c in own_before if own_before[c] != own_after.get(c)})
            if changed:
                out[-1]['mutated'] = sorted(set(out[-1].get('mutated') or []) | set(changed))
        if ctx_before != ctx_snapshot() and isinstance(out[-1], dict):
            out[-1]['mutated'] = sorted(set(out[-1].get('mutated') or []) | {'semantics-safe-context'})
        if EPH_STAT['made'] != made:
            # the call is over: its short-lived semantics object is dropped, and collected if nothing holds it
            gc.collect()
    return {'$res': out, '$stat': EPH_STAT}

def child(script, wfd):
    try:
        dn = os.open(os.devnull, os.O_WRONLY)
        os.dup2(dn, 1); os.dup2(dn, 2)
        signal.alarm(120)
        data = json.dumps(run_script(script))
    except BaseException as e:
        data = json.dumps({'worker-error': type(e).__name__ + ': ' + str(e)[:300]})
    with os.fdopen(wfd, 'w') as f:
        f.write(data)
    os._exit(0)

def main():
    if len(sys.argv) > 1 and sys.argv[1] == 'oneshot':
        # brand new interpreter: one script, no fork
        script = json.loads(sys.stdin.readline())
        real = os.dup(1)
        dn = os.open(os.devnull, os.O_WRONLY)
        os.dup2(dn, 1); os.dup2(dn, 2)
        data = json.dumps(run_script(script))
        os.write(real, (data + '\n').encode())
        return
    out = os.fdopen(os.dup(1), 'w')
    for line in sys.stdin:
        line = line.strip()
        if not line: continue
        script = json.loads(line)
        r, w = os.pipe()
        pid = os.fork()
        if pid == 0:
            os.close(r)
            child(script, w)
        os.close(w)
        with os.fdopen(r) as f:
            data = f.read()
        os.waitpid(pid, 0)
        out.write((data or json.dumps({'worker-error': 'no reply (killed?)'})) + '\n')
        out.flush()

main()
'''


OWN_FAMILY: dict = {}            # the caller-owned builder containers of this run (gen_owned_family), set by main()
EXTRA_ENV = {'json': '{}'}       # seed-derived sibling grammars, set by main() before any worker starts


def worker_env():
    env = vlib.repo_python_env()
    env['C10_EXTRA'] = EXTRA_ENV['json']
    return env


EPH_TOTAL = {'made': 0, 'collected': 0, 'address_reused': 0}
LOCKSTEP_TOTAL: dict = {}
STAGGER_TOTAL: dict = {}
_EPH_TOTAL_LOCK = threading.Lock()


def unwrap(reply):
    """worker reply -> list of results; the allocator statistics of the short-lived semantics objects are summed"""
    with _EPH_TOTAL_LOCK:
        for k, v in reply['$stat'].items():
            EPH_TOTAL[k] += v
    return reply['$res']


class Zygote:
    """A process that has imported tatsu and executed nothing else; every script runs in a fork of it."""

    def __init__(self):
        self.p = subprocess.Popen([sys.executable, '-c', WORKER_SRC], stdin=subprocess.PIPE, stdout=subprocess.PIPE,
                                  stderr=subprocess.DEVNULL, text=True, env=worker_env(), cwd='/')
        self.lock = threading.Lock()

    def run(self, script):
        with self.lock:
            self.p.stdin.write(json.dumps(script) + '\n')
            self.p.stdin.flush()
            line = self.p.stdout.readline()
        if not line:
            raise RuntimeError('zygote died')
        r = json.loads(line)
        if isinstance(r, dict) and 'worker-error' in r:
            raise RuntimeError('worker: ' + r['worker-error'] + ' script=' + json.dumps(script)[:3000])
        return unwrap(r)

    def close(self):
        try:
            self.p.stdin.close()
            self.p.wait(timeout=10)
        except Exception:
            self.p.kill()


class Pool:
    def __init__(self, n=8):
        self.zs = [Zygote() for _ in range(n)]
        self.ex = ThreadPoolExecutor(max_workers=n)

    def map(self, scripts):
        n = len(self.zs)
        futs = [self.ex.submit(self.zs[i % n].run, s) for i, s in enumerate(scripts)]
        return [f.result() for f in futs]

    def close(self):
        self.ex.shutdown(wait=False)
        for z in self.zs:
            z.close()


def oneshot(script):
    p = subprocess.run([sys.executable, '-c', WORKER_SRC, 'oneshot'], input=json.dumps(script) + '\n',
                       stdout=subprocess.PIPE, stderr=subprocess.DEVNULL, text=True, env=worker_env(),
                       cwd='/', timeout=300)
    return unwrap(json.loads(p.stdout.strip().split('\n')[-1]))


# =============================================================================== source shape (which compile?)
def source_shape(chk: Check) -> str | None:
    """Decide which compile Lib/Api.v models (compile_f: pinned commit, compile_r: repaired) from the code, fail closed."""
    src = (vlib.REPO / 'tatsu/api/api.py').read_text()
    tree = ast.parse(src)
    fns = {n.name: n for n in tree.body if isinstance(n, ast.FunctionDef)}
    variant = None
    detail = ''
    comp = fns.get('compile')
    if comp is not None:
        keys = [n for n in ast.walk(comp)
                if ((isinstance(n, ast.Assign) and len(n.targets) == 1 and isinstance(n.targets[0], ast.Name)
                     and n.targets[0].id == 'key')
                    or (isinstance(n, ast.AnnAssign) and isinstance(n.target, ast.Name) and n.target.id == 'key'))
                and isinstance(n.value, ast.Tuple) and len(n.value.elts) > 2]
        sem_assign = [n for n in ast.walk(comp) if isinstance(n, ast.Assign) and isinstance(n.targets[0], ast.Attribute)
                      and n.targets[0].attr == 'semantics']
        if len(keys) == 1:
            elts = [ast.unparse(e) for e in keys[0].value.elts]
            detail = f'key = {elts}; {len(sem_assign)} semantics assignments'
            miss_only = all(_inside_miss_branch(comp, n) for n in sem_assign)
            if elts == ['name', 'hasha(grammar)', 'id(semantics)'] and len(sem_assign) == 2 and not miss_only:
                variant = 'f'
            elif elts[:3] == ['name', 'hasha(grammar)', 'id(semantics)'] and 'asmodel' in elts \
                    and any('settings' in e for e in elts) and miss_only:
                variant = 'r'
    chk.obligation('T1:api.compile cache key / mutation shape is one of the two modelled', 'translator',
                   variant is not None, detail)
    # api.parse and to_python_sourcecode: how they call compile
    ok2 = False
    d2 = ''
    par = fns.get('parse')
    gen = fns.get('to_python_sourcecode')
    if par is not None and gen is not None:
        calls = [n for n in ast.walk(par) if isinstance(n, ast.Call) and isinstance(n.func, ast.Name) and n.func.id == 'compile']
        gcalls = [n for n in ast.walk(gen) if isinstance(n, ast.Call) and isinstance(n.func, ast.Name) and n.func.id == 'compile']
        lines = [ast.unparse(n) for n in par.body]
        d2 = f'{[ast.unparse(c) for c in calls + gcalls]}'
        ok2 = (len(calls) == 1 and sorted(k.arg for k in calls[0].keywords) == ['asmodel', 'config'] and len(calls[0].args) == 1
               and len(gcalls) == 1 and sorted(k.arg for k in gcalls[0].keywords) == ['config', 'name', 'source']
               and 'config.semantics = semantics or model.semantics' in lines)
    chk.obligation('T2:api.parse / to_python_sourcecode call compile as modelled', 'translator', ok2, d2)
    # contexts: the parse never assigns self._config (premise of C10_failed_parse_leaves_no_state)
    writers = []
    for f in ('tatsu/contexts/core.py', 'tatsu/contexts/engine.py', 'tatsu/contexts/context.py', 'tatsu/parsing.py',
              'tatsu/peg/base.py'):
        t = ast.parse((vlib.REPO / f).read_text())
        for cls in [n for n in ast.walk(t) if isinstance(n, ast.ClassDef)]:
            for fn in [n for n in cls.body if isinstance(n, ast.FunctionDef)]:
                for n in ast.walk(fn):
                    tg = []
                    if isinstance(n, ast.Assign):
                        tg = n.targets
                    elif isinstance(n, (ast.AnnAssign, ast.AugAssign)):
                        tg = [n.target]
                    for x in tg:
                        if isinstance(x, ast.Attribute) and x.attr == '_config' and isinstance(x.value, ast.Name) \
                                and x.value.id == 'self':
                            writers.append(f'{f}:{cls.name}.{fn.name}')
    ok3 = set(writers) <= {'tatsu/contexts/core.py:ParserCore.__init__', 'tatsu/peg/base.py:Grammar.__init__'}
    chk.obligation('T3:self._config is assigned by __init__ only (premise body_keeps_config)', 'translator', ok3,
                   str(sorted(set(writers))))
    return variant


def _inside_miss_branch(fn, node) -> bool:
    """node sits inside the `else:`/`if .. not in cache`/`if model is None` branch that creates the model"""
    for n in ast.walk(fn):
        if isinstance(n, ast.If):
            test = ast.unparse(n.test)
            if test in ('key in cache',):
                if any(node is x for b in n.orelse for x in ast.walk(b)):
                    return True
            if test in ('model is None', 'key not in cache'):
                if any(node is x for b in n.body for x in ast.walk(b)):
                    return True
    return False


# =============================================================================== pool description (harness side)
SIBLINGS = [7, 8, 9]
REGEX_GRAMS = [10, 11, 12]
GRAMS = [1, 2, 3, 4, 5, 6] + SIBLINGS + REGEX_GRAMS
NTEXT = {1: 8, 2: 5, 3: 5, 4: 5, 5: 4, 6: 5, 7: 6, 8: 6, 9: 6, 10: 7, 11: 7, 12: 7}
GSTARTS = {1: [0, 0, 1, 6, 7, 8], 2: [0, 0, 5], 3: [0, 0, 1], 4: [0, 0, 2, 3, 4, 6], 5: [0, 0, 5], 6: [0, 0, 1],
           7: [0, 0, 1, 7, 8], 8: [0, 0, 1, 7, 8], 9: [0, 0, 1, 7, 8],
           10: [0, 0, 0, 1, 7], 11: [0, 0, 0, 1, 7], 12: [0, 0, 0, 1, 7]}
LREC_GRAMS = [13, 14, 15]       # seed-generated left-recursive grammars (thread scripts only, see gen_leftrec_family)
for _g in LREC_GRAMS:
    NTEXT[_g] = 6
GSTARTS.update({13: [0, 0, 1], 14: [0, 0, 1, 2], 15: [0, 0, 1]})
SHAPE_GRAMS = [16, 17, 18]      # seed-generated grammars NOT in the optimizer's normal form (see gen_shape_family)
GRAMS += SHAPE_GRAMS
for _g in SHAPE_GRAMS:
    NTEXT[_g] = 6
    GSTARTS[_g] = [0, 0, 0, 1, 7]
OWN_BOPTS = list(range(6, 16))  # builder options over containers the caller owns and reuses (see gen_owned_family)
OWN_SEM_BASE = 100000           # semantics numbers from here on: a ModelBuilderSemantics built for ONE call from them
TYPED_GRAMS = [2, 3, 4, 5]      # grammars whose rules name node types (rule::Type): classes are synthesized on first use
ALL_SEMS = [1, 2, 3, 4, 5, 6, 7, 8]
TWIN_SEMS = {7, 8}

# classes of Python scalars that are == (and hash alike) but are different values for a user
SCALAR_CLASSES = [['0', 'False', '0.0', '-0.0'], ['1', 'True', '1.0'], ['2', '2.0']]
SIBLING_TEXTS = ['p q r 5', 'q p', 'r 1 2 p', '7', 'p x', '']


def gen_siblings(rng):
    """Three grammars of one shape; every constant / rule parameter / rule keyword parameter slot holds, in the three
    siblings, scalars of ONE class of == values and (as far as the class has them) different types."""
    slots = []
    for _ in range(5):
        cls = list(rng.choice(SCALAR_CLASSES))
        rng.shuffle(cls)
        slots.append(cls)
    grammars = {}
    for i, g in enumerate(SIBLINGS):
        a, b, c, d, e = (sl[i % len(sl)] for sl in slots)
        typed = rng.choice(['', '', '::Knd'])
        grammars[g] = (f"\nstart = {{item}}+ $ ;\n"
                       f"item({d}, k={e}) = 'p' @:`{a}` | 'q' @:`{b}` | 'r' pair | num ;\n"
                       f"pair{typed} = k:`{c}` v:num ;\n"
                       f"num = /\\d+/ ;\n")
    return {'grammars': grammars, 'texts': {g: SIBLING_TEXTS for g in SIBLINGS}}


# ---- left-recursive grammars
def gen_leftrec_family(rng):
    """Three left-recursive grammars chosen from the seed.  What a parse with them returns depends on state that is
    computed for the model after its construction (which rules lead a recursion, which are memoizable, the rule infos
    built from those flags): 13 = 2-3 nested levels of directly left-recursive binary operators (some levels right
    recursive, a postfix operator, brackets back to the top), 14 = indirect left recursion through a cycle of 2 or 3
    rules, 15 = a left-recursive chain of selectors whose rules name node types (model building).  Texts: random
    derivations with several operators per level (the shape of the result shows whether the seed was grown), one
    single atom, one text that ends inside an operator (failure)."""
    punct = ['+', '-', '*', '/', '%', '^', '&', '|', '<', '>', '=', '~', '!', '?', ':', ',']
    rng.shuffle(punct)
    take = lambda: punct.pop()
    op, cl = rng.choice([('(', ')'), ('[', ']'), ('{', '}')])
    atom_re, atoms = rng.choice([('\\d+', ['1', '22', '3', '40', '5']), ('[a-z]+', ['a', 'bc', 'd', 'efg', 'h']),
                                 ('[a-z]\\d*', ['a1', 'b', 'c22', 'd', 'e5'])])
    # 13: nested levels
    nlev = rng.choice([2, 3])
    levels = []
    for i in range(nlev):
        levels.append({'ops': [take() for _ in range(rng.choice([1, 2]))],
                       'right': i > 0 and rng.random() < 0.3, 'postfix': take() if rng.random() < 0.3 else None})
    lines = ['start = e0 $ ;']
    for i, lv in enumerate(levels):
        me, nxt = f'e{i}', f'e{i + 1}'
        alts = [(f"{nxt} '{o}' {me}" if lv['right'] else f"{me} '{o}' {nxt}") for o in lv['ops']]
        if lv['postfix']:
            alts.append(f"{me} '{lv['postfix']}'")
        lines.append(f"{me} = " + ' | '.join(alts + [nxt]) + ' ;')
    lines.append(f"e{nlev} = '{op}' e0 '{cl}' | /{atom_re}/ ;")
    g13 = '\n' + '\n'.join(lines) + '\n'

    def expr13(depth, lev=0):
        if lev == nlev:
            if depth > 0 and rng.random() < 0.25:
                return op + expr13(depth - 1) + cl
            return rng.choice(atoms)
        lv = levels[lev]
        out = expr13(depth, lev + 1)
        for _ in range(rng.choice([0, 1, 2, 3]) if depth > 0 else 0):
            out += ' ' + rng.choice(lv['ops']) + ' ' + expr13(depth - 1, lev + 1)
            if lv['postfix'] and rng.random() < 0.3:
                out += lv['postfix']
        return out
    def several13():
        for _ in range(50):
            t = expr13(2)
            if sum(t.count(o) for lv in levels for o in lv['ops']) >= 3:
                return t
        return t
    t13 = [several13(), several13(), several13(), rng.choice(atoms),
           rng.choice(atoms) + ' ' + levels[0]['ops'][0], several13() + ' ' + cl]

    # 14: indirect left recursion, a cycle of 2 or 3 rules
    p1, p2, p3, p4 = take(), take(), take(), take()
    if rng.random() < 0.5:
        g14 = (f"\nstart = a $ ;\na = b '{p1}' | atom ;\nb = a '{p2}' | a '{p3}' ;\natom = /{atom_re}/ ;\n")
        steps = [p2 + p1, p3 + p1]
        broken = p2
    else:
        g14 = (f"\nstart = a $ ;\na = b '{p1}' | atom ;\nb = c '{p2}' | c '{p3}' ;\nc = a '{p4}' ;\natom = /{atom_re}/ ;\n")
        steps = [p4 + p2 + p1, p4 + p3 + p1]
        broken = p4 + p2
    chain = lambda k: rng.choice(atoms) + ''.join(' ' + ' '.join(rng.choice(steps)) for _ in range(k))
    t14 = [chain(2), chain(3), chain(4), rng.choice(atoms), chain(1) + ' ' + ' '.join(broken), chain(1)]

    # 15: typed selector chain
    dot, lb, rb = take(), *rng.choice([('[', ']'), ('(', ')'), ('<', '>')])
    if dot in (lb, rb): dot = take()
    tn = rng.sample(['Sel', 'Idx', 'Twig', 'Top', 'Hop', 'Ref', 'Cell'], 4)
    g15 = (f"\nstart::{tn[0]} = v:p $ ;\np = sel | idx | name ;\nsel::{tn[1]} = o:p '{dot}' n:name ;\n"
           f"idx::{tn[2]} = o:p '{lb}' i:p '{rb}' ;\nname::{tn[3]} = n:/[a-z]+/ ;\n")
    names = ['a', 'bc', 'd', 'ef', 'g']
    def sel15(depth, k):
        out = rng.choice(names)
        for _ in range(k):
            if depth > 0 and rng.random() < 0.4:
                out += lb + sel15(depth - 1, rng.choice([0, 1, 2])) + rb
            else:
                out += dot + rng.choice(names)
        return out
    t15 = [sel15(1, 2), sel15(1, 3), sel15(2, 4), rng.choice(names), sel15(1, 2) + dot, sel15(1, 1) + lb]
    return {'grammars': {13: g13, 14: g14, 15: g15}, 'texts': {13: t13, 14: t14, 15: t15},
            'describe': {'13': g13.strip().split('\n'), '14': g14.strip().split('\n'), '15': g15.strip().split('\n')}}


# ---- grammars that are not in the optimizer's normal form
SHAPE_WORDS = [a + b + c for a in 'kmprstvz' for b in 'aeiou' for c in 'kmnprst']


def gen_shape_family(rng):
    """Three grammars, generated from the seed, whose rules are written the way people (and generators of grammars)
    write them and NOT in the normal form the optimizer produces: groups around one element or around a group, an
    optional directly inside an optional / around a closure / a join, groups as bodies of closures, joins and gathers,
    named / override / lookahead / skip elements around groups, one-element sequences, choices with a leading bar,
    rules that only call another rule (chains of 2-3), rule includes, rules with parameters / keyword parameters /
    node types / decorators, directives - all of them INSIDE longer sequences and choices.  Grammar.optimized() (run by
    the first parse, its result cached on the model) rewrites every one of these shapes in a copy of the model that
    shares nodes and containers with the model the caller holds.  Every token occurs once in a grammar and choices /
    closure bodies start with a token, so a derivation parses; texts: 4 random derivations, one that stops early,
    one with a foreign word."""
    grammars, texts, describe = {}, {}, {}
    for g in SHAPE_GRAMS:
        words = list(SHAPE_WORDS)
        rng.shuffle(words)
        tok = words.pop
        names = iter('abcdefghijklmnopq')
        rules = {}          # name -> derivation

        def leaf(calls=True):
            r = rng.random()
            if calls and rules and r < 0.25:
                n = rng.choice(sorted(rules))
                return n, rules[n], False
            if r < 0.4:
                # (a pattern does not skip whitespace by itself; a rule call does)
                return 'ident', (lambda q: [str(q.randrange(1000))]), False
            t = tok()
            return f"'{t}'", (lambda q: [t]), False

        def solid(e):
            """an element that consumes something (body of a closure, head of an alternative)"""
            s, d, nullable = e
            if not nullable:
                return e
            t = tok()
            return f"('{t}' {s})", (lambda q: [t] + d(q)), False

        def inner(depth):
            """what stands between brackets: ONE element (a redundant bracket), a sequence, or a choice"""
            r = rng.random()
            if r < 0.45:
                return elem(depth)
            if r < 0.75:
                es = [elem(depth) for _ in range(rng.choice([2, 2, 3]))]
                return (' '.join(e[0] for e in es), (lambda q: [w for e in es for w in e[1](q)]),
                        all(e[2] for e in es))
            alts = []
            for _ in range(rng.choice([2, 2, 3])):
                t = tok()
                es = [elem(depth - 1) for _ in range(rng.choice([0, 1, 1, 2]))]
                cut = ' ~' if es and rng.random() < 0.2 else ''
                alts.append((f"'{t}'{cut}" + ''.join(' ' + e[0] for e in es),
                             (lambda q, t=t, es=es: [t] + [w for e in es for w in e[1](q)])))
            bar = '| ' if rng.random() < 0.3 else ''
            return bar + ' | '.join(a[0] for a in alts), (lambda q: q.choice(alts)[1](q)), False

        def elem(depth, plain=False):
            if depth <= 0:
                return leaf()
            k = rng.choice(['group', 'group', 'group', 'opt', 'opt', 'clo', 'join', 'skip', 'look', 'leaf', 'leaf']
                           + ([] if plain else ['named', 'named', 'over']))
            if k == 'leaf':
                return leaf()
            if k == 'group':
                s, d, n = inner(depth - 1)
                return f'({s})', d, n
            if k == 'opt':
                s, d, _ = inner(depth - 1)
                return f'[{s}]', (lambda q: d(q) if q.random() < 0.6 else []), True
            if k == 'clo':
                s, d, _ = solid(inner(depth - 1))
                plus = rng.random() < 0.5
                return ('{' + s + '}' + ('+' if plus else ''),
                        (lambda q: [w for _ in range(q.randrange(1 if plus else 0, 4)) for w in d(q)]), not plus)
            if k == 'join':
                s, d, _ = solid(inner(depth - 1))
                plus = rng.random() < 0.5
                sep, op = tok(), rng.choice(['.', '.', '%'])
                def dj(q):
                    out = []
                    for j in range(q.randrange(1 if plus else 0, 4)):
                        out += ([sep] if j else []) + d(q)
                    return out
                return f"'{sep}'{op}{{{s}}}" + ('+' if plus else ''), dj, not plus
            if k in ('named', 'over'):
                s, d, n = elem(depth - 1, plain=True)
                if k == 'named':
                    return next(names) + rng.choice([':', ':', '+:']) + s, d, n
                return rng.choice(['@:', '@:', '@+:']) + s, d, n
            if k == 'skip':
                s, d, n = inner(depth - 1)
                return f'(?:{s})', d, n
            s, d, n = leaf(calls=False)
            if rng.random() < 0.5:
                return f"(&({s}) {s})", d, n
            return f"(!('{tok()}') {s})", d, n

        def redundant():
            """an element the optimizer certainly rewrites, whatever the dice say"""
            t, u = tok(), tok()
            k = rng.randrange(8)
            if k == 6: return f"['{t}' ('{u}')]", (lambda q: [t, u] if q.random() < 0.6 else []), True
            if k == 7: return f"{next(names)}:('{t}' | '{u}' ('{t}'))", (lambda q: [t] if q.random() < 0.5 else [u, t]), False
            if k == 0: return f"('{t}')", (lambda q: [t]), False
            if k == 1: return f"(('{t}'))", (lambda q: [t]), False
            if k == 2: return f"[['{t}']]", (lambda q: [t] if q.random() < 0.6 else []), True
            if k == 3: return f"[{{'{t}'}}]", (lambda q: [t] * q.randrange(3)), True
            if k == 4: return f"('{t}' ('{u}'))", (lambda q: [t, u]), False
            return f"{{('{t}')}}+", (lambda q: [t] * q.randrange(1, 3)), False

        lines = []
        heads = {'num': rng.choice(['num', 'num', '@nomemo\nnum']),
                 'atom': rng.choice(['atom', 'atom::Atm', 'atom(1)']),
                 'pair': rng.choice(['pair', 'pair::Par', "pair(2, k=3)"]),
                 'item': rng.choice(['item', 'item', 'item::Itm'])}
        for rn in ('num', 'atom', 'pair', 'item'):
            s, d, _ = inner(1) if rn == 'pair' else leaf(calls=False)
            if rn == 'pair':
                t, (s2, d2, _) = tok(), redundant()
                s, d = f"'{t}' {s2} ({s})", (lambda q, t=t, d=d, d2=d2: [t] + d2(q) + d(q))
            lines.append(f'{heads[rn]} = {s} ;')
            rules[rn] = d
        # rules that only call another rule, a rule include
        target = rng.choice(['atom', 'pair', 'item'])
        chain = ['al', 'al2', 'al3'][:rng.choice([2, 2, 3])]
        for a, b in zip(chain, chain[1:] + [target]):
            lines.append(f'{a} = {b} ;')
        for a in chain:
            rules[a] = rules[target]
        inc, t = rng.choice(['num', 'atom']), tok()
        lines.append(f"term = >{inc} '{t}' ;")
        rules['term'] = (lambda q, inc=inc, t=t, rules=rules: rules[inc](q) + [t])
        es = [elem(2) for _ in range(rng.choice([1, 2]))]
        for _ in range(2):
            es.insert(rng.randrange(1, len(es) + 1), redundant())
        es.insert(rng.randrange(len(es) + 1), ('al', rules['al'], False))
        es.insert(rng.randrange(len(es) + 1), ('term', rules['term'], False))
        dstart = lambda q, es=es: [w for e in es for w in e[1](q)]
        start = 'start = ' + ' '.join(e[0] for e in es) + ' $ ;'
        lines.append('ident = /\\d+/ ;')
        lines.insert(0, start)          # the first rule is the default start rule
        dirs = rng.sample(['@@grammar :: Shp%d' % g, '@@nameguard :: True', '@@parseinfo :: False',
                           '@@keyword :: %s %s' % (tok(), tok()), '@@left_recursion :: False'], rng.choice([0, 1, 2, 3]))
        grammars[g] = '\n' + '\n'.join(dirs + lines) + '\n'
        q = _random.Random(rng.random())
        ds = [dstart(q) for _ in range(4)]
        texts[g] = [' '.join(d) for d in ds] + [' '.join(ds[0][:max(1, len(ds[0]) - 1 - q.randrange(3))]),
                                                ' '.join(ds[1][:len(ds[1]) // 2] + ['xq'] + ds[1][len(ds[1]) // 2:])]
        describe[str(g)] = grammars[g].strip().split('\n')
    return {'grammars': grammars, 'texts': texts, 'describe': describe}


# ---- regex-valued settings in different forms
# ids of the generated settings (worker: SETTINGS[7..12]); R_W*: the whitespace pattern, R_C*: both comment patterns
R_W_STR, R_W_RE, R_W_REFLAG, R_C_STR, R_C_REFLAG, R_MIXED = 7, 8, 9, 10, 11, 12
REGEX_SETTINGS = [R_W_STR, R_W_RE, R_W_REFLAG, R_C_STR, R_C_REFLAG, R_MIXED]
REGEX_FORM_NAMES = {7: 'whitespace:str', 8: 'whitespace:compiled', 9: 'whitespace:compiled+flags', 10: 'comments:str',
                    11: 'comments:compiled+flags', 12: 'mixed'}
REGEX_FORM_GROUPS = [[R_W_STR, R_W_RE, R_W_REFLAG, R_MIXED], [R_C_STR, R_C_REFLAG, R_MIXED]]
RE_I, RE_M, RE_S, RE_X = 2, 8, 16, 64      # re.IGNORECASE, MULTILINE, DOTALL, VERBOSE


def gen_regex_family(rng):
    """Patterns for the three regex-valued settings (whitespace, comments, eol_comments), chosen from the seed, each in
    several FORMS that have the same pattern TEXT: plain string, precompiled without flags, precompiled with a flag that
    changes what the text matches; plus the same texts written in grammars (as @@directives, as a /pattern/ of a rule).
    The texts to parse contain the places where the flags matter (the letter of the whitespace pattern in the other case,
    a comment that spans a line break, an end-of-line comment that is not on the last line)."""
    c = rng.choice('kmpqtvwz')
    C = c.upper()
    wtext, wflag = rng.choice([(f'[ {c}]+', RE_I), (f'(?:\\s|{c})+', RE_I), (f'[\\s{c}]+', RE_I),
                               (f'\\s+ | {c}', RE_X), (f'(?:{c} | \\s)+', RE_X | RE_I)])
    wflag |= rng.choice([0, 0, RE_S, RE_M])
    op, cl = rng.choice([('(*', '*)'), ('<#', '#>'), ('{-', '-}'), ('[[', ']]')])
    esc = lambda t: ''.join('\\' + ch for ch in t)
    ctext = esc(op) + '.*?' + esc(cl)                      # needs DOTALL to span a line break
    e = rng.choice(['--', '#', ';;', '%'])
    etext = rng.choice([esc(e) + '.*?$', esc(e) + '.*$'])    # needs MULTILINE before the last line
    sre = lambda t, f: {'$re': t, 'flags': f}
    settings = {
        R_W_STR: {'whitespace': wtext},
        R_W_RE: {'whitespace': sre(wtext, 0)},
        R_W_REFLAG: {'whitespace': sre(wtext, wflag)},
        R_C_STR: {'comments': ctext, 'eol_comments': etext},
        R_C_REFLAG: {'comments': sre(ctext, RE_S), 'eol_comments': sre(etext, RE_M)},
        R_MIXED: {'whitespace': sre(wtext, wflag), 'comments': sre(ctext, RE_S | rng.choice([0, RE_I])), 'eol_comments': etext},
    }
    body = ("start = {item}+ $ ;\n"
            "item = word | num ;\n"
            "word = /[A-Za-z]+/ ;\n"
            "num = /\\d+/ ;\n")
    grammars = {
        10: "\n" + body,
        # the same pattern texts, plain, given by directives of the grammar
        11: f"\n@@whitespace :: /{wtext}/\n@@comments :: /{ctext}/\n@@eol_comments :: /{etext}/\n" + body,
        # the text of the whitespace pattern as the pattern of a rule
        12: "\n" + body.replace('item = word', 'item = gap | word').replace('num = ', f'gap = /{wtext}/ ;\nnum = '),
    }
    texts = [f'a {C} b {c} d', f'a{c} {C}b 12 {C}{C} {c}', f'a {op} x\n y {cl} b {C} 1', f'a {e} rest {C}\nb {c} 2',
             f'{C}', f'a {op} {c} {cl} {C} {e} z', '']
    return {'grammars': grammars, 'texts': {g: texts for g in REGEX_GRAMS}, 'settings': settings,
            'describe': {'letter': c, 'whitespace': wtext, 'flags': wflag, 'comments': ctext, 'eol_comments': etext}}


def regexify(rng, ops, focus):
    """The calls of a history get their regex-valued settings in the generated forms (at parse time mostly: at compile
    time the settings also configure the bootstrap parse of the grammar text)."""
    for o in ops:
        k = o['op']
        if k in ('compile', 'cparse') and rng.random() < 0.15:
            o['a']['cs'] = rng.choice(REGEX_SETTINGS)
        if k in ('mparse', 'cparse', 'pparse'):
            if rng.random() < 0.7:
                o['p']['ps'] = rng.choice(REGEX_SETTINGS)
            if rng.random() < 0.15:
                o['p']['cfgobj'] = rng.choice(REGEX_SETTINGS)
        if k == 'tparse':
            t = o['t']
            if t['g'] not in focus:
                t['g'] = rng.choice(focus)
                t['text'] = rng.randrange(NTEXT[t['g']])
                t['start'] = rng.choice(GSTARTS[t['g']])
            if rng.random() < 0.7:
                t['ts'] = rng.choice(REGEX_SETTINGS)
            if rng.random() < 0.15:
                t['cfgobj'] = rng.choice(REGEX_SETTINGS)
        if k == 'mkparser':
            if rng.random() < 0.4:
                o['cs'] = rng.choice(REGEX_SETTINGS)
            if rng.random() < 0.2:
                o['ccfg'] = rng.choice(REGEX_SETTINGS)
    return ops


def directed_regex_forms(rng):
    """every form of a pattern text used after every other form of the same text (settings of parse / tatsu.parse /
    a generated parser object), and the grammars that carry the plain text used after / before the precompiled forms"""
    out = []
    ca = {'name': 0, 'sem': None, 'asmodel': False, 'bopt': None, 'cs': 0}
    pp = {'start': 0, 'ps': 0, 'sem': None, 'asmodel': False, 'cfgobj': None}
    tt = {'start': 0, 'name': 0, 'ts': 0, 'sem': None, 'asmodel': False, 'bopt': None, 'cfgobj': None}
    for grp in REGEX_FORM_GROUPS:
        for fa in grp:
            for fb in grp:
                if fa == fb or (R_MIXED in (fa, fb) and rng.random() < 0.6):
                    continue
                g = 10
                tx = rng.randrange(NTEXT[g] - 1)
                h = [{'op': 'cparse', 'a': dict(ca, g=g), 'p': dict(pp, g=g, text=tx, ps=fa)},
                     {'op': 'cparse', 'a': dict(ca, g=g), 'p': dict(pp, g=g, text=tx, ps=fb)},
                     {'op': 'tparse', 't': dict(tt, g=g, text=tx, ts=fa)},
                     {'op': 'tparse', 't': dict(tt, g=rng.choice(REGEX_GRAMS), text=rng.randrange(4), ts=fb)}]
                out.append(h)
    for g in (11, 12):
        for f in (R_W_REFLAG, R_C_REFLAG, rng.choice([R_W_RE, R_MIXED])):
            tx = rng.randrange(4)
            plain = {'op': 'cparse', 'a': dict(ca, g=g), 'p': dict(pp, g=g, text=tx)}
            other = {'op': 'cparse', 'a': dict(ca, g=10), 'p': dict(pp, g=10, text=tx, ps=f)}
            out.append([other, plain, {'op': 'tparse', 't': dict(tt, g=g, text=rng.randrange(4))}])
            out.append([plain, other, {'op': 'tparse', 't': dict(tt, g=10, text=tx, ts=f)}])
    # one generated parser object: the forms given to the constructor and per call
    for fa, fb in ((R_W_REFLAG, R_W_STR), (R_W_STR, R_W_REFLAG), (R_C_REFLAG, R_C_STR), (R_MIXED, R_W_RE)):
        tx = rng.randrange(4)
        out.append([{'op': 'gen', 'var': 0, 'a': {'g': 10, 'name': 0, 'cs': 0}},
                    {'op': 'mkparser', 'var': 0, 'src': 0, 'cs': fa, 'sem': None, 'ccfg': None},
                    {'op': 'pparse', 'var': 0, 'p': dict(pp, g=10, text=tx)},
                    {'op': 'mkparser', 'var': 1, 'src': 0, 'cs': 0, 'sem': None, 'ccfg': None},
                    {'op': 'pparse', 'var': 1, 'p': dict(pp, g=10, text=tx, ps=fb)},
                    {'op': 'pparse', 'var': 0, 'p': dict(pp, g=10, text=tx)}])
    return out


def directed_model_use(rng, everything=False):
    """What a program does with a compiled grammar besides parsing with it - generate the parser source, ask compile for
    it again (the cache hands out the same object), look at it (the compile result carries digests of asjson, of a walk
    over the node classes and fields, of pretty() / pretty_lean()) - BEFORE and AFTER the first parse with it,
    after a first parse that FAILED, and after a first parse that came through the other entry point (tatsu.parse with
    the same grammar text gets the cached model); then the generated parser built from the source obtained after the
    parse.  For the grammars that are not in the optimizer's normal form and a sample of the others (all in thorough)."""
    out = []
    others = [g for g in GRAMS if g not in SHAPE_GRAMS]
    for g in SHAPE_GRAMS + (others if everything else rng.sample(others, 3)):
        nm = rng.choice([0, 1, 2])
        ca = {'g': g, 'name': nm, 'sem': None, 'asmodel': False, 'bopt': None, 'cs': 0}
        ga = {'g': g, 'name': nm, 'cs': 0}
        def pp(bad=False):
            tx = NTEXT[g] - 1 if bad else rng.randrange(max(1, NTEXT[g] - 2))
            return {'g': g, 'text': tx, 'start': 0, 'ps': 0, 'sem': None, 'asmodel': False, 'cfgobj': None}
        def tt(bad=False):
            t = dict(pp(bad), name=nm, ts=0, bopt=None)
            del t['ps']
            return t
        first_bad = rng.random() < 0.3
        out.append([{'op': 'compile', 'var': 0, 'a': ca}, {'op': 'gen', 'var': 0, 'a': ga},
                    {'op': 'mparse', 'var': 0, 'p': pp(first_bad)}, {'op': 'gen', 'var': 1, 'a': ga},
                    {'op': 'compile', 'var': 1, 'a': ca}, {'op': 'mparse', 'var': 1, 'p': pp()},
                    {'op': 'mkparser', 'var': 0, 'src': 1, 'cs': 0, 'sem': None, 'ccfg': None},
                    {'op': 'pparse', 'var': 0, 'p': pp()}])
        out.append([{'op': 'tparse', 't': tt(rng.random() < 0.3)}, {'op': 'compile', 'var': 0, 'a': ca}, {'op': 'gen', 'var': 0, 'a': ga},
                    {'op': 'compile', 'var': 1, 'a': dict(ca, asmodel=True)}, {'op': 'mparse', 'var': 1, 'p': pp()},
                    {'op': 'compile', 'var': 2, 'a': ca}])
    return out


def directed_parser_settings(rng):
    """ONE generated parser object per grammar, and on it every text under every per-call setting, in a shuffled order
    (for the grammars of the regex family: under every form of the regex settings): whatever a parse leaves on the
    parser object - or computes once per object - under one setting meets every other setting and every text."""
    out = []
    for g in [x for x in GRAMS if x not in SHAPE_GRAMS[1:]]:
        texts = rng.sample(range(NTEXT[g]), min(4, NTEXT[g]))
        sets = [0] + rng.sample(REGEX_SETTINGS, 5) if g in REGEX_GRAMS else [0, 1, 2, 3, 5, 6]
        cells = [(t, ps) for t in texts for ps in sets]
        rng.shuffle(cells)
        h = [{'op': 'gen', 'var': 0, 'a': {'g': g, 'name': 0, 'cs': 0}},
             {'op': 'mkparser', 'var': 0, 'src': 0, 'cs': 0, 'sem': None, 'ccfg': None}]
        h += [{'op': 'pparse', 'var': 0, 'p': {'g': g, 'text': t, 'start': 0, 'ps': ps, 'sem': None, 'asmodel': False,
                                               'cfgobj': None}} for t, ps in cells]
        out.append(h)
    return out


# short-lived semantics objects (worker: EPH_KINDS): the number names ONE object, created for the call that carries it
EPH_BASE = 100
N_EPH_KINDS = 8
EPH_NAMES = ['foreign', 'bound', 'static', 'classmethod', 'getattr', 'default', 'static-default', 'partial']


def eph_id(rng, serial, kind=None):
    kind = rng.randrange(N_EPH_KINDS) if kind is None else kind
    return EPH_BASE + (serial * N_EPH_KINDS + kind) * 4 + rng.randrange(3)


def eph_kind(n):
    return EPH_NAMES[((n - EPH_BASE) // 4) % N_EPH_KINDS]


def ephemeralize(rng, ops):
    """The calls of a history get semantics objects that live for that call only (a new object per call, of one of 8
    classes that provide their actions in different ways), instead of the long-lived objects of the pool."""
    serial = 0
    for o in ops:
        slots = []
        k = o['op']
        if k in ('compile', 'cparse'):
            slots.append((o['a'], 0.25))
        if k in ('mparse', 'cparse', 'pparse'):
            slots.append((o['p'], 0.8))
        if k == 'tparse':
            slots.append((o['t'], 0.6))
        if k == 'mkparser':
            slots.append((o, 0.3))
        for d, pr in slots:
            if rng.random() < pr:
                d['sem'] = eph_id(rng, serial)
                serial += 1
    return ops


def directed_ephemeral(rng):
    """one model / one generated parser object, a run of parses each with its own short-lived semantics object"""
    out = []
    ca = {'name': 0, 'sem': None, 'asmodel': False, 'bopt': None, 'cs': 0}
    for g in [x for x in GRAMS if x not in SHAPE_GRAMS[1:]]:
        def pp(serial):
            return {'g': g, 'text': rng.randrange(min(2, NTEXT[g])) if rng.random() < 0.7 else rng.randrange(NTEXT[g]),
                    'start': 0, 'ps': 0, 'sem': eph_id(rng, serial), 'asmodel': False, 'cfgobj': None}
        h = [{'op': 'compile', 'var': 0, 'a': dict(ca, g=g)}]
        h += [{'op': 'mparse', 'var': 0, 'p': pp(j)} for j in range(6)]
        out.append(h)
        if g in (1, 2, 3, SIBLINGS[0]):
            h = [{'op': 'gen', 'var': 0, 'a': {'g': g, 'name': 0, 'cs': 0}},
                 {'op': 'mkparser', 'var': 0, 'src': 0, 'cs': 0, 'sem': None, 'ccfg': None}]
            h += [{'op': 'pparse', 'var': 0, 'p': pp(j)} for j in range(5)]
            out.append(h)
            h = [{'op': 'cparse', 'a': dict(ca, g=g), 'p': pp(j)} if j % 2 else
                 {'op': 'tparse', 't': {'g': g, 'text': 0, 'start': 0, 'name': 0, 'ts': 0, 'sem': eph_id(rng, j),
                                        'asmodel': False, 'bopt': None, 'cfgobj': None}} for j in range(5)]
            out.append(h)
    return out


# ---- constant expressions over names (`name`, `{name}!`, `len(name)` ...)
# A constant of a rule is evaluated in a context made of the named elements the rule has matched so far (and of what
# the semantics object's safe_context() provides); a name that is not there stays text.  What a name stands for is
# per rule invocation: the family has, for every name, a rule that defines it and rules (in the same grammar and in the
# other grammars) that mention it without defining it, so a context that outlives its rule / parse / model shows.
CONST_GRAMS = [19, 20, 21]
CTX_SEMS = [9, 10]
for _g in CONST_GRAMS:
    NTEXT[_g] = 6
    GSTARTS[_g] = [0, 0, 0, 1, 7, 5, 3]
A1_GRAMS = GRAMS + CONST_GRAMS
CONST_NAMES = ['tag', 'kind', 'unit', 'mode', 'lab', 'ref', 'key', 'sort', 'side', 'role', 'part', 'text']
CONST_TEMPLATES = ['{x}', '{x}', '{{{x}}}!', '<{{{x}}}>', 'len({x})', '{x}.upper()', '{{{x}}}-{{{y}}}', '{x} + {y}',
                   '[{x}, {y}]', '{x} * 2', '{{{y}}}:{{{x}}}', '{x} or {y}', '({x}, 1)']


def gen_const_family(rng):
    names = rng.sample(CONST_NAMES, 4)
    words = rng.sample(SHAPE_WORDS, 6)
    grammars, texts = {}, {}

    def consts(first, k, bare_ok=True, base=0):
        out = []
        for j in range(base, base + k):
            x = first if j == base else rng.choice(names)
            y = rng.choice([n for n in names if n != x])
            e = rng.choice(CONST_TEMPLATES[:4] if j == base else CONST_TEMPLATES).format(x=x, y=y)
            q = '```' if rng.random() < 0.2 else '`'
            lead = '' if (bare_ok and j > base and rng.random() < 0.2) else f'c{j}:'
            out.append(f'{lead}{q}{e}{q}')
        return ' '.join(out)
    typed_one = rng.choice(CONST_GRAMS)
    for g in CONST_GRAMS:
        n0, n1, n2, n3 = names
        atom_two = rng.random() < 0.5
        alt_named = rng.random() < 0.5
        # item defines n0 (and n1 when there is a second word), atom defines n2 (and n3), alt nothing (or n3)
        item = (f"'a' {n0}:word {consts(rng.choice([n2, n3]), 1)} [{n1}:word] "
                f"{consts(rng.choice([n1, n2, n3]), rng.choice([1, 2]), base=1)}")
        atom = f"'b' {n2}:word {f'{n3}:word ' if atom_two else ''}{consts(n0, rng.choice([2, 3]))}"
        if alt_named:
            alt = f"'c' {n3}:word {consts(rng.choice([n0, n2]), 2)}"
        else:
            x = rng.choice([n0, n1, n2])
            alt = f"'c' `{x}` {consts(rng.choice([n0, n2]), 1, bare_ok=False).split(':', 1)[1]}"
        head = rng.choice(['', '', f'@@grammar :: Kst{g}\n'])
        ty = (lambda r: f'::{r.capitalize()}K') if g == typed_one else (lambda r: '')
        grammars[g] = (f"\n{head}start = (item | atom | alt) $ ;\n"
                       f"item{ty('item')} = {item} ;\n"
                       f"atom{ty('atom')} = {atom} ;\n"
                       f"alt = {alt} ;\n"
                       f"word = /[a-z]+/ ;\n")
        w = words
        texts[g] = [f'a {w[0]}', f'a {w[1]} {w[2]}', f'b {w[3]}' + (f' {w[4]}' if atom_two else ''),
                    'c' + (f' {w[5]}' if alt_named else ''),
                    f'b {n0}' + (f' {rng.choice(names)}' if atom_two else ''), 'a 9']
    contexts = {}
    for k in CTX_SEMS:
        sub = rng.sample(names, rng.choice([1, 2, 3]))
        contexts[k] = {n: rng.choice([f'S{k}{n[:1]}', f'S{k}', k * 10 + i]) for i, n in enumerate(sub)}
    return {'grammars': grammars, 'texts': texts, 'contexts': contexts,
            'describe': {'names': names, 'grammars': grammars, 'texts': texts, 'contexts': contexts}}


def constify(rng, ops):
    """some calls of a history over the constant-expression grammars run with a semantics object that provides names"""
    for o in ops:
        for d, pr in ((o.get('p'), 0.3), (o.get('t'), 0.25), (o.get('a'), 0.15), (o if o['op'] == 'mkparser' else None, 0.3)):
            if d is not None and 'sem' in d and rng.random() < pr:
                d['sem'] = rng.choice(CTX_SEMS)
    return ops


def directed_const(rng, everything=False):
    """every grammar of the family after every one of them (a name defined by a rule of the first, mentioned without
    being defined in a rule of the second), through compile().parse / tatsu.parse / one model / one generated parser
    object, without a semantics object and with the two that provide names"""
    out = []
    ca = {'name': 0, 'sem': None, 'asmodel': False, 'bopt': None, 'cs': 0}
    def pp(g, text, sem=None):
        return {'g': g, 'text': text, 'start': 0, 'ps': 0, 'sem': sem, 'asmodel': False, 'cfgobj': None}
    def tt(g, text, sem=None):
        return {'g': g, 'text': text, 'start': 0, 'name': 0, 'ts': 0, 'sem': sem, 'asmodel': False, 'bopt': None,
                'cfgobj': None}
    for g1 in CONST_GRAMS:
        for g2 in CONST_GRAMS:
            out.append([{'op': 'cparse', 'a': dict(ca, g=g1), 'p': pp(g1, rng.choice([0, 1, 1]))},
                        {'op': 'cparse', 'a': dict(ca, g=g2), 'p': pp(g2, 2)},
                        {'op': 'tparse', 't': tt(g2, 3)},
                        {'op': 'cparse', 'a': dict(ca, g=g2), 'p': pp(g2, 4, rng.choice(CTX_SEMS))}] +
                       ([{'op': 'tparse', 't': tt(g1, rng.choice([0, 1, 2]))}] if everything else []))
    for g in CONST_GRAMS:
        cells = [(t, rng.choice([None, None] + CTX_SEMS)) for t in range(NTEXT[g])] * 2
        rng.shuffle(cells)
        if not everything:
            cells = cells[:7]
        out.append([{'op': 'compile', 'var': 0, 'a': dict(ca, g=g, asmodel=rng.random() < 0.3)}] +
                   [{'op': 'mparse', 'var': 0, 'p': pp(g, t, sm)} for t, sm in cells])
        rng.shuffle(cells)
        out.append([{'op': 'gen', 'var': 0, 'a': {'g': g, 'name': 0, 'cs': 0}},
                    {'op': 'mkparser', 'var': 0, 'src': 0, 'cs': 0, 'sem': None, 'ccfg': None}] +
                   [{'op': 'pparse', 'var': 0, 'p': pp(g, t, sm)} for t, sm in cells])
        t = rng.randrange(5)
        out.append([{'op': 'cparse', 'a': dict(ca, g=g), 'p': pp(g, t, CTX_SEMS[0])},
                    {'op': 'cparse', 'a': dict(ca, g=g), 'p': pp(g, t, CTX_SEMS[1])},
                    {'op': 'cparse', 'a': dict(ca, g=g), 'p': pp(g, t)},
                    {'op': 'tparse', 't': tt(g, t, CTX_SEMS[0])},
                    {'op': 'cparse', 'a': dict(ca, g=g, sem=CTX_SEMS[1]), 'p': pp(g, t)}])
    return out


# ---- builder options in containers the caller owns and reuses (worker: OWNED)
OWN_TYPES = ['Prog', 'Pair', 'Atom', 'Stmt', 'Bee', 'Alt']     # the node types the rules of TYPED_GRAMS name


def gen_owned_family(rng):
    """typedefs= lists over a module / a mapping / a class that define node classes, constructors= lists, and
    BuilderConfig objects built over those very lists: ONE object each per process, given to many calls."""
    kind_b = rng.choice(['mapping', 'class', 'module'])
    kind_a = rng.choice(['module', 'module', 'class'])
    part = sorted(rng.sample(OWN_TYPES, rng.choice([2, 3, 4])))
    rest = [n for n in OWN_TYPES if n not in part]
    reg2 = ['T:' + n for n in rng.sample(rest, rng.choice([1, 2]))] + (['T:Extra'] if rng.random() < 0.5 else [])
    containers = {
        'defsA': {'kind': kind_a, 'types': OWN_TYPES},
        'defsB': {'kind': kind_b, 'types': part},
        'tdA': {'kind': 'list', 'role': 'typedefs-list', 'items': ['defsA']},
        'tdB': {'kind': 'list', 'role': 'typedefs-list', 'items': ['defsB']},
        'reg1': {'kind': 'list', 'role': 'constructors-list', 'items': ['T:Marker']},
        'reg2': {'kind': 'list', 'role': 'constructors-list', 'items': reg2},
        'bcA': {'kind': 'builderconfig', 'typedefs': 'tdA'},
        'bcR': {'kind': 'builderconfig', 'constructors': 'reg1'},
        'bcB': {'kind': 'builderconfig', 'typedefs': 'tdB', 'constructors': 'reg2',
                'basetype': rng.choice(['Node', 'B1'])},
    }
    bopts = {6: {'typedefs': 'tdA'}, 7: {'constructors': 'reg1'}, 8: {'typedefs': 'tdA', 'constructors': 'reg1'},
             9: {'builderconfig': 'bcA'}, 10: {'builderconfig': 'bcR'}, 11: {'builderconfig': 'bcR', 'typedefs': 'tdA'},
             12: {'typedefs': 'tdB', 'constructors': 'reg2'}, 13: {'builderconfig': 'bcB'}, 14: {'constructors': 'reg2'},
             15: {'builderconfig': 'bcR', 'basetype': rng.choice(['B1', 'B2'])}}
    assert sorted(bopts) == OWN_BOPTS
    return {'containers': containers, 'bopts': {str(k): v for k, v in bopts.items()}}


def own_containers(fam, b):
    """the caller's objects a call with builder option b is given (directly or inside another one)"""
    out, todo = set(), [v for k, v in fam['bopts'][str(b)].items() if k in ('typedefs', 'constructors', 'builderconfig')]
    while todo:
        c = todo.pop()
        if c in out or c not in fam['containers']:
            continue
        out.add(c)
        spec = fam['containers'][c]
        todo += [x for x in spec.get('items', []) if not x.startswith('T:')]
        todo += [spec[k] for k in ('typedefs', 'constructors') if spec.get(k)]
    return out


def own_sem(serial, b):
    return OWN_SEM_BASE + serial * 32 + b


def ownerize(rng, ops):
    """the calls of a history over the typed grammars take their builder options from the caller's containers; some
    parses bring a ModelBuilderSemantics object built for that call from them"""
    serial = 0
    for o in ops:
        for d in (o.get('a'), o.get('t')):
            if d is not None and 'bopt' in d and rng.random() < 0.65:
                d['bopt'] = rng.choice(OWN_BOPTS)
                d['sem'] = None
                d['asmodel'] = rng.random() < 0.2
        for d, pr in ((o.get('p'), 0.15), (o if o['op'] == 'mkparser' else None, 0.2)):
            if d is not None and rng.random() < pr:
                d['sem'] = own_sem(serial, rng.choice(OWN_BOPTS))
                serial += 1
    return ops


def directed_owned(rng, fam, everything=False):
    """a call that is given one of the caller's containers, then - over another grammar, through another entry point -
    a call that is given the same object (alone or inside another option), then the first kind again"""
    pairs = [(b1, b2) for b1 in OWN_BOPTS for b2 in OWN_BOPTS if own_containers(fam, b1) & own_containers(fam, b2)]
    if not everything:
        first = {}
        rng.shuffle(pairs)
        for b1, b2 in pairs:
            if b1 != b2:
                first.setdefault(b1, (b1, b2))     # every option comes first once
        chosen = list(first.values())
        chosen += rng.sample([p for p in pairs if p not in chosen], 4)
        pairs = chosen
    out = []
    ca = {'name': 0, 'sem': None, 'asmodel': False, 'cs': 0}
    serial = 0
    for b1, b2 in pairs:
        g, g2 = rng.sample(TYPED_GRAMS, 2)
        def pp(gg, sem=None):
            return {'g': gg, 'text': rng.randrange(2), 'start': 0, 'ps': 0, 'sem': sem, 'asmodel': False, 'cfgobj': None}
        def tt(gg, b):
            return {'g': gg, 'text': rng.randrange(2), 'start': 0, 'name': 0, 'ts': 0, 'sem': None,
                    'asmodel': rng.random() < 0.15, 'bopt': b, 'cfgobj': None}
        h = [{'op': 'tparse', 't': tt(g, b1)} if rng.random() < 0.6 else
             {'op': 'cparse', 'a': dict(ca, g=g, bopt=b1), 'p': pp(g)},
             {'op': 'cparse', 'a': dict(ca, g=g2, bopt=b2), 'p': pp(g2)},
             {'op': 'tparse', 't': tt(g, b2)},
             {'op': 'cparse', 'a': dict(ca, g=g, bopt=None), 'p': pp(g, own_sem(serial, b1))}]
        serial += 1
        out.append(h)
    return out


def directed_config_only(rng, everything=False):
    """Calls that are given NOTHING but the caller's configuration object next to the one model-building option (no
    start, name, semantics, settings): there is nothing to merge into the configuration, so a shortcut that skips the
    defensive copy makes the library write what it resolves for the call into the caller's object.  Every entry point
    that takes config= (tatsu.parse, model.parse, parser construction, parser.parse), the same object afterwards in
    plain calls."""
    out = []
    plain = [g for g in GRAMS if g not in TYPED_GRAMS + SHAPE_GRAMS + REGEX_GRAMS]
    grams = TYPED_GRAMS + plain if everything else rng.sample(TYPED_GRAMS, 2) + rng.sample(plain, 2)
    ca = {'name': 0, 'sem': None, 'asmodel': False, 'bopt': None, 'cs': 0}
    for g in grams:
        c = rng.choice([1, 2, 3, 5, 6])
        def tt(**kw):
            return dict({'g': g, 'text': rng.randrange(2), 'start': 0, 'name': 0, 'ts': 0, 'sem': None, 'asmodel': False,
                         'bopt': None, 'cfgobj': c}, **kw)
        def pp(**kw):
            return dict({'g': g, 'text': rng.randrange(2), 'start': 0, 'ps': 0, 'sem': None, 'asmodel': False,
                         'cfgobj': c}, **kw)
        build = rng.choice([{'asmodel': True}, {'asmodel': True}, {'bopt': rng.choice([1, 2, 3] + OWN_BOPTS)}])
        out.append([{'op': 'tparse', 't': tt(**build)},
                    {'op': 'cparse', 'a': dict(ca, g=g), 'p': pp()},
                    {'op': 'tparse', 't': tt()},
                    {'op': 'cparse', 'a': dict(ca, g=g), 'p': pp(asmodel=True)},
                    {'op': 'gen', 'var': 0, 'a': {'g': g, 'name': 0, 'cs': 0}},
                    {'op': 'mkparser', 'var': 0, 'src': 0, 'cs': 0, 'sem': None, 'ccfg': c},
                    {'op': 'pparse', 'var': 0, 'p': pp(asmodel=True)},
                    {'op': 'pparse', 'var': 0, 'p': pp()},
                    {'op': 'tparse', 't': tt()}])
    return out


VALID_SETTINGS = [0, 1, 2, 3, 5, 6] + REGEX_SETTINGS
INVALID_SETTINGS = [4]
OPAQUE_BOPTS = {4, 5} | set(OWN_BOPTS)    # builderconfig / typedefs / constructors objects cannot be part of a cache key


def gen_cargs(rng, g=None):
    a = {'g': g if g is not None else rng.choice(GRAMS), 'name': rng.choice([0, 0, 0, 1, 2]), 'sem': None,
         'asmodel': False, 'bopt': None, 'cs': 0}
    r = rng.random()
    if r < 0.25:
        a['sem'] = rng.choice(ALL_SEMS)
        if rng.random() < 0.2:
            a['asmodel'] = True
    elif r < 0.45:
        a['asmodel'] = True
    elif r < 0.6:
        a['bopt'] = rng.choice([1, 2, 3, 4, 5])
        a['asmodel'] = rng.random() < 0.3
    if rng.random() < 0.25:
        a['cs'] = rng.choice([1, 2, 3, 4, 5, 6])
        if a['cs'] == 6 and a['g'] in SHAPE_GRAMS:
            # compile settings also configure the bootstrap parse of the grammar TEXT: without memoization it takes
            # minutes on nested brackets (exponential backtracking, not a matter of this property)
            a['cs'] = 5
    return a


def gen_pargs(rng, g):
    p = {'g': g, 'text': rng.randrange(NTEXT[g]), 'start': rng.choice(GSTARTS[g]), 'ps': 0, 'sem': None,
         'asmodel': False, 'cfgobj': None}
    if rng.random() < 0.3:
        p['ps'] = rng.choice([1, 2, 3, 4, 5, 6])
    if rng.random() < 0.2:
        p['sem'] = rng.choice(ALL_SEMS)
    if rng.random() < 0.15:
        p['asmodel'] = True
    if rng.random() < 0.15:
        p['cfgobj'] = rng.choice([1, 2, 3, 5, 6])
    return p


def gen_targs(rng):
    g = rng.choice(GRAMS)
    t = {'g': g, 'text': rng.randrange(NTEXT[g]), 'start': rng.choice(GSTARTS[g]), 'name': rng.choice([0, 0, 1]),
         'ts': 0, 'sem': None, 'asmodel': False, 'bopt': None, 'cfgobj': None}
    if rng.random() < 0.3:
        t['ts'] = rng.choice([1, 2, 3, 4, 5, 6])
    if rng.random() < 0.15:
        t['cfgobj'] = rng.choice([1, 2, 3, 5, 6])
    r = rng.random()
    if r < 0.2:
        t['sem'] = rng.choice(ALL_SEMS)
    elif r < 0.4:
        t['asmodel'] = True
    elif r < 0.55:
        t['bopt'] = rng.choice([1, 2, 3, 4, 5])
        t['asmodel'] = rng.random() < 0.3
    return t


def gen_history(rng, maxlen, focus_on=None):
    """A history focused on 1-2 grammars so that cache keys collide often."""
    focus = rng.sample(GRAMS, rng.choice([1, 1, 2]))
    if rng.random() < 0.25:
        # sibling grammars: equal-valued scalars of different types meet in one process
        focus = rng.sample(SIBLINGS, rng.choice([2, 3]))
    if rng.random() < 0.1:
        # grammars that are not in the optimizer's normal form: the first parse builds (and caches) a rewritten copy
        focus = rng.sample(SHAPE_GRAMS, rng.choice([1, 1, 2]))
    regex_mode = rng.random() < 0.2
    if regex_mode:
        # the grammars of the regex-form family: one pattern text reaches the input layer in several forms
        focus = rng.sample(REGEX_GRAMS, rng.choice([1, 2, 3]))
    if focus_on is not None:
        focus, regex_mode = list(focus_on), False
    n = rng.randint(2, maxlen)
    ops = []
    mvars, svars, pvars = [], [], []
    parser_focused = rng.random() < 0.3
    if parser_focused:
        # one generated parser OBJECT reused for many parses (state must not survive a parse, failed or not)
        g = focus[0]
        ops.append({'op': 'gen', 'var': 0, 'a': {'g': g, 'name': rng.choice([0, 1, 2]), 'cs': 0}})
        svars.append(ops[-1]['a'])
        ops.append({'op': 'mkparser', 'var': 0, 'src': 0, 'cs': rng.choice([0, 0, 0, 2, 3, 5, 6]),
                    'sem': rng.choice([None, None, None, 1, 2, 4, 6]), 'ccfg': rng.choice([None, None, None, 2, 3, 5])})
        pvars.append({'src': 0, 'g': g})
    for _ in range(n):
        r = rng.random()
        if parser_focused and r < 0.6:
            r = 0.95
        if r < 0.30 or (not mvars and r < 0.5):
            a = gen_cargs(rng, rng.choice(focus))
            v = len(mvars)
            mvars.append(a)
            ops.append({'op': 'compile', 'var': v, 'a': a})
        elif r < 0.55 and mvars:
            v = rng.randrange(len(mvars))
            ops.append({'op': 'mparse', 'var': v, 'p': gen_pargs(rng, mvars[v]['g'])})
        elif r < 0.65:
            a = gen_cargs(rng, rng.choice(focus))
            ops.append({'op': 'cparse', 'a': a, 'p': gen_pargs(rng, a['g'])})
        elif r < 0.80:
            t = gen_targs(rng)
            if rng.random() < 0.8:
                t['g'] = rng.choice(focus)
                t['text'] = rng.randrange(NTEXT[t['g']])
                t['start'] = rng.choice(GSTARTS[t['g']])
            ops.append({'op': 'tparse', 't': t})
        elif r < 0.86:
            a = {'g': rng.choice(focus), 'name': rng.choice([0, 1, 2]), 'cs': rng.choice([0, 0, 0, 2, 4, 5])}
            v = len(svars)
            svars.append(a)
            ops.append({'op': 'gen', 'var': v, 'a': a})
        elif r < 0.92 and svars:
            s = rng.randrange(len(svars))
            v = len(pvars)
            pvars.append({'src': s, 'g': svars[s]['g']})
            ops.append({'op': 'mkparser', 'var': v, 'src': s, 'cs': rng.choice([0, 0, 0, 2, 3, 5]),
                        'sem': rng.choice([None, None, None, 1, 2, 4, 6]),
                        'ccfg': rng.choice([None, None, None, 2, 3, 5])})
        elif pvars:
            v = rng.randrange(len(pvars))
            # a parser object takes every per-call option model.parse takes (asmodel=, config=, semantics=, settings)
            p = gen_pargs(rng, pvars[v]['g'])
            if rng.random() < 0.2:
                p['asmodel'] = True
            ops.append({'op': 'pparse', 'var': v, 'p': p})
        else:
            a = gen_cargs(rng, rng.choice(focus))
            ops.append({'op': 'cparse', 'a': a, 'p': gen_pargs(rng, a['g'])})
    if regex_mode:
        regexify(rng, ops, focus)
    return ops


def self_contained(ops, i):
    """The script that performs call i alone: the calls that created the objects it is applied to, then the call."""
    op = ops[i]
    k = op['op']
    if k in ('compile', 'cparse', 'tparse', 'gen'):
        return [op]
    if k == 'mparse':
        c = next(o for o in ops[:i] if o['op'] == 'compile' and o['var'] == op['var'])
        return [c, op]
    if k == 'mkparser':
        s = next(o for o in ops[:i] if o['op'] == 'gen' and o['var'] == op['src'])
        return [s, op]
    if k == 'pparse':
        mk = next(o for o in ops[:i] if o['op'] == 'mkparser' and o['var'] == op['var'])
        s = next(o for o in ops[:i] if o['op'] == 'gen' and o['var'] == mk['src'])
        return [s, mk, op]
    raise KeyError(k)


# =============================================================================== abstraction to Lib/Api.v
def o2sx(x):
    return 'none' if x is None else f'(some {x})'


class Abstraction:
    def __init__(self, variant):
        self.variant = variant
        self.rests = []          # rest id -> concrete per-call data
        self.rest_ix = {}

    def rest(self, d):
        key = json.dumps(d, sort_keys=True)
        if key not in self.rest_ix:
            self.rest_ix[key] = len(self.rests)
            self.rests.append(d)
        return self.rest_ix[key]

    def cargs(self, a):
        opaque = 1 if (self.variant == 'r' and a.get('bopt') in OPAQUE_BOPTS) else 0
        return (f"({o2sx(a['name'] or None)} {a['g']} {o2sx(a.get('sem'))} {1 if a.get('asmodel') else 0} "
                f"{o2sx(a.get('bopt'))} {a['cs']} {opaque})")

    def pargs(self, p):
        r = self.rest({'route': 'm', 'start': p['start'], 'ps': p['ps'], 'text': p['text'], 'cfgobj': p.get('cfgobj')})
        return f"({o2sx(p.get('sem'))} {1 if p.get('asmodel') else 0} {r})"

    def op(self, o, mvar_index):
        k = o['op']
        if k == 'compile':
            return f"(compile {self.cargs(o['a'])})"
        if k == 'mparse':
            return f"(parsevar @{mvar_index[o['var']]} {self.pargs(o['p'])})"
        if k == 'cparse':
            return f"(cparse {self.cargs(o['a'])} {self.pargs(o['p'])})"
        if k == 'tparse':
            t = o['t']
            r = self.rest({'route': 't', 'start': t['start'], 'ts': t['ts'], 'text': t['text'], 'name': t['name'],
                           'sem': t.get('sem'), 'cfgobj': t.get('cfgobj')})
            return (f"(tparse ({t['g']} {o2sx(t.get('sem'))} {1 if t.get('asmodel') else 0} {o2sx(t.get('bopt'))} "
                    f"{t['ts']} {r}))")
        if k == 'gen':
            a = o['a']
            return f"(gen ({o2sx(a['name'] or None)} {a['g']} none 0 none {a['cs']} 0))"
        return None


def term_to_explicit(ab: Abstraction, term):
    """symbolic result of the model -> the worker op that evaluates it in a fresh process (None for errors)"""
    def on(x):
        return None if x == 'none' else int(x[1])

    def gm(x):
        return {'name': on(x[0]) or 0, 'g': int(x[1]), 'cs': int(x[2])}

    def sem(x):
        if x == 'none':
            return 'none'
        if x[0] == 'user':
            return ['user', int(x[1])]
        return ['builder', on(x[1])]
    head = term[0]
    if head == 'err':
        return None
    if head == 'model':
        return {'op': 'explicit', 'kind': 'model', 'gm': gm(term[1]), 'sem': sem(term[2])}
    if head == 'gen':
        return {'op': 'explicit', 'kind': 'gen', 'gm': gm(term[1]), 'sem': 'none'}
    if head == 'val':
        return {'op': 'explicit', 'kind': 'val', 'gm': gm(term[1]), 'sem': sem(term[2]), 'rest': ab.rests[int(term[3])]}
    raise KeyError(head)


ERR_CLASSES = {'config': {'ValueError', 'TypeError'}, 'boot': None, 'unbound': {'UNBOUND'}}


def val_of(r):
    """the part of a canonical result Lib/Api.v speaks about (synthesized class bases are compared separately)"""
    return {k: v for k, v in r.items() if k != 'types'}


def sem_component(term):
    if term[0] == 'val' or term[0] == 'model':
        s = term[2]
        return s if isinstance(s, str) else s[0]
    return term[0] + ':' + (term[1] if isinstance(term[1], str) else '')


def hybrid_term(th, t0):
    """when both the grammar model and the semantics of T_h differ from T_0: T_h with the grammar model of T_0
    (tells a leaked semantics from a grammar model compiled under other settings)"""
    if th[0] in ('val', 'model') and t0[0] == th[0] and th[1] != t0[1] and th[2] != t0[2]:
        return [th[0], t0[1]] + list(th[2:])
    return None


def classify_predicted(th, t0, hybrid_explains=False):
    """signature class of a history dependence the model predicts (T_h <> T_0)"""
    if th[0] == 'err' or t0[0] == 'err':
        if t0[0] == 'err' and t0[1] == 'boot' and th[0] != 'err':
            return 'history:settings-not-in-key:boot-error-masked'
        return f'history:error-differs:{sem_component(t0)}->{sem_component(th)}'
    if th[1] != t0[1] and not (th[2:3] != t0[2:3] and hybrid_explains):
        return 'history:settings-not-in-key:model-differs'
    if th[0] in ('val', 'model') and th[2] != t0[2]:
        return f'history:semantics-leak:{sem_component(t0)}->{sem_component(th)}'
    return 'history:other'


def _op_sems(o):
    return [d.get('sem') for d in (o, o.get('a') or {}, o.get('p') or {}, o.get('t') or {})]


def untwin(r):
    return json.loads(json.dumps(val_of(r)).replace('$twinA', '$twin').replace('$twinB', '$twin'))


def synth_bases_only(ta, tb):
    """the classes of two results differ ONLY in the bases of classes that are synthesized ones in both (D6c)"""
    ta, tb = ta or {}, tb or {}
    return set(ta) == set(tb) and all('SynthNode' in ta[n] and 'SynthNode' in tb[n] for n in ta if ta[n] != tb[n])


def unexplained_sig(h, i, kind, rh, r0):
    """A dependence the model does not predict.  One shape is recognised (and recorded as D6f): the call runs with one
    of two semantics objects that compare equal, and its result differs from the fresh one ONLY in which of the two
    objects' actions produced each node (find_cached_semantic_action is keyed by ==/hash of the semantics object)."""
    if any(x in TWIN_SEMS for o in self_contained(h, i) for x in _op_sems(o)) and untwin(rh) == untwin(r0):
        return 'history:equal-semantics-share-actions'
    return f'history:unexplained:{kind}'


# =============================================================================== A1
def run_histories(chk: Check, pool: Pool, mr: ModelRun, variant: str):
    rng = chk.rng
    nh = 110 if chk.quick else 1500
    maxlen = 8 if chk.quick else 12
    histories = [gen_history(rng, maxlen) for _ in range(nh)]
    # histories whose calls bring their own short-lived semantics objects
    histories += [ephemeralize(rng, gen_history(rng, maxlen)) for _ in range(40 if chk.quick else 400)]
    histories += directed_ephemeral(rng)
    histories += directed_regex_forms(rng)
    histories += directed_parser_settings(rng)
    histories += directed_model_use(rng, everything=not chk.quick)
    # constant expressions over names; builder options in containers the caller owns (own random streams: the
    # histories above are what they were)
    crng = _random.Random(f'{PID}-{chk.seed}-const')
    histories += directed_const(crng, everything=not chk.quick)
    histories += [constify(crng, gen_history(crng, maxlen, focus_on=crng.sample(CONST_GRAMS, crng.choice([1, 2, 3]))))
                  for _ in range(6 if chk.quick else 120)]
    histories += directed_config_only(_random.Random(f'{PID}-{chk.seed}-config-only'), everything=not chk.quick)
    orng = _random.Random(f'{PID}-{chk.seed}-owned')
    histories += directed_owned(orng, OWN_FAMILY, everything=not chk.quick)
    histories += [ownerize(orng, gen_history(orng, maxlen, focus_on=orng.sample(TYPED_GRAMS, orng.choice([1, 2]))))
                  for _ in range(8 if chk.quick else 150)]
    # directed histories around the witnesses of the Coq refutation, so that the cache paths are always reached
    for g in GRAMS:
        histories.append([{'op': 'compile', 'var': 0, 'a': {'g': g, 'name': 0, 'sem': None, 'asmodel': False, 'bopt': None, 'cs': 0}},
                          {'op': 'compile', 'var': 1, 'a': {'g': g, 'name': 0, 'sem': None, 'asmodel': True, 'bopt': None, 'cs': 0}},
                          {'op': 'mparse', 'var': 0, 'p': {'g': g, 'text': 0, 'start': 0, 'ps': 0, 'sem': None, 'asmodel': False, 'cfgobj': None}},
                          {'op': 'cparse', 'a': {'g': g, 'name': 0, 'sem': None, 'asmodel': False, 'bopt': None, 'cs': 0},
                           'p': {'g': g, 'text': 0, 'start': 0, 'ps': 0, 'sem': None, 'asmodel': False, 'cfgobj': None}},
                          {'op': 'compile', 'var': 2, 'a': {'g': g, 'name': 0, 'sem': None, 'asmodel': False, 'bopt': None, 'cs': 1}},
                          {'op': 'tparse', 't': {'g': g, 'text': 0, 'start': 0, 'name': 0, 'ts': 0, 'sem': None, 'asmodel': False, 'bopt': 2}}])
    # two semantics objects that compare equal, on the same grammar (D6f)
    for g in (1, 2):
        pp = {'g': g, 'text': 0, 'start': 0, 'ps': 0, 'sem': None, 'asmodel': False, 'cfgobj': None}
        ca = {'g': g, 'name': 0, 'sem': None, 'asmodel': False, 'bopt': None, 'cs': 0}
        histories.append([{'op': 'cparse', 'a': ca, 'p': dict(pp, sem=7)}, {'op': 'cparse', 'a': ca, 'p': dict(pp, sem=8)},
                          {'op': 'cparse', 'a': dict(ca, sem=8), 'p': pp}])
    # every sibling grammar compiled, generated and used after every other one
    for g1 in SIBLINGS:
        for g2 in SIBLINGS:
            if g1 != g2:
                pp = {'text': 0, 'start': 0, 'ps': 0, 'sem': None, 'asmodel': False, 'cfgobj': None}
                ca = {'name': 0, 'sem': None, 'asmodel': False, 'bopt': None, 'cs': 0}
                histories.append([{'op': 'cparse', 'a': dict(ca, g=g1, sem=6), 'p': dict(pp, g=g1)},
                                  {'op': 'cparse', 'a': dict(ca, g=g2, sem=6), 'p': dict(pp, g=g2)},
                                  {'op': 'gen', 'var': 0, 'a': {'g': g2, 'name': 0, 'cs': 0}},
                                  {'op': 'cparse', 'a': dict(ca, g=g2, asmodel=True), 'p': dict(pp, g=g2, text=2)}])
    in_proc = pool.map(histories)
    # fresh references, memoised by the text of the self-contained script
    fresh_scripts = {}
    for h in histories:
        for i in range(len(h)):
            sc = self_contained(h, i)
            fresh_scripts.setdefault(json.dumps(sc, sort_keys=True), sc)
    keys = list(fresh_scripts)
    fresh_res = dict(zip(keys, [r[-1] for r in pool.map([fresh_scripts[k] for k in keys])]))
    chk.count('A1.histories', len(histories))
    chk.count('A1.distinct_fresh_calls', len(keys))

    # model predictions
    ab = Abstraction(variant)
    # boot table: which (name, g, settings) fail in the bootstrap parse - measured in fresh processes
    boot_scripts = []
    # (the generated regex settings are only used with the grammars of their family,
    # and the table is measured for the (name, grammar, settings) of the compiles the histories can make: the model
    # asks boot_ok for nothing else - a missing entry that fails would show up as corr:api-model, never silently)
    needed = {(0, g, 0) for g in A1_GRAMS}
    for h in histories:
        for o in h:
            a, t = o.get('a'), o.get('t')
            if a:
                needed |= {(a['name'], a['g'], a.get('cs', 0)), (a['name'], a['g'], 0)}
            if t:
                needed |= {(t['name'], t['g'], t['ts']), (0, t['g'], t['ts']), (t['name'], t['g'], 0)}
    triples = [(nm, g, cs) for nm in (0, 1, 2) for g in A1_GRAMS for cs in VALID_SETTINGS
               if (cs not in REGEX_SETTINGS or g in REGEX_GRAMS) and (nm, g, cs) in needed
               and not (cs == 6 and g in SHAPE_GRAMS)]     # succeeds, after minutes (see gen_cargs)
    for nm, g, cs in triples:
        boot_scripts.append([{'op': 'compile', 'var': 0, 'a': {'g': g, 'name': nm, 'sem': None, 'asmodel': False,
                                                               'bopt': None, 'cs': cs}}])
    boot_res = [r[-1] for r in pool.map(boot_scripts)]
    bootfail = [(nm, g, cs) for (nm, g, cs), r in zip(triples, boot_res) if 'exc' in r]
    chk.count('A1.boot_failing_triples', len(bootfail))
    bf_sx = '(' + ' '.join(f'({o2sx(nm or None)} {g} {cs})' for nm, g, cs in bootfail) + ')'
    inv_sx = '(' + ' '.join(map(str, INVALID_SETTINGS)) + ')'
    reqs = []
    maps = []
    for h in histories:
        mvar_index = {}
        sxs = []
        idx = []
        # the model binds a variable only when compile succeeds: mirror that with the implementation's outcome
        for i, o in enumerate(h):
            s = ab.op(o, mvar_index)
            if s is None:
                continue
            if o['op'] == 'mparse' and o['var'] not in mvar_index:
                continue           # compile of that variable failed in the history: nothing to call
            sxs.append(s)
            idx.append(i)
            if o['op'] == 'compile':
                mvar_index[o['var']] = len(idx) - 1
        maps.append((sxs, idx))
    # variables are numbered by successful compiles in the MODEL; resolve in two passes using the model itself
    reqs = []
    for (sxs, idx), h in zip(maps, histories):
        reqs.append(f'(run {variant} {inv_sx} {bf_sx} ({" ".join(_subst_vars(sxs, None))}))')
    first = mr.ask(reqs)
    reqs2 = []
    for (sxs, idx), rep in zip(maps, first):
        ok = [r[0][0] != 'err' for r in rep]
        reqs2.append(f'(run {variant} {inv_sx} {bf_sx} ({" ".join(_subst_vars(sxs, ok))}))')
    second = mr.ask(reqs2)

    explicit_needed = {}
    per_case = []
    for (sxs, idx), h, res, rep in zip(maps, histories, in_proc, second):
        pos = {i: j for j, i in enumerate(idx)}
        for i, o in enumerate(h):
            rh = res[i]
            r0 = fresh_res[json.dumps(self_contained(h, i), sort_keys=True)]
            th = t0 = None
            if i in pos:
                th, t0 = rep[pos[i]]
                if th != t0:
                    for term in (th, hybrid_term(th, t0)):
                        ex = term_to_explicit(ab, term) if term is not None else None
                        if ex is not None:
                            explicit_needed.setdefault(json.dumps(ex, sort_keys=True), ex)
            per_case.append((h, i, o, rh, r0, th, t0))
    ekeys = list(explicit_needed)
    eres = dict(zip(ekeys, [r[-1] for r in pool.map([[explicit_needed[k]] for k in ekeys])]))
    chk.count('A1.explicit_evaluations', len(ekeys))

    n_model_bad = 0
    n_unexpl = 0
    for h, i, o, rh, r0, th, t0 in per_case:
        kind = o['op']
        chk.case(json.dumps([h[:i + 1]], sort_keys=True), nontrivial=i > 0)
        chk.count(f'A1.calls.{kind}')
        for x in _op_sems(o):
            if x is not None and x >= OWN_SEM_BASE:
                chk.count('A1.per_call_builder_semantics_over_owned_containers')
            elif x in CTX_SEMS:
                chk.count('A1.semantics_with_safe_context')
            elif x is not None and x >= EPH_BASE:
                chk.count('A1.short_lived_semantics.' + eph_kind(x))
        for d, key in ((o.get('a'), 'cs'), (o.get('p'), 'ps'), (o.get('t'), 'ts'), (o, 'cs'), (o.get('p'), 'cfgobj'),
                       (o.get('t'), 'cfgobj'), (o, 'ccfg')):
            if d and d.get(key) in REGEX_SETTINGS:
                chk.count('A1.regex_setting_form.' + REGEX_FORM_NAMES[d[key]])
        for d in (o.get('a'), o.get('t')):
            if d and d.get('bopt') in OWN_BOPTS:
                chk.count('A1.owned_builder_option.' + '+'.join(sorted(OWN_FAMILY['bopts'][str(d['bopt'])])))
            if d and d.get('g') in CONST_GRAMS:
                chk.count('A1.calls_over_constant_expression_grammars')
        if 'exc' in rh:
            chk.count('A1.calls_raising')
        if rh.get('mutated'):
            chk.violation('writeset:parse-mutates:' + '+'.join(sorted(rh['mutated'])),
                          f'a parse altered {rh["mutated"]} of the grammar model / configuration it was given',
                          {'oracle': 'A2 write set (inline)', 'history': h[:i + 1], 'call': o, 'result': rh})
        actual_dep = val_of(rh) != val_of(r0)
        types_dep = (not actual_dep) and rh.get('types') != r0.get('types')
        if types_dep and th is not None and th != t0 and th[0] != 'err':
            # the bases differ: because the model-predicted semantics differ (then it is the cache), or because of
            # the class registry?  T_h evaluated in a fresh process tells.
            w = eres.get(json.dumps(term_to_explicit(ab, th), sort_keys=True))
            if w is not None and w.get('types') == rh.get('types') and val_of(w) == val_of(rh):
                types_dep = False
                chk.count('A1.actual_dependence')
                chk.count('A1.model_predicts_dependence')
                small = shrink_history(pool, h, i, lambda a, b: a.get('types') != b.get('types'),
                                       classify_predicted(th, t0, True))
                chk.violation(classify_predicted(th, t0, True),
                              f'{kind}: the classes of the result depend on earlier calls (predicted by the faithful model)',
                              {'oracle': 'A1 fresh-process replay', 'history': small, 'after_history': rh, 'fresh': r0,
                               'model': [th, t0]})
                continue
        if types_dep and not synth_bases_only(rh.get('types'), r0.get('types')):
            # not the registry of synthesized classes: a class of the result is not a synthesized one in the history
            # or in the fresh process (a class from a container of the caller, or none where there was one)
            n_unexpl += 1
            sig = f'history:unexplained-classes:{kind}'
            small = shrink_history(pool, h, i, lambda a, b: val_of(a) == val_of(b) and a.get('types') != b.get('types'), sig)
            chk.violation(sig, f'{kind}: the node classes of the result are not the ones of the same call in a fresh process',
                          {'oracle': 'A1 fresh-process replay', 'history': small, 'after_history': rh.get('types'),
                           'fresh': r0.get('types')})
        elif types_dep:
            chk.count('A1.synth_bases_differ')
            small = shrink_history(pool, h, i, lambda a, b: val_of(a) == val_of(b) and a.get('types') != b.get('types'),
                                   'history:synth-class-bases')
            chk.violation('history:synth-class-bases',
                          'the bases of a synthesized node class depend on which call synthesized the name first '
                          f'(objectmodel/synth.py registry is keyed by class name only): {kind}',
                          {'oracle': 'A1 fresh-process replay', 'history': small, 'after_history': rh.get('types'),
                           'fresh': r0.get('types')})
        if th is None:
            # generated parser calls: no shared state is involved in the model
            if actual_dep:
                n_unexpl += 1
                sig = unexplained_sig(h, i, kind, rh, r0)
                small = shrink_history(pool, h, i, lambda a, b: val_of(a) != val_of(b), sig)
                chk.violation(sig, f'{kind} returns something else after a history',
                              {'oracle': 'A1 fresh-process replay', 'history': small, 'after_history': rh, 'fresh': r0})
            continue
        predicted = th != t0
        if predicted:
            chk.count('A1.model_predicts_dependence')
        # the model must explain the in-history result exactly
        want = None
        if th[0] == 'err':
            okm = 'exc' in rh and (ERR_CLASSES[th[1]] is None or rh['exc'] in ERR_CLASSES[th[1]])
        elif predicted:
            want = eres[json.dumps(term_to_explicit(ab, th), sort_keys=True)]
            okm = val_of(want) == val_of(rh)
        else:
            okm = not actual_dep
            want = r0
        if t0[0] == 'err':
            okm = okm and 'exc' in r0
        if not okm:
            n_model_bad += 1
            if not predicted and actual_dep:
                n_unexpl += 1
                sig = unexplained_sig(h, i, kind, rh, r0)
                small = shrink_history(pool, h, i, lambda a, b: val_of(a) != val_of(b), sig)
                chk.violation(sig,
                              f'{kind} returns something else after a history and Lib/Api.v predicts no dependence',
                              {'oracle': 'A1 fresh-process replay + model', 'history': small, 'after_history': rh,
                               'fresh': r0, 'model': [th, t0]})
            else:
                chk.violation(f'corr:api-model:{kind}', 'Lib/Api.v does not predict what the call returned after the history',
                              {'correspondence': 'A1 Api.v', 'history': h[:i + 1], 'impl': rh, 'model_term': th,
                               'model_value': want})
            continue
        if actual_dep:
            chk.count('A1.actual_dependence')
            hyb = hybrid_term(th, t0)
            hyb_val = eres.get(json.dumps(term_to_explicit(ab, hyb), sort_keys=True)) if hyb is not None else None
            sig = classify_predicted(th, t0, hyb_val is not None and val_of(hyb_val) == val_of(rh))
            small = shrink_history(pool, h, i, lambda a, b: val_of(a) != val_of(b), sig)
            chk.violation(sig, f'{kind}: the result depends on earlier calls (predicted by the faithful model): '
                               f'after the history {json.dumps(val_of(rh))[:160]}, in a fresh process {json.dumps(val_of(r0))[:160]}',
                          {'oracle': 'A1 fresh-process replay', 'history': small, 'after_history': rh, 'fresh': r0,
                           'model': [th, t0]})
    unl = [v['signature'] for v in chk.violations]
    chk.obligation('A1:Lib/Api.v predicts every in-history result (explicit evaluation of T_h in a fresh process)',
                   'correspondence', not any(x.startswith('corr:api-model') for x in unl), f'{n_model_bad} mismatches')
    chk.obligation('A1:no history dependence that the model does not predict', 'oracle',
                   not any(x.startswith('history:unexplained') for x in unl))
    chk.obligation('A1:every call returns what it returns in a fresh process (up to the recorded findings)', 'oracle',
                   not any(x.startswith('history:') for x in unl))
    chk.sample({'history': histories[0], 'in_process': [val_of(r) for r in in_proc[0]][:3]})
    chk.sample({'model_request': reqs2[0][:400], 'model_reply': str(second[0])[:400]})

    # a sample of the references re-done in brand new interpreters (no zygote, no fork)
    nfresh = 6 if chk.quick else 60
    pick = sorted(keys)[:: max(1, len(keys) // nfresh)][:nfresh]
    with ThreadPoolExecutor(max_workers=6) as ex:
        outs = list(ex.map(lambda k: oneshot(fresh_scripts[k])[-1], pick))
    bad = [(k, a, fresh_res[k]) for k, a in zip(pick, outs) if a != fresh_res[k]]
    chk.obligation('A1:forked-zygote references agree with brand new interpreters (sample)', 'oracle', not bad,
                   str(bad[:1])[:800])
    chk.count('A1.new_interpreter_references', len(pick))


def _subst_vars(sxs, ok):
    """(parsevar v ..): v counts the compiles that succeeded before (the model binds a variable on success only).
    ok[j] = model outcome of request j from a first run (None: assume all succeed)."""
    out = []
    import re
    bound = {}
    n = 0
    for j, s in enumerate(sxs):
        if s.startswith('(parsevar '):
            m = re.match(r"\(parsevar @(\d+) (.*)$", s)
            jj = int(m.group(1))
            v = bound.get(jj, 9999)
            out.append(f'(parsevar {v} {m.group(2)}')
        else:
            out.append(s)
            if s.startswith('(compile ') and (ok is None or ok[j]):
                bound[j] = n
                n += 1
    return out


_SHRUNK: set = set()


def shrink_history(pool: Pool, h, i, differs, sig=None):
    """drop earlier calls while call i still differs from its fresh replay (done once per signature: only the first
    occurrence of a signature is stored in the replay file)"""
    if sig is not None:
        if sig in _SHRUNK:
            return list(h[:i + 1])
        _SHRUNK.add(sig)
    prefix = list(h[:i])
    call = h[i]
    need = {id(o) for o in self_contained(h, i)}
    fresh = pool.map([self_contained(h, i)])[0][-1]
    changed = True
    budget = 40
    while changed and budget > 0:
        changed = False
        for j in range(len(prefix)):
            if id(prefix[j]) in need:
                continue
            cand = prefix[:j] + prefix[j + 1:]
            budget -= 1
            try:
                r = pool.map([cand + [call]])[0][-1]
            except Exception:
                continue
            if differs(r, fresh):
                prefix = cand
                changed = True
                break
    return prefix + [call]


# =============================================================================== witnesses of the Coq refutation
def replay_witnesses(chk: Check, pool: Pool, variant: str):
    plain = {'g': 2, 'name': 0, 'sem': None, 'asmodel': False, 'bopt': None, 'cs': 0}
    p = {'g': 2, 'text': 0, 'start': 0, 'ps': 0, 'sem': None, 'asmodel': False, 'cfgobj': None}
    w1 = [{'op': 'compile', 'var': 0, 'a': dict(plain, asmodel=True)}, {'op': 'cparse', 'a': plain, 'p': p}]
    w2 = [{'op': 'compile', 'var': 0, 'a': plain}, {'op': 'compile', 'var': 1, 'a': dict(plain, cs=1)}]
    w3 = [{'op': 'compile', 'var': 0, 'a': plain}, {'op': 'compile', 'var': 1, 'a': dict(plain, asmodel=True)},
          {'op': 'mparse', 'var': 0, 'p': p}]
    res = pool.map([w1, [w1[-1]], w2, [w2[-1]], w3, [w3[0], w3[2]]])
    dep = [val_of(res[0][-1]) != val_of(res[1][-1]), val_of(res[2][-1]) != val_of(res[3][-1]),
           val_of(res[4][-1]) != val_of(res[5][-1])]
    if variant == 'f':
        ok = all(dep) and 'exc' in res[3][-1] and 'exc' not in res[2][-1]
        chk.obligation('W:the three witnesses of C10_history_independent_refuted* reproduce on the code', 'correspondence',
                       ok, str(dep))
    else:
        chk.obligation('W:the witnesses of the refutation no longer reproduce (repaired compile)', 'correspondence',
                       not any(dep), str(dep))
    chk.sample({'witness1_after_history': val_of(res[0][-1]), 'witness1_fresh': val_of(res[1][-1])})


# =============================================================================== A2 deep write set
# attribute writes a first parse may perform: each is cache[k] := f k for a pure f of the grammar
ALLOWED_FIRST = {
    ('Grammar', '_optimized'),      # base.py Grammar.optimized: cached optimized copy
}
ALLOWED_FIRST_ATTRS = {'_ruleinfo', '_lookahead', '_firstset', '_follow_set', 'lookaheadlist', 'expecting',
                       'expectingstr', '_nullable', 'defines_single', 'defines_list', '_optimized', '_registry'}


def run_writeset(chk: Check, pool: Pool):
    rng = chk.rng
    scripts = []
    n = 30 if chk.quick else 300
    for _ in range(n):
        a = gen_cargs(rng)
        a['cs'] = 0 if a['cs'] in (1, 4) else a['cs']
        p1 = gen_pargs(rng, a['g'])
        p2 = gen_pargs(rng, a['g'])
        for p in (p1, p2):
            p['cfgobj'] = None
        scripts.append([{'op': 'writeset', 'a': a, 'p1': p1, 'p2': p2}])
    # the grammars that are not in the optimizer's normal form: the first parse builds the rewritten copy, which shares
    # nodes and containers with the model
    for g in SHAPE_GRAMS:
        for asmodel in (False, True):
            a = {'g': g, 'name': 0, 'sem': None, 'asmodel': asmodel, 'bopt': None, 'cs': 0}
            p1, p2 = ({'g': g, 'text': tx, 'start': 0, 'ps': 0, 'sem': None, 'asmodel': False, 'cfgobj': None}
                      for tx in rng.sample(range(NTEXT[g]), 2))
            scripts.append([{'op': 'writeset', 'a': a, 'p1': p1, 'p2': p2}])
    res = [r[-1] for r in pool.map(scripts)]
    bad_first = bad_later = bad_pub = bad_rep = 0
    for sc, r in zip(scripts, res):
        chk.case('writeset:' + json.dumps(sc, sort_keys=True))
        chk.count('A2.writeset_cases')
        if 'exc' in r:
            chk.count('A2.compile_failed')
            continue
        if any('exc' in x for x in r['results']):
            chk.count('A2.with_failed_parse')
        unexpected = [w for w in r['first'] if w[1] not in ALLOWED_FIRST_ATTRS]
        if unexpected:
            bad_first += 1
            chk.violation('writeset:first-parse:' + '+'.join(sorted({f'{c}.{a}' for c, a, _ in unexpected}))[:120],
                          f'the first parse wrote attributes outside the modelled cache set: {unexpected[:6]}',
                          {'oracle': 'A2 deep write set', 'script': sc, 'writes': r['first']})
        # the second parse (another text) may fill the caches of nodes it is the first to visit; the third parse
        # repeats the first one: everything it needs is cached, it must not write anything
        later = [w for w in r['second'] if w[1] not in ALLOWED_FIRST_ATTRS] + r['third']
        if later:
            bad_later += 1
            chk.violation('writeset:later-parse:' + '+'.join(sorted({f'{c}.{a}' for c, a, _ in later}))[:120],
                          f'a parse on a warmed-up model still writes to the model: {later[:6]}',
                          {'oracle': 'A2 deep write set', 'script': sc, 'writes': later})
        if r['public_changed']:
            bad_pub += 1
            chk.violation('writeset:public-model-changed', 'asjson(model) / model.config changed across parses',
                          {'oracle': 'A2 deep write set', 'script': sc})
        if not r['repeat_equal']:
            bad_rep += 1
            chk.violation('history:same-model-repeat', 'the same parse on the same model returned something else the second '
                          'time (another parse, possibly failed, in between)',
                          {'oracle': 'A2 repeat', 'script': sc, 'results': r['results']})
    chk.obligation('A2:first parse writes only modelled caches; a repeated parse writes nothing; public model unchanged',
                   'oracle', not any(v['signature'].startswith(('writeset:', 'history:same-model-repeat'))
                                     for v in chk.violations))
    if res:
        chk.sample({'writeset_first_parse': next((r['first'] for r in res if 'first' in r and r['first']), [])[:8]})


# =============================================================================== threads
def run_threads(chk: Check, pool: Pool):
    rng = chk.rng
    scripts = []
    n = 10 if chk.quick else 60
    for j in range(n):
        cold = j % 2 == 1
        a = gen_cargs(rng)
        a['cs'] = 0
        if j % 4 == 1:
            a['sem'] = None
            a['asmodel'] = True      # model building: synthesized classes are created during the parse
        nthreads = rng.choice([3, 4, 6])
        calls = []
        for _ in range(nthreads):
            p = gen_pargs(rng, a['g'])
            p['cfgobj'] = None
            if j % 3 == 2:
                # every parse of every thread builds its own semantics object and drops it after the parse
                p['sem'] = eph_id(rng, len(calls))
            calls.append(p)
        scripts.append([{'op': 'threads', 'a': a, 'calls': calls, 'cold': cold, 'rounds': 4 if cold else 2,
                         'reps': 3 if cold else 12}])
    # forced preemption: the first parses on a cold model whose type names nobody has used yet, the threads driven in
    # lock step through every function that touches state they share (see LockStep in the worker)
    nl = 6 if chk.quick else 40
    for j in range(nl):
        g = TYPED_GRAMS[j % len(TYPED_GRAMS)] if j % 5 != 4 else rng.choice(GRAMS)
        a = {'g': g, 'name': rng.choice([0, 0, 1]), 'sem': None, 'asmodel': False, 'bopt': None, 'cs': 0}
        how = j % 4
        if how in (0, 1):
            a['asmodel'] = True                      # the model's own builder semantics, shared by the threads
        elif how == 2:
            a['bopt'] = rng.choice([1, 2])           # builder with a base type
        else:
            a['sem'] = rng.choice([4, 5])            # ONE ModelBuilderSemantics object given by the caller
        nthreads = rng.choice([2, 3, 4, 6])
        calls = []
        for _ in range(nthreads):
            p = gen_pargs(rng, g)
            p.update(cfgobj=None, ps=0, sem=None, asmodel=False)
            if rng.random() < 0.7:
                p['start'] = 0
                p['text'] = rng.randrange(min(2, NTEXT[g]))     # texts that parse: nodes are built
            calls.append(p)
        scripts.append([{'op': 'threads', 'a': a, 'calls': calls, 'cold': True, 'rounds': 2, 'reps': 2,
                         'fresh_types': True, 'tcompile': j % 3 == 2,
                         'lockstep': {'visits': rng.choice([2, 3]), 'timeout': 0.003}}])
    # forced preemption, second kind: one thread AHEAD of the others.  The leader makes the first call on a cold model
    # and is stopped before the first execution of every distinct line of the functions that build state of the model
    # after its construction; the followers each make a complete call in every such window (see Stagger in the worker).
    # Mostly over the seed-generated left-recursive grammars: what their parses return depends on the flags the
    # left-recursion analysis leaves on the rules of the optimized copy and on the rule infos cached from them.
    srng = _random.Random(f'{PID}-{chk.seed}-stagger')
    ns = 8 if chk.quick else 48
    for j in range(ns):
        g = LREC_GRAMS[j % len(LREC_GRAMS)] if j % 4 != 3 else srng.choice(TYPED_GRAMS + [6, 1])
        a = {'g': g, 'name': srng.choice([0, 0, 1]), 'sem': None, 'asmodel': False, 'bopt': None, 'cs': 0}
        how = srng.randrange(4)
        if how == 1 or (g in TYPED_GRAMS + [15] and how == 2):
            a['asmodel'] = True
        elif how == 2:
            a['sem'] = srng.choice([1, 2, 3])        # a user semantics object shared by the threads
        elif how == 3 and g in TYPED_GRAMS + [15]:
            a['bopt'] = srng.choice([1, 2])
        calls = []
        for k in range(srng.choice([2, 2, 3, 4])):
            pa = gen_pargs(srng, g)
            pa.update(cfgobj=None, sem=None, asmodel=False, ps=srng.choice([0, 0, 0, 5, 6]))
            if srng.random() < 0.8:
                pa['start'] = 0
                pa['text'] = srng.randrange(min(3, NTEXT[g]))     # texts that parse, several operators
            calls.append(pa)
        scripts.append([{'op': 'threads', 'a': a, 'calls': calls, 'cold': True, 'fresh_types': True,
                         'tcompile': j % 4 == 2,
                         'stagger': {'max_pauses': 300 if j % 4 != 2 else 60, 'timeout': 0.25, 'poll': 0.001,
                                     'patience': 3, 'stride': 6 if chk.quick else 2, 'offset': j, 'max_single': 80,
                                     'seed': srng.randrange(1 << 30)}}])
    res = [r[-1] for r in pool.map(scripts)]
    nbad = 0
    for sc, r in zip(scripts, res):
        chk.case('threads:' + json.dumps(sc, sort_keys=True))
        chk.count('T.thread_scripts')
        if sc[0].get('lockstep'):
            chk.count('T.lockstep_scripts')
            for k, v in (r.get('lockstep') or {}).items():
                LOCKSTEP_TOTAL[k] = LOCKSTEP_TOTAL.get(k, 0) + v
        if sc[0].get('stagger'):
            chk.count('T.stagger_scripts')
            chk.count('T.stagger_scripts.grammar.%s' % ('left-recursive' if sc[0]['a']['g'] in LREC_GRAMS + [6] else 'other'))
            for k, v in (r.get('stagger') or {}).items():
                STAGGER_TOTAL[k] = STAGGER_TOTAL.get(k, 0) + v
        if 'exc' in r:
            chk.count('T.compile_failed')
            continue
        chk.count('T.threaded_parses', r['n'])
        if r['nbad']:
            nbad += 1
            b = r['bad'][0]
            cold = sc[0]['cold']
            if cold and b['got'].get('exc') == 'TypeResolutionError' and b['want'].get('exc') != 'TypeResolutionError':
                sig = 'threads:synthesize-race:TypeResolutionError'
            elif cold and b['got'].get('exc') in ('RuntimeError', 'TypeError') and b['want'].get('exc') != b['got'].get('exc'):
                sig = 'threads:cold-optimize-race:' + b['got']['exc']
            else:
                sig = 'threads:result-differs:' + (b['got'].get('exc') or 'value')
            chk.violation(sig, f'a parse on a model shared by {len(sc[0]["calls"])} threads returned {json.dumps(b["got"])[:120]} '
                               f'instead of its sequential result {json.dumps(b["want"])[:120]}',
                          {'oracle': 'threads vs sequential', 'script': sc, 'bad': r['bad'], 'nbad': r['nbad']})
        if r.get('later'):
            b = r['later'][0]
            chk.violation('threads:later-sequential-differs:' + (b['got'].get('exc') or 'value'),
                          f'after {len(sc[0]["calls"])} threads made the first calls on a shared model, a sequential parse on '
                          f'that model returns {json.dumps(b["got"])[:120]}; on a model of its own the call returns '
                          f'{json.dumps(b["want"])[:120]}',
                          {'oracle': 'threads: later sequential parse on the shared model vs a private model',
                           'script': sc, 'bad': r['later']})
        if r.get('idbad'):
            b = r['idbad'][0]
            chk.violation('threads:two-classes-of-one-name',
                          f'parses on a model shared by {len(sc[0]["calls"])} threads returned nodes of '
                          f'{b["distinct_objects"]} different classes that are all named {b["class"]!r}',
                          {'oracle': 'threads: one class object per type name', 'script': sc, 'bad': r['idbad']})
    chk.obligation('T:the forced-preemption driver found the shared-state functions and brought the threads together in them',
                   'oracle', LOCKSTEP_TOTAL.get('watched_functions', 0) > 0 and LOCKSTEP_TOTAL.get('all_arrived', 0) > 0,
                   json.dumps(LOCKSTEP_TOTAL))
    chk.obligation('T:the one-thread-ahead driver found the functions that build model state after construction, stopped '
                   'the leader inside them and the followers made complete calls meanwhile', 'oracle',
                   STAGGER_TOTAL.get('state_functions', 0) > 0 and STAGGER_TOTAL.get('windows_in_state_functions', 0) > 0
                   and STAGGER_TOTAL.get('windows_lock_held', 0) > 0 and STAGGER_TOTAL.get('served', 0) > 0,
                   json.dumps(STAGGER_TOTAL))
    chk.obligation('T:threaded results equal sequential results (up to the recorded findings)', 'oracle',
                   not any(v['signature'].startswith('threads:') for v in chk.violations), f'{nbad} scripts differ')


def main():
    chk = Check(PID)
    extra = gen_siblings(chk.rng)
    fam = gen_regex_family(chk.rng)
    extra['grammars'].update(fam['grammars'])
    extra['texts'].update(fam['texts'])
    extra['settings'] = fam['settings']
    lfam = gen_leftrec_family(_random.Random(f'{PID}-{chk.seed}-leftrec'))
    extra['grammars'].update(lfam['grammars'])
    extra['texts'].update(lfam['texts'])
    chk.extra['leftrec_family'] = lfam['describe']
    sfam = gen_shape_family(_random.Random(f'{PID}-{chk.seed}-shapes'))
    extra['grammars'].update(sfam['grammars'])
    extra['texts'].update(sfam['texts'])
    chk.extra['shape_family'] = sfam['describe']
    chk.extra['regex_form_family'] = fam['describe']
    cfam = gen_const_family(_random.Random(f'{PID}-{chk.seed}-const-family'))
    extra['grammars'].update(cfam['grammars'])
    extra['texts'].update(cfam['texts'])
    extra['contexts'] = cfam['contexts']
    chk.extra['constant_expression_family'] = cfam['describe']
    OWN_FAMILY.update(gen_owned_family(_random.Random(f'{PID}-{chk.seed}-owned-family')))
    extra['owned'] = dict(OWN_FAMILY)
    chk.extra['owned_builder_containers'] = dict(OWN_FAMILY)
    EXTRA_ENV['json'] = json.dumps(extra, sort_keys=True)
    chk.rule = ('A1: random histories (2..8 calls quick, 2..12 thorough) of compile / model.parse / compile+parse / '
                'tatsu.parse / to_python_sourcecode / generated parser construction and parse (parser objects get asmodel=, '
                'config=, semantics=, settings, start like model.parse), focused on 1-2 of 9 grammars so that cache keys '
                'collide (6 fixed + 3 seed-generated siblings whose constants / rule parameters are == scalars of different '
                'types), with names, 8 semantics objects (incl. typed-scalar producing actions and two objects that compare '
                'equal), 5 builder options, 7 settings (one invalid, one that breaks the bootstrap parse), caller-owned '
                'ParserConfig objects shared by the calls of a history, start rules and texts incl. failing ones, plus directed '
                'histories around the Coq witnesses, the sibling grammars and the equal semantics objects; histories and '
                'thread scripts whose calls build a semantics object for that call only and drop it (8 classes: no applicable '
                'action / bound / static / class methods / __getattr__ functions / _default only / partial), the worker '
                'choosing the address of a finalised semantics object for a new one whenever one is free; every call compared '
                'TYPE-EXACTLY with a fresh process and with Lib/Api.v; write set of every configuration object a call sees; '
                '20 % of the histories and 30 directed ones over 3 seed-generated grammars / 6 settings that carry ONE pattern '
                'text per regex-valued setting (whitespace, comments, eol_comments) in several forms: plain string, precompiled, '
                'precompiled with flags that change the match, @@directive, /pattern/ of a rule. '
                'A2: deep attribute write set of 3 parses on one model. T: 3-6 threads on one shared model (warm and cold), '
                'plus 6 (40 thorough) scripts of 2-6 threads making the first parses on a cold model with type names new to the '
                'process (asmodel / basetype / a shared ModelBuilderSemantics; the model shared or obtained by each thread from '
                'the module-level API), driven in lock step through every function that touches shared state (forced preemption '
                'before each line, sys.monitoring); oracles: sequential results and one class object per type name; '
                'plus 8 (48 thorough) one-thread-ahead scripts, mostly over 3 seed-generated left-recursive grammars (nested '
                'direct, indirect through 2-3 rules, typed selector chain): the leader makes the first call on a cold model and '
                'is stopped before a line of a function that builds model state after construction or runs under a library '
                'lock (found by inspection + a sequential calibration run), a new thread makes a complete call in the window '
                '(or blocks on the lock); one window per cold model at every 6th (2nd thorough) such line, the scripts sharing '
                'the lines out, plus rounds with a window at every line; every result and a later sequential parse on the '
                'shared model compared with the same call on a model no other thread touched. '
                '10 % of the histories, 12 directed histories (36 thorough) and 6 write-set scripts over 3 seed-generated '
                'grammars that are not in the normal form Grammar.optimized() produces (redundant groups, nested optionals, '
                'grouped closure / join bodies, rule-call chains, includes, leading-bar choices, parameters, directives; texts: '
                'random derivations, one cut short, one with a foreign word); the grammar model compared before / after every '
                'parse and across histories by asjson, by a walk over node classes and fields, by pretty() and pretty_lean(). '
                '27 directed + 6 random (120 thorough) histories over 3 seed-generated grammars whose constants are expressions '
                'over names that are named elements of this / another rule / another grammar, provided by safe_context() of '
                'a semantics object, or undefined; 14 directed (all sharing pairs thorough) + 8 random (150) histories over '
                'the typed grammars with 10 builder options made of containers the caller owns and reuses (typedefs lists '
                'over module / mapping / class, constructors lists, BuilderConfig objects over them, per-call '
                'ModelBuilderSemantics), with a write-set oracle over every such container around every call. '
                'Non-trivial: the call has at least one earlier call; distinct by content of the history prefix.')
    chk.trusted += ['CPython 3.12 (fork, threads, GIL), the abstraction of call arguments to Lib/Api.v identities '
                    '(harness Abstraction), sha256 injective on the pool grammars',
                    'modelled: api.compile cache + post-lookup mutation, api.parse, to_python_sourcecode, Grammar.parse '
                    'semantics precedence, bound() field discipline; not modelled: the parse itself (section variable), '
                    'synthesized-class registry (oracle only), bytecode-level atomicity (threads: sampled schedules, '
                    'line-level lock-step schedules and one-thread-ahead schedules forced with sys.monitoring; a follower '
                    'is taken to be blocked when its top frame does not move for 3 ms)']
    chk.assumptions += ['semantics objects are truthy and are not classes', 'hasha(grammar) is injective',
                        'threads: the theorem covers the cache logic; the GIL makes dict get/set atomic']
    variant = source_shape(chk)
    chk.coq()
    ok, out = vlib.build_modelrun('Api')
    chk.obligation('modelrun_Api builds', 'build', ok, out[-500:])
    if ok and variant:
        chk.extra['compile_variant'] = {'f': 'pinned (compile_f)', 'r': 'repaired (compile_r)'}[variant]
        mr = ModelRun('Api')
        pool = Pool(8)
        try:
            import time as _t
            _t0 = _t.time()
            for _f, _a in ((replay_witnesses, (chk, pool, variant)), (run_histories, (chk, pool, mr, variant)),
                           (run_writeset, (chk, pool)), (run_threads, (chk, pool))):
                _f(*_a)
                if os.environ.get('C10_TIMING'):
                    print(f'[timing] {_f.__name__}: {_t.time() - _t0:.1f}s', file=sys.stderr)
                    _t0 = _t.time()
        finally:
            pool.close()
        # how the allocator treated the short-lived semantics objects (not deterministic, informative only): as long as
        # every id()-keyed cache keeps its key object alive, objects that took part in a parse are never collected
        chk.extra['short_lived_semantics_objects'] = dict(EPH_TOTAL)
        # forced-preemption driver: rendezvous points reached / reached by all the running threads / given up after the
        # timeout (informative, timing dependent)
        chk.extra['lockstep_driver'] = dict(LOCKSTEP_TOTAL)
        chk.extra['stagger_driver'] = dict(STAGGER_TOTAL)
    chk.exhaustive = False
    return chk.finish()


if __name__ == '__main__':
    sys.exit(main())
