"""C10 - API results depend only on the arguments, not on earlier or concurrent calls.

A1  random histories of API calls (compile / model.parse / tatsu.parse / to_python_sourcecode / generated parser)
    over a pool of grammars, names, semantics objects, builder options, settings, start rules and texts
    (including parses that fail).  Every call's canonical result is compared with
      (a) the same call replayed in a process that has executed nothing else (a child forked from a zygote that
          has only imported tatsu; a sample is re-checked against brand new interpreters),
      (b) the prediction of Lib/Api.v (extracted, build/modelrun_Api): the symbolic result after the history T_h
          and from the initial state T_0.  T_h = T_0 -> the implementation must not depend on the history;
          T_h <> T_0 -> T_h is evaluated explicitly in a fresh process and must equal what the call returned.
A2  write set: a parse must not alter the grammar model (asjson) nor the configuration objects; after a warm-up
    parse a second parse writes nothing at all to any object reachable from the model (idempotent caches).
T   N threads parsing different inputs on ONE shared model under sys.setswitchinterval(1e-6) = sequential results.
"""
from __future__ import annotations

import ast
import json
import os
import subprocess
import sys
import threading
from concurrent.futures import ThreadPoolExecutor
from pathlib import Path

sys.path.insert(0, str(Path(__file__).resolve().parent.parent))
import vlib
from vlib import Check, ModelRun

PID = 'C10'

# =============================================================================== worker (runs in /repo's python)
WORKER_SRC = r'''
import sys, os, json, signal, hashlib, threading, dataclasses
import tatsu
from tatsu.util import asjson
from tatsu.objectmodel import Node, ModelBuilderSemantics
from tatsu.objectmodel.builder import BuilderConfig
from tatsu.config import ParserConfig

GRAMMARS = {
 1: """
start = {item}+ $ ;
item = word | num ;
word = /[a-z]+/ ;
num = /\\d+/ ;
""",
 2: """
start::Prog = items:{item}+ $ ;
item = pair | atom ;
pair::Pair = '(' l:atom r:atom ')' ;
atom::Atom = v:/[a-z]+/ ;
""",
 3: """
@@grammar :: Toks
start = 'begin' {stmt} 'end' $ ;
stmt::Stmt = kind:'let' name:ident | kind:'print' name:ident ;
ident = /[a-z_]+/ ;
""",
 4: """
start = a $ ;
a = 'a' {b} ;
b::Bee = 'b' x:/x*/ ;
alt::Alt = z:'z' $ ;
""",
 5: """
start::Prog::Base = first:atom rest:{atom} $ ;
atom::Atom::Leaf = n:/\\d+/ ;
""",
 6: """
@@keyword :: if then
@@left_recursion :: True
start = expr $ ;
expr = expr '+' term | term ;
@name
term = /[a-z]+/ ;
""",
}
NAMES = {0: None, 1: 'Alpha', 2: 'Beta'}
TEXTS = {
 1: ['ab 12 c', 'ab', '', 'AB 1', 'ab ! c'],
 2: ['a (b c)', '(a b) c', '(a', 'a', ''],
 3: ['begin let x print y end', 'BEGIN LET x END', 'beginletxend', 'begin end', 'begin let end'],
 4: ['a b bxx', 'z', 'b xx', 'a c', 'a'],
 5: ['1 2 3', '1', 'x', '1 x'],
 6: ['a + b + c', 'a + if', 'a +', 'if', 'a'],
}
STARTS = {0: None, 1: 'start', 2: 'a', 3: 'alt', 4: 'b', 5: 'atom', 6: 'nosuch'}
SETTINGS = {0: {}, 1: {'whitespace': ''}, 2: {'ignorecase': True}, 3: {'nameguard': False},
            4: {'bogus_setting': 1}, 5: {'parseinfo': True}, 6: {'memoization': False}}

class B1(Node):
    pass
class B2(Node):
    pass
class Ident:
    def _default(self, ast, *args, **kwargs):
        return ast
class Tag:
    def __init__(self, tag):
        self.tag = tag
    def _default(self, ast, *args, **kwargs):
        return ast
    def item(self, ast, *args, **kwargs):
        return {'tag': self.tag, 'item': ast}
    def atom(self, ast, *args, **kwargs):
        return {'tag': self.tag, 'atom': ast}
    def term(self, ast, *args, **kwargs):
        return [self.tag, ast]
    def b(self, ast, *args, **kwargs):
        return (self.tag, ast)
SEMS = {1: Ident(), 2: Tag('A'), 3: Tag('B'), 4: ModelBuilderSemantics(), 5: ModelBuilderSemantics(basetype=B1)}
def bopt(i):
    # builder options; each triggers model building on its own (api.compile: basetype / builderconfig / ...)
    if i is None: return {}
    if i == 1: return {'basetype': B1}
    if i == 2: return {'basetype': B2}
    if i == 3: return {'basetype': B1, 'synthok': False}
    if i == 4: return {'builderconfig': BuilderConfig(basetype=B2)}
    if i == 5: return {'typedefs': [{'B1': B1}]}
    raise KeyError(i)

def sem_kind(s):
    if s is None: return 'none'
    for k, v in SEMS.items():
        if v is s: return 'user:%d' % k
    if isinstance(s, ModelBuilderSemantics):
        c = s.config
        return 'builder:%s:%s' % (getattr(c.basetype, '__name__', c.basetype), len(c.constructors or []))
    return 'other:' + type(s).__name__

def jdump(x):
    return json.dumps(x, sort_keys=True, default=lambda o: '<' + type(o).__name__ + '>')

def collect_types(x, out, seen, depth=0):
    if depth > 40 or id(x) in seen: return
    if isinstance(x, (str, bytes, int, float, bool, type(None))): return
    seen.add(id(x))
    if isinstance(x, dict):
        for v in list(x.values()): collect_types(v, out, seen, depth + 1)
    elif isinstance(x, (list, tuple, set, frozenset)):
        for v in list(x): collect_types(v, out, seen, depth + 1)
    elif hasattr(x, '__dict__') and not isinstance(x, type):
        mro = [c.__name__ for c in type(x).__mro__]
        if 'BaseNode' in mro:
            out[type(x).__name__] = mro
            for k, v in list(vars(x).items()):
                if not k.startswith('_') and k not in ('parseinfo', 'ctx'):
                    collect_types(v, out, seen, depth + 1)

def canon_ok(x):
    try:
        j = json.loads(jdump(asjson(x)))
    except Exception as e:
        j = {'asjson-raises': type(e).__name__}
    types = {}
    collect_types(x, types, set())
    return {'ok': j, 'pytype': type(x).__name__, 'types': types}

def canon_exc(e):
    r = {'exc': type(e).__name__}
    pos = getattr(e, 'pos', None)
    if isinstance(pos, int): r['pos'] = pos
    return r

def canon_model(m):
    try:
        dig = hashlib.sha256(jdump(asjson(m)).encode()).hexdigest()[:16]
    except Exception as e:
        dig = 'asjson-raises-' + type(e).__name__
    return {'ok': 'model', 'pytype': type(m).__name__, 'name': getattr(m, 'name', None),
            'rules': [r.name for r in getattr(m, 'rules', ())], 'sem': sem_kind(getattr(m, 'semantics', None)),
            'digest': dig, 'types': {}}

def cfg_snapshot(c):
    if c is None: return None
    d = c.asdict()
    d['semantics'] = sem_kind(d.get('semantics'))
    return jdump(d)

def model_snapshot(m):
    return (jdump(asjson(m)), cfg_snapshot(m.config), m.name, [r.name for r in m.rules])

def compile_kwargs(a):
    kw = dict(SETTINGS[a['cs']])
    if a.get('sem'): kw['semantics'] = SEMS[a['sem']]
    if a.get('asmodel'): kw['asmodel'] = True
    kw.update(bopt(a.get('bopt')))
    return kw

def do_compile(a):
    return tatsu.compile(GRAMMARS[a['g']], name=NAMES[a['name']], **compile_kwargs(a))

def build_sem(s):
    if s is None or s == 'none': return None
    if s[0] == 'user': return SEMS[s[1]]
    if s[0] == 'builder':
        bo = bopt(s[1])
        return ModelBuilderSemantics(config=BuilderConfig.new(
            config=bo.get('builderconfig'), synthok=bo.get('synthok', True), basetype=bo.get('basetype'),
            typedefs=bo.get('typedefs'), constructors=bo.get('constructors')))
    raise KeyError(s)

class Env:
    def __init__(self):
        self.models = {}
        self.sources = {}
        self.parsers = {}

def find_parser_class(ns):
    from tatsu.parsing import Parser
    cands = [v for k, v in ns.items() if isinstance(v, type) and issubclass(v, Parser) and v is not Parser
             and k.endswith('Parser')]
    return cands[0]

def mparse_call(m, p, extra=None):
    g = p['g']
    kw = dict(SETTINGS[p['ps']])
    if STARTS[p['start']] is not None: kw['start'] = STARTS[p['start']]
    if p.get('sem'): kw['semantics'] = SEMS[p['sem']]
    if p.get('asmodel'): kw['asmodel'] = True
    if extra: kw.update(extra)
    return m.parse(TEXTS[g][p['text']], **kw)

def run_op(env, op):
    k = op['op']
    if k == 'compile':
        m = do_compile(op['a'])
        env.models[op['var']] = m
        return canon_model(m)
    if k in ('mparse', 'cparse'):
        if k == 'cparse':
            m = do_compile(op['a'])
        else:
            if op['var'] not in env.models:
                return {'exc': 'UNBOUND'}
            m = env.models[op['var']]
        before = model_snapshot(m)
        cfgobj = None
        extra = None
        if op['p'].get('cfgobj'):
            cfgobj = ParserConfig(**SETTINGS[op['p']['cfgobj']])
            extra = {'config': cfgobj}
        cfg_before = cfg_snapshot(cfgobj)
        try:
            r = canon_ok(mparse_call(m, op['p'], extra))
        except Exception as e:
            r = canon_exc(e)
        after = model_snapshot(m)
        if before != after:
            r['mutated'] = [n for n, x, y in zip(('asjson', 'config', 'name', 'rules'), before, after) if x != y]
        if cfg_before != cfg_snapshot(cfgobj):
            r['mutated'] = r.get('mutated', []) + ['config-argument']
        return r
    if k == 'tparse':
        t = op['t']
        kw = dict(SETTINGS[t['ts']])
        if STARTS[t['start']] is not None: kw['start'] = STARTS[t['start']]
        if NAMES[t['name']] is not None: kw['name'] = NAMES[t['name']]
        if t.get('sem'): kw['semantics'] = SEMS[t['sem']]
        if t.get('asmodel'): kw['asmodel'] = True
        kw.update(bopt(t.get('bopt')))
        return canon_ok(tatsu.parse(GRAMMARS[t['g']], TEXTS[t['g']][t['text']], **kw))
    if k == 'gen':
        a = op['a']
        src = tatsu.to_python_sourcecode(GRAMMARS[a['g']], name=NAMES[a['name']], **SETTINGS[a['cs']])
        env.sources[op['var']] = src
        body = '\n'.join(l for l in src.split('\n') if 'generated by' not in l)
        return {'ok': 'source', 'digest': hashlib.sha256(body.encode()).hexdigest()[:16], 'types': {}}
    if k == 'mkparser':
        if op['src'] not in env.sources:
            return {'exc': 'UNBOUND'}
        ns = {'__name__': 'genparser_' + str(op['src'])}
        exec(compile(env.sources[op['src']], '<generated>', 'exec'), ns)
        cls = find_parser_class(ns)
        kw = dict(SETTINGS[op['cs']])
        if op.get('sem'): kw['semantics'] = SEMS[op['sem']]
        env.parsers[op['var']] = cls(**kw)
        return {'ok': 'parser', 'cls': cls.__name__, 'types': {}}
    if k == 'pparse':
        if op['var'] not in env.parsers:
            return {'exc': 'UNBOUND'}
        p = op['p']
        kw = dict(SETTINGS[p['ps']])
        if STARTS[p['start']] is not None: kw['start'] = STARTS[p['start']]
        if p.get('sem'): kw['semantics'] = SEMS[p['sem']]
        return canon_ok(env.parsers[op['var']].parse(TEXTS[p['g']][p['text']], **kw))
    if k == 'explicit':
        # evaluate a symbolic result of Lib/Api.v: (val gm sem rest) / (gen gm) / (model gm sem)
        gm = op['gm']
        m = tatsu.compile(GRAMMARS[gm['g']], name=NAMES[gm['name']], **SETTINGS[gm['cs']])
        if op['kind'] == 'gen':
            from tatsu.ngcodegen.ngparser_gen import pythongen
            src = pythongen(m)
            body = '\n'.join(l for l in src.split('\n') if 'generated by' not in l)
            return {'ok': 'source', 'digest': hashlib.sha256(body.encode()).hexdigest()[:16], 'types': {}}
        S = build_sem(op['sem'])
        if op['kind'] == 'model':
            if S is not None: m.semantics = S
            return canon_model(m)
        r = op['rest']
        if r['route'] == 'm':
            kw = dict(SETTINGS[r['ps']])
            if STARTS[r['start']] is not None: kw['start'] = STARTS[r['start']]
            if S is not None: kw['semantics'] = S
            if r.get('cfgobj'): kw['config'] = ParserConfig(**SETTINGS[r['cfgobj']])
            return canon_ok(m.parse(TEXTS[gm['g']][r['text']], **kw))
        else:
            tsem = SEMS[r['sem']] if r.get('sem') else None
            config = ParserConfig.new(config=None, start=STARTS[r['start']], name=NAMES[r['name']], source=None,
                                      semantics=tsem, **SETTINGS[r['ts']])
            config.semantics = S
            return canon_ok(m.parse(TEXTS[gm['g']][r['text']], start=STARTS[r['start']], semantics=tsem,
                                    config=config))
    if k == 'writeset':
        return op_writeset(op)
    if k == 'threads':
        return op_threads(op)
    raise KeyError(k)

# ---- A2: deep write set
def deep_objects(root):
    """every object with a __dict__ reachable from the model through attributes / containers (not classes,
    modules, functions), with the path it was found at"""
    import types as _t
    out, seen, stack = [], set(), [(root, 'model')]
    while stack:
        x, path = stack.pop()
        if id(x) in seen or isinstance(x, (str, bytes, int, float, bool, type(None), type, _t.ModuleType,
                                            _t.FunctionType, _t.MethodType, _t.BuiltinFunctionType)):
            continue
        seen.add(id(x))
        if isinstance(x, dict):
            for kk, v in list(x.items()): stack.append((v, path + '[' + repr(kk)[:20] + ']'))
        elif isinstance(x, (list, tuple, set, frozenset)):
            for i, v in enumerate(list(x)): stack.append((v, path + '[%d]' % i))
        elif hasattr(x, '__dict__'):
            mod = getattr(type(x), '__module__', '')
            if mod.startswith('tatsu') or mod == '__main__':
                out.append((path, x))
                for kk, v in list(vars(x).items()): stack.append((v, path + '.' + kk))
            import weakref
        if isinstance(x, __import__('weakref').ref):
            pass
    return out

def shallow(v):
    if isinstance(v, (str, bytes, int, float, bool, type(None))): return repr(v)
    if isinstance(v, (list, tuple)) and not hasattr(v, '_fields'): return type(v).__name__ + '[' + ','.join(shallow(i) for i in v) + ']'
    if isinstance(v, (set, frozenset)): return type(v).__name__ + '{' + ','.join(sorted(shallow(i) for i in v)) + '}'
    if isinstance(v, dict): return 'dict{' + ','.join(sorted(repr(k) + ':' + shallow(x) for k, x in v.items())) + '}'
    if isinstance(v, tuple) and hasattr(v, '_fields'): return type(v).__name__ + '(' + ','.join(shallow(i) for i in v) + ')'
    return '<%s>' % type(v).__name__

def deep_snapshot(root):
    snap = {}
    for path, x in deep_objects(root):
        snap[id(x)] = (path, type(x).__name__, {k: shallow(v) for k, v in vars(x).items()})
    return snap

def snap_diff(a, b):
    """attribute writes between two snapshots: (class, attr, kind)"""
    out = []
    for oid, (path, cls, attrs) in b.items():
        if oid not in a:
            continue          # object became reachable through a new attribute: reported at that attribute
        old = a[oid][2]
        for k, v in attrs.items():
            if k not in old: out.append([cls, k, 'added'])
            elif old[k] != v: out.append([cls, k, 'changed'])
        for k in old:
            if k not in attrs: out.append([cls, k, 'deleted'])
    return sorted(map(list, set(map(tuple, out))))

def op_writeset(op):
    m = do_compile(op['a'])
    pub0 = model_snapshot(m)
    s0 = deep_snapshot(m)
    outs = []
    def one(p):
        try: return canon_ok(mparse_call(m, p))
        except Exception as e: return canon_exc(e)
    outs.append(one(op['p1']))
    s1 = deep_snapshot(m)
    pub1 = model_snapshot(m)
    outs.append(one(op['p2']))
    s2 = deep_snapshot(m)
    outs.append(one(op['p1']))
    s3 = deep_snapshot(m)
    pub3 = model_snapshot(m)
    return {'ok': 'writeset', 'first': snap_diff(s0, s1), 'second': snap_diff(s1, s2), 'third': snap_diff(s2, s3),
            'public_changed': pub0 != pub1 or pub1 != pub3, 'results': outs, 'repeat_equal': outs[0] == outs[2],
            'types': {}}

# ---- threads
def op_threads(op):
    sys.setswitchinterval(1e-6)
    calls = op['calls']
    def one(m, p):
        try: return canon_ok(mparse_call(m, p))
        except Exception as e: return canon_exc(e)
    m = do_compile(op['a'])
    seq = None
    if not op['cold']:
        seq = [one(m, p) for p in calls]
    rounds = []
    for _ in range(op['rounds']):
        if op['cold']:
            # a model nobody has parsed with yet: all caches (optimized copy, rule infos, synthesized classes) cold
            import tatsu.api.api as _api
            for v in vars(_api).values():
                if isinstance(v, dict) and v and all(isinstance(k, tuple) for k in v): v.clear()
            m = do_compile(op['a'])
        res = [None] * len(calls)
        bar = threading.Barrier(len(calls))
        def w(i):
            bar.wait()
            acc = []
            for _ in range(op['reps']):
                acc.append(one(m, calls[i]))
            res[i] = acc
        ts = [threading.Thread(target=w, args=(i,)) for i in range(len(calls))]
        for t in ts: t.start()
        for t in ts: t.join()
        rounds.append(res)
    if seq is None:
        seq = [one(m, p) for p in calls]
    bad = []
    for rn, res in enumerate(rounds):
        for i, acc in enumerate(res):
            for r in acc:
                if r != seq[i]:
                    bad.append({'thread': i, 'round': rn, 'got': r, 'want': seq[i]})
    return {'ok': 'threads', 'bad': bad[:5], 'nbad': len(bad), 'n': sum(len(a) for res in rounds for a in res),
            'seq': seq, 'types': {}}

def run_script(script):
    env = Env()
    out = []
    for op in script:
        try:
            out.append(run_op(env, op))
        except BaseException as e:
            if isinstance(e, (KeyboardInterrupt, SystemExit)): raise
            out.append(canon_exc(e))
    return out

def child(script, wfd):
    try:
        dn = os.open(os.devnull, os.O_WRONLY)
        os.dup2(dn, 1); os.dup2(dn, 2)
        signal.alarm(120)
        data = json.dumps(run_script(script))
    except BaseException as e:
        data = json.dumps({'worker-error': type(e).__name__ + ': ' + str(e)[:300]})
    with os.fdopen(wfd, 'w') as f:
        f.write(data)
    os._exit(0)

def main():
    if len(sys.argv) > 1 and sys.argv[1] == 'oneshot':
        # brand new interpreter: one script, no fork
        script = json.loads(sys.stdin.readline())
        real = os.dup(1)
        dn = os.open(os.devnull, os.O_WRONLY)
        os.dup2(dn, 1); os.dup2(dn, 2)
        data = json.dumps(run_script(script))
        os.write(real, (data + '\n').encode())
        return
    out = os.fdopen(os.dup(1), 'w')
    for line in sys.stdin:
        line = line.strip()
        if not line: continue
        script = json.loads(line)
        r, w = os.pipe()
        pid = os.fork()
        if pid == 0:
            os.close(r)
            child(script, w)
        os.close(w)
        with os.fdopen(r) as f:
            data = f.read()
        os.waitpid(pid, 0)
        out.write((data or json.dumps({'worker-error': 'no reply (killed?)'})) + '\n')
        out.flush()

main()
'''


class Zygote:
    """A process that has imported tatsu and executed nothing else; every script runs in a fork of it."""

    def __init__(self):
        self.p = subprocess.Popen([sys.executable, '-c', WORKER_SRC], stdin=subprocess.PIPE, stdout=subprocess.PIPE,
                                  stderr=subprocess.DEVNULL, text=True, env=vlib.repo_python_env(), cwd='/')
        self.lock = threading.Lock()

    def run(self, script):
        with self.lock:
            self.p.stdin.write(json.dumps(script) + '\n')
            self.p.stdin.flush()
            line = self.p.stdout.readline()
        if not line:
            raise RuntimeError('zygote died')
        r = json.loads(line)
        if isinstance(r, dict) and 'worker-error' in r:
            raise RuntimeError('worker: ' + r['worker-error'])
        return r

    def close(self):
        try:
            self.p.stdin.close()
            self.p.wait(timeout=10)
        except Exception:
            self.p.kill()


class Pool:
    def __init__(self, n=8):
        self.zs = [Zygote() for _ in range(n)]
        self.ex = ThreadPoolExecutor(max_workers=n)

    def map(self, scripts):
        n = len(self.zs)
        futs = [self.ex.submit(self.zs[i % n].run, s) for i, s in enumerate(scripts)]
        return [f.result() for f in futs]

    def close(self):
        self.ex.shutdown(wait=False)
        for z in self.zs:
            z.close()


def oneshot(script):
    p = subprocess.run([sys.executable, '-c', WORKER_SRC, 'oneshot'], input=json.dumps(script) + '\n',
                       stdout=subprocess.PIPE, stderr=subprocess.DEVNULL, text=True, env=vlib.repo_python_env(),
                       cwd='/', timeout=300)
    return json.loads(p.stdout.strip().split('\n')[-1])


# =============================================================================== source shape (which compile?)
def source_shape(chk: Check) -> str | None:
    """Decide which compile Lib/Api.v models (compile_f: pinned commit, compile_r: repaired) from the code, fail closed."""
    src = (vlib.REPO / 'tatsu/api/api.py').read_text()
    tree = ast.parse(src)
    fns = {n.name: n for n in tree.body if isinstance(n, ast.FunctionDef)}
    variant = None
    detail = ''
    comp = fns.get('compile')
    if comp is not None:
        keys = [n for n in ast.walk(comp)
                if ((isinstance(n, ast.Assign) and len(n.targets) == 1 and isinstance(n.targets[0], ast.Name)
                     and n.targets[0].id == 'key')
                    or (isinstance(n, ast.AnnAssign) and isinstance(n.target, ast.Name) and n.target.id == 'key'))
                and isinstance(n.value, ast.Tuple) and len(n.value.elts) > 2]
        sem_assign = [n for n in ast.walk(comp) if isinstance(n, ast.Assign) and isinstance(n.targets[0], ast.Attribute)
                      and n.targets[0].attr == 'semantics']
        if len(keys) == 1:
            elts = [ast.unparse(e) for e in keys[0].value.elts]
            detail = f'key = {elts}; {len(sem_assign)} semantics assignments'
            miss_only = all(_inside_miss_branch(comp, n) for n in sem_assign)
            if elts == ['name', 'hasha(grammar)', 'id(semantics)'] and len(sem_assign) == 2 and not miss_only:
                variant = 'f'
            elif elts[:3] == ['name', 'hasha(grammar)', 'id(semantics)'] and 'asmodel' in elts \
                    and any('settings' in e for e in elts) and miss_only:
                variant = 'r'
    chk.obligation('T1:api.compile cache key / mutation shape is one of the two modelled', 'translator',
                   variant is not None, detail)
    # api.parse and to_python_sourcecode: how they call compile
    ok2 = False
    d2 = ''
    par = fns.get('parse')
    gen = fns.get('to_python_sourcecode')
    if par is not None and gen is not None:
        calls = [n for n in ast.walk(par) if isinstance(n, ast.Call) and isinstance(n.func, ast.Name) and n.func.id == 'compile']
        gcalls = [n for n in ast.walk(gen) if isinstance(n, ast.Call) and isinstance(n.func, ast.Name) and n.func.id == 'compile']
        lines = [ast.unparse(n) for n in par.body]
        d2 = f'{[ast.unparse(c) for c in calls + gcalls]}'
        ok2 = (len(calls) == 1 and sorted(k.arg for k in calls[0].keywords) == ['asmodel', 'config'] and len(calls[0].args) == 1
               and len(gcalls) == 1 and sorted(k.arg for k in gcalls[0].keywords) == ['config', 'name', 'source']
               and 'config.semantics = semantics or model.semantics' in lines)
    chk.obligation('T2:api.parse / to_python_sourcecode call compile as modelled', 'translator', ok2, d2)
    # contexts: the parse never assigns self._config (premise of C10_failed_parse_leaves_no_state)
    writers = []
    for f in ('tatsu/contexts/core.py', 'tatsu/contexts/engine.py', 'tatsu/contexts/context.py', 'tatsu/parsing.py',
              'tatsu/peg/base.py'):
        t = ast.parse((vlib.REPO / f).read_text())
        for cls in [n for n in ast.walk(t) if isinstance(n, ast.ClassDef)]:
            for fn in [n for n in cls.body if isinstance(n, ast.FunctionDef)]:
                for n in ast.walk(fn):
                    tg = []
                    if isinstance(n, ast.Assign):
                        tg = n.targets
                    elif isinstance(n, (ast.AnnAssign, ast.AugAssign)):
                        tg = [n.target]
                    for x in tg:
                        if isinstance(x, ast.Attribute) and x.attr == '_config' and isinstance(x.value, ast.Name) \
                                and x.value.id == 'self':
                            writers.append(f'{f}:{cls.name}.{fn.name}')
    ok3 = set(writers) <= {'tatsu/contexts/core.py:ParserCore.__init__', 'tatsu/peg/base.py:Grammar.__init__'}
    chk.obligation('T3:self._config is assigned by __init__ only (premise body_keeps_config)', 'translator', ok3,
                   str(sorted(set(writers))))
    return variant


def _inside_miss_branch(fn, node) -> bool:
    """node sits inside the `else:`/`if .. not in cache`/`if model is None` branch that creates the model"""
    for n in ast.walk(fn):
        if isinstance(n, ast.If):
            test = ast.unparse(n.test)
            if test in ('key in cache',):
                if any(node is x for b in n.orelse for x in ast.walk(b)):
                    return True
            if test in ('model is None', 'key not in cache'):
                if any(node is x for b in n.body for x in ast.walk(b)):
                    return True
    return False


# =============================================================================== pool description (harness side)
GRAMS = [1, 2, 3, 4, 5, 6]
NTEXT = {1: 5, 2: 5, 3: 5, 4: 5, 5: 4, 6: 5}
GSTARTS = {1: [0, 0, 1, 6], 2: [0, 0, 5], 3: [0, 0, 1], 4: [0, 0, 2, 3, 4, 6], 5: [0, 0, 5], 6: [0, 0, 1]}
VALID_SETTINGS = [0, 1, 2, 3, 5, 6]
INVALID_SETTINGS = [4]
OPAQUE_BOPTS = {4, 5}     # builderconfig / typedefs objects cannot be part of a cache key


def gen_cargs(rng, g=None):
    a = {'g': g if g is not None else rng.choice(GRAMS), 'name': rng.choice([0, 0, 0, 1, 2]), 'sem': None,
         'asmodel': False, 'bopt': None, 'cs': 0}
    r = rng.random()
    if r < 0.25:
        a['sem'] = rng.choice([1, 2, 3, 4, 5])
        if rng.random() < 0.2:
            a['asmodel'] = True
    elif r < 0.45:
        a['asmodel'] = True
    elif r < 0.6:
        a['bopt'] = rng.choice([1, 2, 3, 4, 5])
        a['asmodel'] = rng.random() < 0.3
    if rng.random() < 0.25:
        a['cs'] = rng.choice([1, 2, 3, 4, 5, 6])
    return a


def gen_pargs(rng, g):
    p = {'g': g, 'text': rng.randrange(NTEXT[g]), 'start': rng.choice(GSTARTS[g]), 'ps': 0, 'sem': None,
         'asmodel': False, 'cfgobj': None}
    if rng.random() < 0.3:
        p['ps'] = rng.choice([1, 2, 3, 4, 5, 6])
    if rng.random() < 0.2:
        p['sem'] = rng.choice([1, 2, 3, 4, 5])
    if rng.random() < 0.15:
        p['asmodel'] = True
    if rng.random() < 0.15:
        p['cfgobj'] = rng.choice([1, 2, 3, 5, 6])
    return p


def gen_targs(rng):
    g = rng.choice(GRAMS)
    t = {'g': g, 'text': rng.randrange(NTEXT[g]), 'start': rng.choice(GSTARTS[g]), 'name': rng.choice([0, 0, 1]),
         'ts': 0, 'sem': None, 'asmodel': False, 'bopt': None}
    if rng.random() < 0.3:
        t['ts'] = rng.choice([1, 2, 3, 4, 5, 6])
    r = rng.random()
    if r < 0.2:
        t['sem'] = rng.choice([1, 2, 3, 4, 5])
    elif r < 0.4:
        t['asmodel'] = True
    elif r < 0.55:
        t['bopt'] = rng.choice([1, 2, 3, 4, 5])
        t['asmodel'] = rng.random() < 0.3
    return t


def gen_history(rng, maxlen):
    """A history focused on 1-2 grammars so that cache keys collide often."""
    focus = rng.sample(GRAMS, rng.choice([1, 1, 2]))
    n = rng.randint(2, maxlen)
    ops = []
    mvars, svars, pvars = [], [], []
    parser_focused = rng.random() < 0.3
    if parser_focused:
        # one generated parser OBJECT reused for many parses (state must not survive a parse, failed or not)
        g = focus[0]
        ops.append({'op': 'gen', 'var': 0, 'a': {'g': g, 'name': rng.choice([0, 1, 2]), 'cs': 0}})
        svars.append(ops[-1]['a'])
        ops.append({'op': 'mkparser', 'var': 0, 'src': 0, 'cs': rng.choice([0, 0, 0, 2, 3, 5, 6]),
                    'sem': rng.choice([None, None, 1, 2, 4])})
        pvars.append({'src': 0, 'g': g})
    for _ in range(n):
        r = rng.random()
        if parser_focused and r < 0.6:
            r = 0.95
        if r < 0.30 or (not mvars and r < 0.5):
            a = gen_cargs(rng, rng.choice(focus))
            v = len(mvars)
            mvars.append(a)
            ops.append({'op': 'compile', 'var': v, 'a': a})
        elif r < 0.55 and mvars:
            v = rng.randrange(len(mvars))
            ops.append({'op': 'mparse', 'var': v, 'p': gen_pargs(rng, mvars[v]['g'])})
        elif r < 0.65:
            a = gen_cargs(rng, rng.choice(focus))
            ops.append({'op': 'cparse', 'a': a, 'p': gen_pargs(rng, a['g'])})
        elif r < 0.80:
            t = gen_targs(rng)
            if rng.random() < 0.8:
                t['g'] = rng.choice(focus)
                t['text'] = rng.randrange(NTEXT[t['g']])
                t['start'] = rng.choice(GSTARTS[t['g']])
            ops.append({'op': 'tparse', 't': t})
        elif r < 0.86:
            a = {'g': rng.choice(focus), 'name': rng.choice([0, 1, 2]), 'cs': rng.choice([0, 0, 0, 2, 4, 5])}
            v = len(svars)
            svars.append(a)
            ops.append({'op': 'gen', 'var': v, 'a': a})
        elif r < 0.92 and svars:
            s = rng.randrange(len(svars))
            v = len(pvars)
            pvars.append({'src': s, 'g': svars[s]['g']})
            ops.append({'op': 'mkparser', 'var': v, 'src': s, 'cs': rng.choice([0, 0, 0, 2, 3, 5]),
                        'sem': rng.choice([None, None, 1, 2, 4])})
        elif pvars:
            v = rng.randrange(len(pvars))
            p = gen_pargs(rng, pvars[v]['g'])
            p['asmodel'] = False
            p['cfgobj'] = None
            ops.append({'op': 'pparse', 'var': v, 'p': p})
        else:
            a = gen_cargs(rng, rng.choice(focus))
            ops.append({'op': 'cparse', 'a': a, 'p': gen_pargs(rng, a['g'])})
    return ops


def self_contained(ops, i):
    """The script that performs call i alone: the calls that created the objects it is applied to, then the call."""
    op = ops[i]
    k = op['op']
    if k in ('compile', 'cparse', 'tparse', 'gen'):
        return [op]
    if k == 'mparse':
        c = next(o for o in ops[:i] if o['op'] == 'compile' and o['var'] == op['var'])
        return [c, op]
    if k == 'mkparser':
        s = next(o for o in ops[:i] if o['op'] == 'gen' and o['var'] == op['src'])
        return [s, op]
    if k == 'pparse':
        mk = next(o for o in ops[:i] if o['op'] == 'mkparser' and o['var'] == op['var'])
        s = next(o for o in ops[:i] if o['op'] == 'gen' and o['var'] == mk['src'])
        return [s, mk, op]
    raise KeyError(k)


# =============================================================================== abstraction to Lib/Api.v
def o2sx(x):
    return 'none' if x is None else f'(some {x})'


class Abstraction:
    def __init__(self, variant):
        self.variant = variant
        self.rests = []          # rest id -> concrete per-call data
        self.rest_ix = {}

    def rest(self, d):
        key = json.dumps(d, sort_keys=True)
        if key not in self.rest_ix:
            self.rest_ix[key] = len(self.rests)
            self.rests.append(d)
        return self.rest_ix[key]

    def cargs(self, a):
        opaque = 1 if (self.variant == 'r' and a.get('bopt') in OPAQUE_BOPTS) else 0
        return (f"({o2sx(a['name'] or None)} {a['g']} {o2sx(a.get('sem'))} {1 if a.get('asmodel') else 0} "
                f"{o2sx(a.get('bopt'))} {a['cs']} {opaque})")

    def pargs(self, p):
        r = self.rest({'route': 'm', 'start': p['start'], 'ps': p['ps'], 'text': p['text'], 'cfgobj': p.get('cfgobj')})
        return f"({o2sx(p.get('sem'))} {1 if p.get('asmodel') else 0} {r})"

    def op(self, o, mvar_index):
        k = o['op']
        if k == 'compile':
            return f"(compile {self.cargs(o['a'])})"
        if k == 'mparse':
            return f"(parsevar @{mvar_index[o['var']]} {self.pargs(o['p'])})"
        if k == 'cparse':
            return f"(cparse {self.cargs(o['a'])} {self.pargs(o['p'])})"
        if k == 'tparse':
            t = o['t']
            r = self.rest({'route': 't', 'start': t['start'], 'ts': t['ts'], 'text': t['text'], 'name': t['name'],
                           'sem': t.get('sem')})
            return (f"(tparse ({t['g']} {o2sx(t.get('sem'))} {1 if t.get('asmodel') else 0} {o2sx(t.get('bopt'))} "
                    f"{t['ts']} {r}))")
        if k == 'gen':
            a = o['a']
            return f"(gen ({o2sx(a['name'] or None)} {a['g']} none 0 none {a['cs']} 0))"
        return None


def term_to_explicit(ab: Abstraction, term):
    """symbolic result of the model -> the worker op that evaluates it in a fresh process (None for errors)"""
    def on(x):
        return None if x == 'none' else int(x[1])

    def gm(x):
        return {'name': on(x[0]) or 0, 'g': int(x[1]), 'cs': int(x[2])}

    def sem(x):
        if x == 'none':
            return 'none'
        if x[0] == 'user':
            return ['user', int(x[1])]
        return ['builder', on(x[1])]
    head = term[0]
    if head == 'err':
        return None
    if head == 'model':
        return {'op': 'explicit', 'kind': 'model', 'gm': gm(term[1]), 'sem': sem(term[2])}
    if head == 'gen':
        return {'op': 'explicit', 'kind': 'gen', 'gm': gm(term[1]), 'sem': 'none'}
    if head == 'val':
        return {'op': 'explicit', 'kind': 'val', 'gm': gm(term[1]), 'sem': sem(term[2]), 'rest': ab.rests[int(term[3])]}
    raise KeyError(head)


ERR_CLASSES = {'config': {'ValueError', 'TypeError'}, 'boot': None, 'unbound': {'UNBOUND'}}


def val_of(r):
    """the part of a canonical result Lib/Api.v speaks about (synthesized class bases are compared separately)"""
    return {k: v for k, v in r.items() if k != 'types'}


def sem_component(term):
    if term[0] == 'val' or term[0] == 'model':
        s = term[2]
        return s if isinstance(s, str) else s[0]
    return term[0] + ':' + (term[1] if isinstance(term[1], str) else '')


def hybrid_term(th, t0):
    """when both the grammar model and the semantics of T_h differ from T_0: T_h with the grammar model of T_0
    (tells a leaked semantics from a grammar model compiled under other settings)"""
    if th[0] in ('val', 'model') and t0[0] == th[0] and th[1] != t0[1] and th[2] != t0[2]:
        return [th[0], t0[1]] + list(th[2:])
    return None


def classify_predicted(th, t0, hybrid_explains=False):
    """signature class of a history dependence the model predicts (T_h <> T_0)"""
    if th[0] == 'err' or t0[0] == 'err':
        if t0[0] == 'err' and t0[1] == 'boot' and th[0] != 'err':
            return 'history:settings-not-in-key:boot-error-masked'
        return f'history:error-differs:{sem_component(t0)}->{sem_component(th)}'
    if th[1] != t0[1] and not (th[2:3] != t0[2:3] and hybrid_explains):
        return 'history:settings-not-in-key:model-differs'
    if th[0] in ('val', 'model') and th[2] != t0[2]:
        return f'history:semantics-leak:{sem_component(t0)}->{sem_component(th)}'
    return 'history:other'


# =============================================================================== A1
def run_histories(chk: Check, pool: Pool, mr: ModelRun, variant: str):
    rng = chk.rng
    nh = 160 if chk.quick else 1500
    maxlen = 8 if chk.quick else 12
    histories = [gen_history(rng, maxlen) for _ in range(nh)]
    # directed histories around the witnesses of the Coq refutation, so that the cache paths are always reached
    for g in GRAMS:
        histories.append([{'op': 'compile', 'var': 0, 'a': {'g': g, 'name': 0, 'sem': None, 'asmodel': False, 'bopt': None, 'cs': 0}},
                          {'op': 'compile', 'var': 1, 'a': {'g': g, 'name': 0, 'sem': None, 'asmodel': True, 'bopt': None, 'cs': 0}},
                          {'op': 'mparse', 'var': 0, 'p': {'g': g, 'text': 0, 'start': 0, 'ps': 0, 'sem': None, 'asmodel': False, 'cfgobj': None}},
                          {'op': 'cparse', 'a': {'g': g, 'name': 0, 'sem': None, 'asmodel': False, 'bopt': None, 'cs': 0},
                           'p': {'g': g, 'text': 0, 'start': 0, 'ps': 0, 'sem': None, 'asmodel': False, 'cfgobj': None}},
                          {'op': 'compile', 'var': 2, 'a': {'g': g, 'name': 0, 'sem': None, 'asmodel': False, 'bopt': None, 'cs': 1}},
                          {'op': 'tparse', 't': {'g': g, 'text': 0, 'start': 0, 'name': 0, 'ts': 0, 'sem': None, 'asmodel': False, 'bopt': 2}}])
    in_proc = pool.map(histories)
    # fresh references, memoised by the text of the self-contained script
    fresh_scripts = {}
    for h in histories:
        for i in range(len(h)):
            sc = self_contained(h, i)
            fresh_scripts.setdefault(json.dumps(sc, sort_keys=True), sc)
    keys = list(fresh_scripts)
    fresh_res = dict(zip(keys, [r[-1] for r in pool.map([fresh_scripts[k] for k in keys])]))
    chk.count('A1.histories', len(histories))
    chk.count('A1.distinct_fresh_calls', len(keys))

    # model predictions
    ab = Abstraction(variant)
    # boot table: which (name, g, settings) fail in the bootstrap parse - measured in fresh processes
    boot_scripts = []
    triples = [(nm, g, cs) for nm in (0, 1, 2) for g in GRAMS for cs in VALID_SETTINGS]
    for nm, g, cs in triples:
        boot_scripts.append([{'op': 'compile', 'var': 0, 'a': {'g': g, 'name': nm, 'sem': None, 'asmodel': False,
                                                               'bopt': None, 'cs': cs}}])
    boot_res = [r[-1] for r in pool.map(boot_scripts)]
    bootfail = [(nm, g, cs) for (nm, g, cs), r in zip(triples, boot_res) if 'exc' in r]
    chk.count('A1.boot_failing_triples', len(bootfail))
    bf_sx = '(' + ' '.join(f'({o2sx(nm or None)} {g} {cs})' for nm, g, cs in bootfail) + ')'
    inv_sx = '(' + ' '.join(map(str, INVALID_SETTINGS)) + ')'
    reqs = []
    maps = []
    for h in histories:
        mvar_index = {}
        sxs = []
        idx = []
        # the model binds a variable only when compile succeeds: mirror that with the implementation's outcome
        for i, o in enumerate(h):
            s = ab.op(o, mvar_index)
            if s is None:
                continue
            if o['op'] == 'mparse' and o['var'] not in mvar_index:
                continue           # compile of that variable failed in the history: nothing to call
            sxs.append(s)
            idx.append(i)
            if o['op'] == 'compile':
                mvar_index[o['var']] = len(idx) - 1
        maps.append((sxs, idx))
    # variables are numbered by successful compiles in the MODEL; resolve in two passes using the model itself
    reqs = []
    for (sxs, idx), h in zip(maps, histories):
        reqs.append(f'(run {variant} {inv_sx} {bf_sx} ({" ".join(_subst_vars(sxs, None))}))')
    first = mr.ask(reqs)
    reqs2 = []
    for (sxs, idx), rep in zip(maps, first):
        ok = [r[0][0] != 'err' for r in rep]
        reqs2.append(f'(run {variant} {inv_sx} {bf_sx} ({" ".join(_subst_vars(sxs, ok))}))')
    second = mr.ask(reqs2)

    explicit_needed = {}
    per_case = []
    for (sxs, idx), h, res, rep in zip(maps, histories, in_proc, second):
        pos = {i: j for j, i in enumerate(idx)}
        for i, o in enumerate(h):
            rh = res[i]
            r0 = fresh_res[json.dumps(self_contained(h, i), sort_keys=True)]
            th = t0 = None
            if i in pos:
                th, t0 = rep[pos[i]]
                if th != t0:
                    for term in (th, hybrid_term(th, t0)):
                        ex = term_to_explicit(ab, term) if term is not None else None
                        if ex is not None:
                            explicit_needed.setdefault(json.dumps(ex, sort_keys=True), ex)
            per_case.append((h, i, o, rh, r0, th, t0))
    ekeys = list(explicit_needed)
    eres = dict(zip(ekeys, [r[-1] for r in pool.map([[explicit_needed[k]] for k in ekeys])]))
    chk.count('A1.explicit_evaluations', len(ekeys))

    n_model_bad = 0
    n_unexpl = 0
    for h, i, o, rh, r0, th, t0 in per_case:
        kind = o['op']
        chk.case(json.dumps([h[:i + 1]], sort_keys=True), nontrivial=i > 0)
        chk.count(f'A1.calls.{kind}')
        if 'exc' in rh:
            chk.count('A1.calls_raising')
        if rh.get('mutated'):
            chk.violation('writeset:parse-mutates:' + '+'.join(sorted(rh['mutated'])),
                          f'a parse altered {rh["mutated"]} of the grammar model / configuration it was given',
                          {'oracle': 'A2 write set (inline)', 'history': h[:i + 1], 'call': o, 'result': rh})
        actual_dep = val_of(rh) != val_of(r0)
        types_dep = (not actual_dep) and rh.get('types') != r0.get('types')
        if types_dep and th is not None and th != t0 and th[0] != 'err':
            # the bases differ: because the model-predicted semantics differ (then it is the cache), or because of
            # the class registry?  T_h evaluated in a fresh process tells.
            w = eres.get(json.dumps(term_to_explicit(ab, th), sort_keys=True))
            if w is not None and w.get('types') == rh.get('types') and val_of(w) == val_of(rh):
                types_dep = False
                chk.count('A1.actual_dependence')
                chk.count('A1.model_predicts_dependence')
                small = shrink_history(pool, h, i, lambda a, b: a.get('types') != b.get('types'),
                                       classify_predicted(th, t0, True))
                chk.violation(classify_predicted(th, t0, True),
                              f'{kind}: the classes of the result depend on earlier calls (predicted by the faithful model)',
                              {'oracle': 'A1 fresh-process replay', 'history': small, 'after_history': rh, 'fresh': r0,
                               'model': [th, t0]})
                continue
        if types_dep:
            chk.count('A1.synth_bases_differ')
            small = shrink_history(pool, h, i, lambda a, b: val_of(a) == val_of(b) and a.get('types') != b.get('types'),
                                   'history:synth-class-bases')
            chk.violation('history:synth-class-bases',
                          'the bases of a synthesized node class depend on which call synthesized the name first '
                          f'(objectmodel/synth.py registry is keyed by class name only): {kind}',
                          {'oracle': 'A1 fresh-process replay', 'history': small, 'after_history': rh.get('types'),
                           'fresh': r0.get('types')})
        if th is None:
            # generated parser calls: no shared state is involved in the model
            if actual_dep:
                n_unexpl += 1
                small = shrink_history(pool, h, i, lambda a, b: val_of(a) != val_of(b), f'history:unexplained:{kind}')
                chk.violation(f'history:unexplained:{kind}', f'{kind} returns something else after a history',
                              {'oracle': 'A1 fresh-process replay', 'history': small, 'after_history': rh, 'fresh': r0})
            continue
        predicted = th != t0
        if predicted:
            chk.count('A1.model_predicts_dependence')
        # the model must explain the in-history result exactly
        want = None
        if th[0] == 'err':
            okm = 'exc' in rh and (ERR_CLASSES[th[1]] is None or rh['exc'] in ERR_CLASSES[th[1]])
        elif predicted:
            want = eres[json.dumps(term_to_explicit(ab, th), sort_keys=True)]
            okm = val_of(want) == val_of(rh)
        else:
            okm = not actual_dep
            want = r0
        if t0[0] == 'err':
            okm = okm and 'exc' in r0
        if not okm:
            n_model_bad += 1
            if not predicted and actual_dep:
                n_unexpl += 1
                small = shrink_history(pool, h, i, lambda a, b: val_of(a) != val_of(b), f'history:unexplained:{kind}')
                chk.violation(f'history:unexplained:{kind}',
                              f'{kind} returns something else after a history and Lib/Api.v predicts no dependence',
                              {'oracle': 'A1 fresh-process replay + model', 'history': small, 'after_history': rh,
                               'fresh': r0, 'model': [th, t0]})
            else:
                chk.violation(f'corr:api-model:{kind}', 'Lib/Api.v does not predict what the call returned after the history',
                              {'correspondence': 'A1 Api.v', 'history': h[:i + 1], 'impl': rh, 'model_term': th,
                               'model_value': want})
            continue
        if actual_dep:
            chk.count('A1.actual_dependence')
            hyb = hybrid_term(th, t0)
            hyb_val = eres.get(json.dumps(term_to_explicit(ab, hyb), sort_keys=True)) if hyb is not None else None
            sig = classify_predicted(th, t0, hyb_val is not None and val_of(hyb_val) == val_of(rh))
            small = shrink_history(pool, h, i, lambda a, b: val_of(a) != val_of(b), sig)
            chk.violation(sig, f'{kind}: the result depends on earlier calls (predicted by the faithful model): '
                               f'after the history {json.dumps(val_of(rh))[:160]}, in a fresh process {json.dumps(val_of(r0))[:160]}',
                          {'oracle': 'A1 fresh-process replay', 'history': small, 'after_history': rh, 'fresh': r0,
                           'model': [th, t0]})
    unl = [v['signature'] for v in chk.violations]
    chk.obligation('A1:Lib/Api.v predicts every in-history result (explicit evaluation of T_h in a fresh process)',
                   'correspondence', not any(x.startswith('corr:api-model') for x in unl), f'{n_model_bad} mismatches')
    chk.obligation('A1:no history dependence that the model does not predict', 'oracle',
                   not any(x.startswith('history:unexplained') for x in unl))
    chk.obligation('A1:every call returns what it returns in a fresh process (up to the recorded findings)', 'oracle',
                   not any(x.startswith('history:') for x in unl))
    chk.sample({'history': histories[0], 'in_process': [val_of(r) for r in in_proc[0]][:3]})
    chk.sample({'model_request': reqs2[0][:400], 'model_reply': str(second[0])[:400]})

    # a sample of the references re-done in brand new interpreters (no zygote, no fork)
    nfresh = 6 if chk.quick else 60
    pick = sorted(keys)[:: max(1, len(keys) // nfresh)][:nfresh]
    with ThreadPoolExecutor(max_workers=6) as ex:
        outs = list(ex.map(lambda k: oneshot(fresh_scripts[k])[-1], pick))
    bad = [(k, a, fresh_res[k]) for k, a in zip(pick, outs) if a != fresh_res[k]]
    chk.obligation('A1:forked-zygote references agree with brand new interpreters (sample)', 'oracle', not bad,
                   str(bad[:1])[:800])
    chk.count('A1.new_interpreter_references', len(pick))


def _subst_vars(sxs, ok):
    """(parsevar v ..): v counts the compiles that succeeded before (the model binds a variable on success only).
    ok[j] = model outcome of request j from a first run (None: assume all succeed)."""
    out = []
    import re
    bound = {}
    n = 0
    for j, s in enumerate(sxs):
        if s.startswith('(parsevar '):
            m = re.match(r"\(parsevar @(\d+) (.*)$", s)
            jj = int(m.group(1))
            v = bound.get(jj, 9999)
            out.append(f'(parsevar {v} {m.group(2)}')
        else:
            out.append(s)
            if s.startswith('(compile ') and (ok is None or ok[j]):
                bound[j] = n
                n += 1
    return out


_SHRUNK: set = set()


def shrink_history(pool: Pool, h, i, differs, sig=None):
    """drop earlier calls while call i still differs from its fresh replay (done once per signature: only the first
    occurrence of a signature is stored in the replay file)"""
    if sig is not None:
        if sig in _SHRUNK:
            return list(h[:i + 1])
        _SHRUNK.add(sig)
    prefix = list(h[:i])
    call = h[i]
    need = {id(o) for o in self_contained(h, i)}
    fresh = pool.map([self_contained(h, i)])[0][-1]
    changed = True
    budget = 40
    while changed and budget > 0:
        changed = False
        for j in range(len(prefix)):
            if id(prefix[j]) in need:
                continue
            cand = prefix[:j] + prefix[j + 1:]
            budget -= 1
            try:
                r = pool.map([cand + [call]])[0][-1]
            except Exception:
                continue
            if differs(r, fresh):
                prefix = cand
                changed = True
                break
    return prefix + [call]


# =============================================================================== witnesses of the Coq refutation
def replay_witnesses(chk: Check, pool: Pool, variant: str):
    plain = {'g': 2, 'name': 0, 'sem': None, 'asmodel': False, 'bopt': None, 'cs': 0}
    p = {'g': 2, 'text': 0, 'start': 0, 'ps': 0, 'sem': None, 'asmodel': False, 'cfgobj': None}
    w1 = [{'op': 'compile', 'var': 0, 'a': dict(plain, asmodel=True)}, {'op': 'cparse', 'a': plain, 'p': p}]
    w2 = [{'op': 'compile', 'var': 0, 'a': plain}, {'op': 'compile', 'var': 1, 'a': dict(plain, cs=1)}]
    w3 = [{'op': 'compile', 'var': 0, 'a': plain}, {'op': 'compile', 'var': 1, 'a': dict(plain, asmodel=True)},
          {'op': 'mparse', 'var': 0, 'p': p}]
    res = pool.map([w1, [w1[-1]], w2, [w2[-1]], w3, [w3[0], w3[2]]])
    dep = [val_of(res[0][-1]) != val_of(res[1][-1]), val_of(res[2][-1]) != val_of(res[3][-1]),
           val_of(res[4][-1]) != val_of(res[5][-1])]
    if variant == 'f':
        ok = all(dep) and 'exc' in res[3][-1] and 'exc' not in res[2][-1]
        chk.obligation('W:the three witnesses of C10_history_independent_refuted* reproduce on the code', 'correspondence',
                       ok, str(dep))
    else:
        chk.obligation('W:the witnesses of the refutation no longer reproduce (repaired compile)', 'correspondence',
                       not any(dep), str(dep))
    chk.sample({'witness1_after_history': val_of(res[0][-1]), 'witness1_fresh': val_of(res[1][-1])})


# =============================================================================== A2 deep write set
# attribute writes a first parse may perform: each is cache[k] := f k for a pure f of the grammar
ALLOWED_FIRST = {
    ('Grammar', '_optimized'),      # base.py Grammar.optimized: cached optimized copy
}
ALLOWED_FIRST_ATTRS = {'_ruleinfo', '_lookahead', '_firstset', '_follow_set', 'lookaheadlist', 'expecting',
                       'expectingstr', '_nullable', 'defines_single', 'defines_list', '_optimized', '_registry'}


def run_writeset(chk: Check, pool: Pool):
    rng = chk.rng
    scripts = []
    n = 30 if chk.quick else 300
    for _ in range(n):
        a = gen_cargs(rng)
        a['cs'] = 0 if a['cs'] in (1, 4) else a['cs']
        p1 = gen_pargs(rng, a['g'])
        p2 = gen_pargs(rng, a['g'])
        for p in (p1, p2):
            p['cfgobj'] = None
        scripts.append([{'op': 'writeset', 'a': a, 'p1': p1, 'p2': p2}])
    res = [r[-1] for r in pool.map(scripts)]
    bad_first = bad_later = bad_pub = bad_rep = 0
    for sc, r in zip(scripts, res):
        chk.case('writeset:' + json.dumps(sc, sort_keys=True))
        chk.count('A2.writeset_cases')
        if 'exc' in r:
            chk.count('A2.compile_failed')
            continue
        if any('exc' in x for x in r['results']):
            chk.count('A2.with_failed_parse')
        unexpected = [w for w in r['first'] if w[1] not in ALLOWED_FIRST_ATTRS]
        if unexpected:
            bad_first += 1
            chk.violation('writeset:first-parse:' + '+'.join(sorted({f'{c}.{a}' for c, a, _ in unexpected}))[:120],
                          f'the first parse wrote attributes outside the modelled cache set: {unexpected[:6]}',
                          {'oracle': 'A2 deep write set', 'script': sc, 'writes': r['first']})
        # the second parse (another text) may fill the caches of nodes it is the first to visit; the third parse
        # repeats the first one: everything it needs is cached, it must not write anything
        later = [w for w in r['second'] if w[1] not in ALLOWED_FIRST_ATTRS] + r['third']
        if later:
            bad_later += 1
            chk.violation('writeset:later-parse:' + '+'.join(sorted({f'{c}.{a}' for c, a, _ in later}))[:120],
                          f'a parse on a warmed-up model still writes to the model: {later[:6]}',
                          {'oracle': 'A2 deep write set', 'script': sc, 'writes': later})
        if r['public_changed']:
            bad_pub += 1
            chk.violation('writeset:public-model-changed', 'asjson(model) / model.config changed across parses',
                          {'oracle': 'A2 deep write set', 'script': sc})
        if not r['repeat_equal']:
            bad_rep += 1
            chk.violation('history:same-model-repeat', 'the same parse on the same model returned something else the second '
                          'time (another parse, possibly failed, in between)',
                          {'oracle': 'A2 repeat', 'script': sc, 'results': r['results']})
    chk.obligation('A2:first parse writes only modelled caches; a repeated parse writes nothing; public model unchanged',
                   'oracle', not any(v['signature'].startswith(('writeset:', 'history:same-model-repeat'))
                                     for v in chk.violations))
    if res:
        chk.sample({'writeset_first_parse': next((r['first'] for r in res if 'first' in r and r['first']), [])[:8]})


# =============================================================================== threads
def run_threads(chk: Check, pool: Pool):
    rng = chk.rng
    scripts = []
    n = 10 if chk.quick else 60
    for j in range(n):
        cold = j % 2 == 1
        a = gen_cargs(rng)
        a['cs'] = 0
        if j % 4 == 1:
            a['sem'] = None
            a['asmodel'] = True      # model building: synthesized classes are created during the parse
        nthreads = rng.choice([3, 4, 6])
        calls = []
        for _ in range(nthreads):
            p = gen_pargs(rng, a['g'])
            p['cfgobj'] = None
            calls.append(p)
        scripts.append([{'op': 'threads', 'a': a, 'calls': calls, 'cold': cold, 'rounds': 4 if cold else 2,
                         'reps': 3 if cold else 12}])
    res = [r[-1] for r in pool.map(scripts)]
    nbad = 0
    for sc, r in zip(scripts, res):
        chk.case('threads:' + json.dumps(sc, sort_keys=True))
        chk.count('T.thread_scripts')
        if 'exc' in r:
            chk.count('T.compile_failed')
            continue
        chk.count('T.threaded_parses', r['n'])
        if r['nbad']:
            nbad += 1
            b = r['bad'][0]
            cold = sc[0]['cold']
            if cold and b['got'].get('exc') == 'TypeResolutionError' and b['want'].get('exc') != 'TypeResolutionError':
                sig = 'threads:synthesize-race:TypeResolutionError'
            elif cold and b['got'].get('exc') in ('RuntimeError', 'TypeError') and b['want'].get('exc') != b['got'].get('exc'):
                sig = 'threads:cold-optimize-race:' + b['got']['exc']
            else:
                sig = 'threads:result-differs:' + (b['got'].get('exc') or 'value')
            chk.violation(sig, f'a parse on a model shared by {len(sc[0]["calls"])} threads returned {json.dumps(b["got"])[:120]} '
                               f'instead of its sequential result {json.dumps(b["want"])[:120]}',
                          {'oracle': 'threads vs sequential', 'script': sc, 'bad': r['bad'], 'nbad': r['nbad']})
    chk.obligation('T:threaded results equal sequential results (up to the recorded findings)', 'oracle',
                   not any(v['signature'].startswith('threads:') for v in chk.violations), f'{nbad} scripts differ')


def main():
    chk = Check(PID)
    chk.rule = ('A1: random histories (2..8 calls quick, 2..12 thorough) of compile / model.parse / compile+parse / '
                'tatsu.parse / to_python_sourcecode / generated parser construction and parse, focused on 1-2 of 6 '
                'grammars so that cache keys collide, with names, 5 semantics objects, 5 builder options, 7 settings '
                '(one invalid, one that breaks the bootstrap parse), start rules and texts incl. failing ones, plus directed '
                'histories around the Coq witnesses; every call compared with a fresh process and with Lib/Api.v. '
                'A2: deep attribute write set of 3 parses on one model. T: 3-6 threads on one shared model (warm and cold). '
                'Non-trivial: the call has at least one earlier call; distinct by content of the history prefix.')
    chk.trusted += ['CPython 3.12 (fork, threads, GIL), the abstraction of call arguments to Lib/Api.v identities '
                    '(harness Abstraction), sha256 injective on the pool grammars',
                    'modelled: api.compile cache + post-lookup mutation, api.parse, to_python_sourcecode, Grammar.parse '
                    'semantics precedence, bound() field discipline; not modelled: the parse itself (section variable), '
                    'synthesized-class registry (oracle only), bytecode-level atomicity (threads: sampled schedules)']
    chk.assumptions += ['semantics objects are truthy and are not classes', 'hasha(grammar) is injective',
                        'threads: the theorem covers the cache logic; the GIL makes dict get/set atomic']
    variant = source_shape(chk)
    chk.coq()
    ok, out = vlib.build_modelrun('Api')
    chk.obligation('modelrun_Api builds', 'build', ok, out[-500:])
    if ok and variant:
        chk.extra['compile_variant'] = {'f': 'pinned (compile_f)', 'r': 'repaired (compile_r)'}[variant]
        mr = ModelRun('Api')
        pool = Pool(8)
        try:
            replay_witnesses(chk, pool, variant)
            run_histories(chk, pool, mr, variant)
            run_writeset(chk, pool)
            run_threads(chk, pool)
        finally:
            pool.close()
    chk.exhaustive = False
    return chk.finish()


if __name__ == '__main__':
    sys.exit(main())
