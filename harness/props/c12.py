"""C12 (text/line part) - source positions are exact: lineinfo / lineat / poscol / linecount of TextLines
and of the legacy Buffer, against (a) the extracted Coq model (correspondence L1) and (b) an independent
Python reference that splits the text at its line breaks with a regular expression (oracle).

The parseinfo-of-rules part of C12 (engine: make_parseinfo/set_parseinfo) is not checked here.
"""
from __future__ import annotations

import ast
import json
import re
import sys
from pathlib import Path

sys.path.insert(0, str(Path(__file__).resolve().parent.parent))
import vlib
from vlib import Check, ModelRun, sx, sx_str

PID = 'C12'
ALPHA = 'a \n\r'
OTHER = '\x0b\x0c\x1c\x1d\x1e\x85\u2028\u2029'
SEPS = '\n\r' + OTHER


# ------------------------------------------------------------------ source shape (fail closed)
def source_shape(chk: Check):
    """The pieces of source the model was written against: which functions exist and the constants in them."""
    def funcs(path):
        tree = ast.parse((vlib.REPO / path).read_text())
        out = {}
        for cls in [n for n in tree.body if isinstance(n, ast.ClassDef)]:
            for fn in [n for n in cls.body if isinstance(n, ast.FunctionDef)]:
                out[f'{cls.name}.{fn.name}'] = fn
        for fn in [n for n in tree.body if isinstance(n, ast.FunctionDef)]:
            out[fn.name] = fn
        return out

    def consts(fn):
        return [n.value for n in ast.walk(fn) if isinstance(n, ast.Constant) and not isinstance(n.value, type(None))
                and not (isinstance(n.value, str) and len(n.value) > 60)]

    inf = funcs('tatsu/input/infos.py')
    blc = inf.get('PosLine.build_line_cache')
    ok = blc is not None and {'\r', '\n'} <= set(consts(blc)) and \
        not [c for c in consts(blc) if isinstance(c, str) and c not in ('\r', '\n')]
    chk.obligation('T1:infos.py build_line_cache newline set is {CR, LF}', 'translator', ok,
                   str(consts(blc) if blc else None))
    st = funcs('tatsu/util/strtools.py')
    lc = st.get('linecount')
    pats = [c for c in consts(lc) if isinstance(c, str)] if lc else []
    chk.obligation('T1:strtools.py linecount regex', 'translator', pats == [r'(?m)\r?\n|\r'], str(pats))
    for path, cls, names in (
            ('tatsu/input/textlines.py', 'TextLines', ['split_block_lines', 'join_block_lines', '_postprocess']),
            ('tatsu/input/textlines.py', 'TextLinesCursor', ['lineinfo', 'lineat', 'poscol']),
            ('tatsu/input/buffer.py', 'Buffer', ['split_block_lines', 'join_block_lines', '_postprocess', 'lineinfo',
                                                 'posline', 'poscol']),
            ('tatsu/input/buffer.py', 'BufferCursor', ['lineinfo', 'lineat', 'poscol'])):
        fs = funcs(path)
        missing = [n for n in names if f'{cls}.{n}' not in fs]
        ok = not missing
        if ok and 'split_block_lines' in names:
            src = ast.unparse(fs[f'{cls}.split_block_lines'])
            ok = 'splitlines(True)' in src
        chk.obligation(f'T1:{cls} has the modelled methods', 'translator', ok, f'missing {missing}')


# ------------------------------------------------------------------ independent reference (the oracle)
_S = ''.join('\\x%02x' % ord(c) if ord(c) < 256 else '\\u%04x' % ord(c) for c in SEPS)
LINE_RE = re.compile('[^%s]*(?:\r\n|[%s])|[^%s]+' % (_S, _S, _S))


def ref_lines(s: str) -> list[str]:
    """the text split at its line breaks, each line with its terminator"""
    return LINE_RE.findall(s)


def ref_info(s: str, pos: int, reading: str):
    """(line, col, start, end, text) of offset pos, 0 <= pos <= len(s).
    At pos == len(s) after a final line break: reading 'editor' = a new empty last line,
    reading 'clamp' = still the last line of the split (what tests/buffering_test.py pins for lineinfo)."""
    lines = ref_lines(s)
    start = 0
    for n, l in enumerate(lines):
        if pos < start + len(l):
            return (n, pos - start, start, start + len(l), l)
        start += len(l)
    assert pos == len(s)
    if not lines:
        return (0, 0, 0, 0, '')
    last = lines[-1]
    if last[-1] in SEPS and reading == 'editor':
        return (len(lines), 0, len(s), len(s), '')
    st = len(s) - len(last)
    return (len(lines) - 1, pos - st, st, len(s), last)


def ref_linecount(s: str) -> int:
    return len(s.replace('\r\n', '\n').replace('\r', '\n').split('\n'))


# ------------------------------------------------------------------ observation of the real code
def _call(f, *a):
    try:
        v = f(*a)
    except IndexError:
        return 'IndexError'
    except Exception as e:  # noqa: BLE001
        return 'raise:' + type(e).__name__
    if hasattr(v, 'text') and hasattr(v, 'col'):
        return (v.line, v.col, v.start, v.end, v.text)
    return v


def _prop(obj, name):
    try:
        return getattr(obj, name)
    except IndexError:
        return 'IndexError'
    except Exception as e:  # noqa: BLE001
        return 'raise:' + type(e).__name__


def observe(cls_name: str, s: str, upto: int) -> dict:
    """every accessor at every offset 0..upto; {accessor: [value per offset]} plus linecount/lines/cache"""
    from tatsu.input.buffer import Buffer
    from tatsu.input.textlines import TextLines
    cls = TextLines if cls_name == 'TextLines' else Buffer
    t = cls(s, whitespace='')
    c = t.newcursor()
    text = t.textstr if cls_name == 'TextLines' else t.text
    cache = t.line_cache if cls_name == 'TextLines' else t.linecache
    obs = {'text': text, 'lines': list(t.lines), 'cache': [tuple(p) for p in cache],
           'linecount': _prop(t, 'linecount'), 'cursor.linecount': _prop(c, 'linecount'), 'len': len(c)}
    acc = {'cursor.lineinfo': [], 'cursor.lineat': [], 'cursor.poscol': [], 'cursor.line': [], 'cursor.col': []}
    if cls_name == 'Buffer':
        acc.update({'buf.lineinfo': [], 'buf.posline': [], 'buf.poscol': [], 'buf.line': [], 'buf.col': []})
    for p in range(upto + 1):
        acc['cursor.lineinfo'].append(_call(c.lineinfo, p))
        acc['cursor.lineat'].append(_call(c.lineat, p))
        acc['cursor.poscol'].append(_call(c.poscol, p))
        c.goto(p)
        acc['cursor.line'].append((c.pos, _prop(c, 'line')))
        acc['cursor.col'].append((c.pos, _prop(c, 'col')))
        if cls_name == 'Buffer':
            acc['buf.lineinfo'].append(_call(t.lineinfo, p))
            acc['buf.posline'].append(_call(t.posline, p))
            acc['buf.poscol'].append(_call(t.poscol, p))
            t.goto(p)
            acc['buf.line'].append((t.pos, _prop(t, 'line')))
            acc['buf.col'].append((t.pos, _prop(t, 'col')))
    obs['acc'] = acc
    return obs


# accessor -> (family, guard key) ; family decides the model column and the oracle reading
FAMILY = {
    'TextLines': {'cursor.lineinfo': 'lineinfo', 'cursor.lineat': 'lineat', 'cursor.poscol': 'poscol',
                  'cursor.line': 'lineat@', 'cursor.col': 'poscol@'},
    'Buffer': {'cursor.lineinfo': 'lineinfo', 'cursor.lineat': 'lineat', 'cursor.poscol': 'poscol',
               'cursor.line': 'posline@', 'cursor.col': 'poscol@',
               'buf.lineinfo': 'lineinfo', 'buf.posline': 'posline', 'buf.poscol': 'poscol',
               'buf.line': 'posline@', 'buf.col': 'poscol@'},
}


# ------------------------------------------------------------------ model side
def _opt(x, conv):
    if x == 'none':
        return 'IndexError'
    return conv(x[1])


def _li(x):
    return (int(x[0]), int(x[1]), int(x[2]), int(x[3]), sx_str(x[4]))


def parse_query(rep):
    """model reply of (query ...) -> per offset dict"""
    out = []
    for e in rep:
        out.append({'lineinfo': _opt(e[0], _li), 'lineat': _opt(e[1], int), 'poscol': _opt(e[2], int),
                    'posline': _opt(e[3], int), 'lineinfo_cf': _opt(e[4], _li)})
    return out


def model_expect(cls_name, accessor, q, p, n, colfix=False):
    """what the model predicts for `accessor` at offset p (text length n)"""
    fam = FAMILY[cls_name][accessor]
    if fam == 'lineinfo' and colfix:
        fam = 'lineinfo_cf'
    if fam.endswith('@'):              # property read after goto(p): goto clamps to [0, len]
        pp = max(0, min(n, p))
        return (pp, q[pp][fam[:-1]])
    return q[p][fam]


class Variants:
    """which sentinel variant / which guards the code under test has (probed, then every case must agree)"""

    def __init__(self):
        from tatsu.input.infos import PosLine
        from tatsu.input.buffer import Buffer
        cache, _ = PosLine.build_line_cache(['a'], 1)
        self.sentinel = 'fixed' if tuple(cache[-1]) == (0, 0, 1) else 'shipped'
        b = Buffer('', whitespace='')
        c = b.newcursor()
        self.guard = {
            ('TextLines', 'cursor.lineat'): 1, ('TextLines', 'cursor.poscol'): 1,
            ('TextLines', 'cursor.line'): 1, ('TextLines', 'cursor.col'): 1,
            ('Buffer', 'cursor.lineat'): int(_call(c.lineat, 0) != 'IndexError'),
            ('Buffer', 'cursor.poscol'): int(_call(c.poscol, 0) != 'IndexError'),
            ('Buffer', 'buf.poscol'): int(_call(b.poscol, 0) != 'IndexError'),
        }
        # which lineinfo bodies compute the column from the unclamped offset (fixes/C12-lineinfo-col.patch)
        from tatsu.input.textlines import TextLines
        ba = Buffer('a', whitespace='')
        self.colfix = {
            ('TextLines', 'cursor.lineinfo'): _call(TextLines('a', whitespace='').newcursor().lineinfo, 1)[1] == 1,
            ('Buffer', 'cursor.lineinfo'): _call(ba.newcursor().lineinfo, 1)[1] == 1,
            ('Buffer', 'buf.lineinfo'): _call(ba.lineinfo, 1)[1] == 1,
        }
        self.guard[('Buffer', 'cursor.col')] = self.guard[('Buffer', 'buf.poscol')]
        self.guard[('Buffer', 'buf.col')] = self.guard[('Buffer', 'buf.poscol')]

    def g(self, cls_name, accessor):
        return self.guard.get((cls_name, accessor), 1)


# ------------------------------------------------------------------ oracle on one observed text
def oracle_findings(cls_name: str, s: str, obs: dict) -> list[tuple[str, str, dict]]:
    """violations of the property by the real code on text s: [(signature, what, detail)]"""
    out = []
    n = len(s)
    if obs['text'] != s:
        out.append((f'text:{cls_name}:changed', f'{cls_name}({s!r}) holds the text {obs["text"]!r}', {}))
    if obs['lines'] != ref_lines(s):
        out.append((f'lines:{cls_name}', f'{cls_name}({s!r}).lines = {obs["lines"]!r}, split gives {ref_lines(s)!r}', {}))
    for key in ('linecount', 'cursor.linecount'):
        if obs[key] != ref_linecount(s):
            out.append((f'linecount:{cls_name}', f'{cls_name}({s!r}).{key} = {obs[key]!r}, expected {ref_linecount(s)}', {}))
    other_tail = bool(s) and s[-1] in OTHER
    for accessor, values in obs['acc'].items():
        fam = FAMILY[cls_name][accessor]
        for p in range(n + 1):
            got = values[p]
            if fam.endswith('@'):
                if got[0] != p:
                    out.append((f'goto:{cls_name}', f'goto({p}) left pos={got[0]}', {}))
                    continue
                got = got[1]
            base = fam.rstrip('@')
            where = 'empty' if n == 0 else ('end' if p == n else 'mid')
            if p == n and other_tail and base in ('lineat', 'poscol'):
                # the text ends in VT/FF/FS/GS/RS/NEL/LS/PS: outside "LF, CR and CRLF conventions"; the sentinel
                # only knows CR and LF (recorded as an observation in notes/C12.md), the model covers it
                continue
            reading = 'clamp' if base in ('lineinfo', 'posline') else 'editor'
            ref = ref_info(s, p, reading)
            if base == 'lineinfo':
                if not isinstance(got, tuple):
                    out.append((f'{where}:{cls_name}.lineinfo:{got}', f'{cls_name}({s!r}) {accessor}({p}) -> {got}',
                                {'accessor': accessor, 'pos': p}))
                    continue
                for i, field in enumerate(('line', 'col', 'start', 'end', 'text')):
                    if got[i] != ref[i]:
                        kind = f'{got[i] - ref[i]:+d}' if isinstance(ref[i], int) else 'differs'
                        out.append((f'{where}:{cls_name}.lineinfo.{field}:{kind}',
                                    f'{cls_name}({s!r}) {accessor}({p}).{field} = {got[i]!r}, splitting the text gives {ref[i]!r}',
                                    {'accessor': accessor, 'pos': p, 'got': got, 'expected': ref}))
            else:
                want = ref[0] if base in ('lineat', 'posline') else ref[1]
                if got != want:
                    if not isinstance(got, int):
                        kind = str(got)
                    elif base == 'poscol' and got == 0:
                        kind = 'col=0'
                    else:
                        kind = f'{got - want:+d}'
                    out.append((f'{where}:{cls_name}.{base}:{kind}',
                                f'{cls_name}({s!r}) {accessor}({p}) = {got!r}, splitting the text gives {want!r}',
                                {'accessor': accessor, 'pos': p, 'got': got, 'expected': want}))
    return out


# ------------------------------------------------------------------ drive
def gen_cases(chk: Check) -> list[str]:
    n = 5 if chk.quick else 6
    cases = list(vlib.all_strings(ALPHA, n))
    chk.extra['exhaustive_scope'] = f'all {len(cases)} strings over {{a, space, LF, CR}} up to length {n} x offsets 0..len+1 x TextLines, Buffer'
    rng = chk.rng
    alpha2 = 'ab \n\r' + OTHER + '\t\xe9\U0001f600'
    for i in range(1500 if chk.quick else 15000):
        k = rng.randint(1, 40)
        parts = []
        while len(parts) < k:
            r = rng.random()
            if r < 0.12:
                parts.append('\r\n')
            elif r < 0.45:
                parts.append(rng.choice(SEPS))
            else:
                parts.append(rng.choice(alpha2))
        s = ''.join(parts)
        if i % 7 == 0:
            s += rng.choice(SEPS)
        cases.append(s)
    return cases


def run_case_batch(chk: Check, mr: ModelRun, var: Variants, cases: list[str], seen_sigs: dict):
    reqs = []
    for s in cases:
        up = len(s) + 1
        reqs.append(f'(query 1 {var.sentinel} {sx(s)} {up})')
        reqs.append(f'(query 0 {var.sentinel} {sx(s)} {up})')
        reqs.append(f'(cache {var.sentinel} {sx(s)})')
        reqs.append(f'(spec {sx(s)})')
        reqs.append(f'(linecount {sx(s)})')
        reqs.append(f'(splitlines {sx(s)})')
    reps = mr.ask(reqs)
    ncorr = 0
    nspec = 0
    for k, s in enumerate(cases):
        q1, q0 = parse_query(reps[6 * k]), parse_query(reps[6 * k + 1])
        crep = reps[6 * k + 2]
        mcache = [tuple(int(x) for x in e) for e in crep[0]] if crep[0] != 'nil' else []
        spec = reps[6 * k + 3]
        mlinecount = int(reps[6 * k + 4])
        mlines = [sx_str(x) for x in reps[6 * k + 5]] if reps[6 * k + 5] != 'nil' else []
        n = len(s)
        has_brk = any(c in SEPS for c in s)
        # S1: the Coq specification is the Python reference (editor reading at pos = len)
        for p in range(n + 1):
            e = spec[p]
            got = (int(e[0]), int(e[1]), int(e[2]), int(e[3]), sx_str(e[4]))
            if got != ref_info(s, p, 'editor'):
                nspec += 1
                chk.violation('spec:coq-vs-reference', f'Coq spec_info differs from the Python reference on {s!r} at {p}',
                              {'text': s, 'pos': p, 'coq': got, 'reference': ref_info(s, p, 'editor')})
        if int(spec[n][5]) + 1 != ref_linecount(s):
            nspec += 1
            chk.violation('spec:coq-linecount', f'Coq crlf break count differs from the reference on {s!r}', {'text': s})
        for cls_name in ('TextLines', 'Buffer'):
            obs = observe(cls_name, s, n + 1)
            chk.case(f'{cls_name}:{s}', nontrivial=has_brk)
            chk.count(f'{cls_name}.texts')
            chk.count('offsets', n + 2)
            if has_brk:
                chk.count('texts.with-linebreak')
            if s and s[-1] in SEPS:
                chk.count('texts.trailing-linebreak')
            if any(c in OTHER for c in s):
                chk.count('texts.other-separators')
            # ---- L1 correspondence
            diffs = []
            if obs['lines'] != mlines:
                diffs.append(('lines', obs['lines'], mlines))
            if obs['text'] != s:
                diffs.append(('text', obs['text'], s))
            if obs['cache'] != mcache:
                diffs.append(('cache', obs['cache'], mcache))
            if obs['linecount'] != mlinecount or obs['cursor.linecount'] != mlinecount:
                diffs.append(('linecount', obs['linecount'], mlinecount))
            if obs['len'] != n:
                diffs.append(('len', obs['len'], n))
            for accessor, values in obs['acc'].items():
                q = q1 if var.g(cls_name, accessor) else q0
                for p in range(n + 2):
                    want = model_expect(cls_name, accessor, q, p, n, var.colfix.get((cls_name, accessor), False))
                    if values[p] != want:
                        diffs.append((f'{accessor}({p})', values[p], want))
                        break
            if diffs:
                ncorr += 1
                what, impl, model = diffs[0]
                chk.violation(f'corr:{cls_name}:{what.split("(")[0]}',
                              f'{cls_name}({s!r}) {what}: code {impl!r}, model[{var.sentinel}] {model!r}',
                              {'correspondence': 'L1', 'class': cls_name, 'text': s, 'what': what, 'impl': impl,
                               'model': model, 'variant': var.sentinel, 'all': [d[0] for d in diffs]})
            # ---- oracle
            for sig, what, detail in oracle_findings(cls_name, s, obs):
                if sig not in seen_sigs:
                    small = vlib.shrink_string(
                        s, lambda t: any(f[0] == sig for f in oracle_findings(cls_name, t, observe(cls_name, t, len(t) + 1))))
                    f = [f for f in oracle_findings(cls_name, small, observe(cls_name, small, len(small) + 1)) if f[0] == sig][0]
                    seen_sigs[sig] = (f[1], {'oracle': 'reference by regex split', 'class': cls_name, 'text': small, **f[2]})
                w, rep = seen_sigs[sig]
                chk.violation(sig, w, rep)
    return ncorr, nspec


def linebreak_table(chk: Check, mr: ModelRun):
    model = sorted(int(x) for x in mr.ask(['(linebreaks)'])[0])
    py = [c for c in range(0x110000) if not (0xD800 <= c <= 0xDFFF) and len(('a' + chr(c) + 'b').splitlines()) == 2]
    chk.obligation('L1:line break table = str.splitlines over every code point', 'correspondence', model == py,
                   f'model {model} python {py}')
    ok = sorted(ord(c) for c in SEPS) == py
    chk.obligation('oracle separator set = str.splitlines over every code point', 'oracle', ok, str(py))


def replay_witnesses(chk: Check):
    """the witnesses of the _refuted theorems, replayed on the code under test (informative; the oracle decides)"""
    from tatsu.input.buffer import Buffer
    from tatsu.input.textlines import TextLines
    t = TextLines('a', whitespace='').newcursor()
    b = Buffer('', whitespace='').newcursor()
    chk.extra['refuted_witness_replay'] = {
        "TextLines('a').lineat(1)  [split: 0]": _call(t.lineat, 1),
        "TextLines('a').poscol(1)  [split: 1]": _call(t.poscol, 1),
        "TextLines('a').lineinfo(1).col  [split: 1]": _call(t.lineinfo, 1)[1],
        "Buffer('').newcursor().lineat(0)  [split: 0]": _call(b.lineat, 0),
    }



# ------------------------------------------------------------------ parse information of rules (engine part)
def _walk_infos(canon, out):
    if isinstance(canon, dict):
        if 'dict' in canon:
            d = canon['dict']
            if d.get('parseinfo') is not None:
                out.append(d['parseinfo'])
            for k, v in d.items():
                if k not in ('parseinfo', '__parseinfo__'):
                    _walk_infos(v, out)
        else:
            for v in canon.values():
                _walk_infos(v, out)
    elif isinstance(canon, list):
        for x in canon:
            _walk_infos(x, out)


def shard_parseinfo(col, shard_i, ngrammars, ninputs):
    """grammars with named rules x inputs with parseinfo on: implementation vs engine model (rule, pos, endpos, line,
    endline of every dict result) and the property oracle on the implementation."""
    import enginelib as E
    import enginegen as G
    import enginerun as R
    mr = ModelRun('Engine')
    rng = col.rng
    cases = []
    for gi in range(ngrammars):
        cfg = G.GenCfg(names=0.3, overrides=0.0, dots=0.0, skipto=0.0, consts=0.0)
        g = G.gen_grammar(rng, cfg, depth=rng.choice([2, 3]))
        # make every rule produce a dict: wrap the body in a named group, and let some rules match empty
        rules = []
        for i, (n, d, e) in enumerate(g['rules']):
            body = ('named', False, 'val', ('group', e)) if rng.random() < 0.7 else e
            if i > 0 and rng.random() < 0.3:
                body = ('seq', [('named', False, 'opt', ('opt', ('tok', 'zz'))), body]) if rng.random() < 0.5 else ('named', False, 'opt', ('opt', ('tok', 'zz')))
            if i > 0 and rng.random() < 0.3:
                d = list(d) + ['nomemo']       # @nomemo rules take another path to their memo key (and so to parseinfo.pos)
            rules.append((n, d, body))
        g['rules'] = rules
        both = rng.random() < 0.6
        if both or rng.random() < 0.3:
            g['directives']['comments'] = r'\(\*.*?\*\)'
        if both or rng.random() < 0.3:
            g['directives']['eol_comments'] = r'#[^\n]*'
        gaps = [' ', ' ', '\n', '\r\n', '  ', '\t']
        if 'comments' in g['directives']:
            gaps += [' (* c *) ', '(* c *)']
        if 'eol_comments' in g['directives']:
            gaps += [' # e\n', '# e\n']
        if both:
            gaps += ['(* c *)# e\n', ' (* c *)# e\n ', '# e\n(* c *)']
        for _ in range(ninputs):
            lex = G.sample_sentence(rng, g, g['rules'][0][2])
            t = G.join_lexemes(rng, lex, gaps=tuple(gaps))
            t = rng.choice(['', '', ' ', '\n'] + gaps[-2:]) + t + rng.choice(['', '\n', '\r\n', ' \n', '\r'] + gaps[-1:])
            cases.append(R.Case(g, t[:60], None, E.Settings(parseinfo=True)))
    results = []
    for off in range(0, len(cases), 400):
        results += R.run_cases(mr, cases[off:off + 400])
    for (c, io, mo, extra) in results:
        fp = ['pinfo', E.grammar_text(c.g), c.text]
        if mo is None:
            col.case(fp, nontrivial=False)
            continue
        infos = []
        if io[0] == 'ok':
            _walk_infos(io[1], infos)
        col.case(fp, nontrivial=bool(infos))
        col.count('parseinfo.results.' + io[0])
        col.count('parseinfo.entries', len(infos))
        if mo[0] != 'recursion' and io != mo:
            def bad(cc):
                rr = R.run_cases(mr, [cc])[0]
                return rr[2] is not None and rr[2][0] != 'recursion' and rr[1] != rr[2]
            small = R.shrink_case(c, bad, budget=120)
            rr = R.run_cases(mr, [small])[0]
            col.violation(f'E1pinfo:{R.kinds_signature(small)}:{sorted(small.g["directives"])}:impl={rr[1][0]}:model={rr[2][0] if rr[2] else None}',
                          'implementation and engine model disagree with parseinfo on (value or parseinfo entries)',
                          {'correspondence': 'E1 with parseinfo', 'case': small.describe(), 'impl': rr[1], 'model': rr[2]})
        names = {n for n, _, _ in c.g['rules']}
        text = c.text
        for inf in infos:
            _, rule, pos, endpos, line, endline = inf
            problems = []
            if rule not in names:
                problems.append('rule')
            if not (0 <= pos <= endpos <= len(text)):
                problems.append('offsets')
            else:
                if line != ref_info(text, pos, 'editor')[0] if pos <= len(text) else False:
                    problems.append('line')
                if endline != ref_info(text, endpos, 'editor')[0]:
                    problems.append('endline')
                tokn = rule.lstrip('_')[:1].isupper()      # upper-case rules do not skip whitespace at entry
                if not tokn and pos < endpos and text[pos].isspace():
                    problems.append('starts-in-whitespace')
                if not tokn and pos < endpos and (text.startswith('(*', pos) and 'comments' in c.g['directives']
                                     or text.startswith('#', pos) and 'eol_comments' in c.g['directives']):
                    problems.append('starts-in-comment')
            if problems:
                col.violation('oracle:parseinfo:' + '+'.join(problems),
                              f'parseinfo {inf} does not delimit the text consumed / has the wrong line',
                              {'oracle': 'parseinfo delimits', 'case': c.describe(), 'parseinfo': inf, 'problems': problems})
    if cases:
        col.sample(cases[len(cases) // 2].describe())


def main():
    chk = Check(PID)
    chk.rule = ('every string over {a, space, LF, CR} up to length 5 (quick) / 6 (thorough) and random texts up to length 41 '
                'with CRLF pairs and VT FF FS GS RS NEL LS PS, each at every offset 0..len+1, for TextLines and Buffer, every '
                'accessor (cursor.lineinfo/lineat/poscol/line/col, Buffer.lineinfo/posline/poscol/line/col, linecount, '
                'lines, line cache). Non-trivial: the text contains a line break; distinct by class and text.')
    chk.trusted += ['Python str.splitlines / re (the model of splitlines is compared with it; its table of line break '
                    'characters is compared over every code point)',
                    'modelled: splitlines(True), PosLine.build_line_cache, lineinfo/lineat/poscol/posline of both input '
                    'classes, linecount; not modelled here: parseinfo of rules (engine part of C12), includes/replace_lines '
                    'of Buffer, source names']
    chk.assumptions += ['offsets are 0..len (len+1 only in the correspondence); whitespace/comments settings play no part',
                        'at pos = len after a final line break: lineat/poscol are judged by the editor reading (a new empty '
                        'line, as linecount documents), lineinfo/Buffer.posline by the clamp reading (still the last line of '
                        'the split) because tests/buffering_test.py::test_line_info_consistency pins lineinfo(1+len).line',
                        'at pos = len lineat/poscol are not judged for texts ending in VT FF FS GS RS NEL LS PS '
                        '(property: LF, CR and CRLF conventions)']
    source_shape(chk)
    chk.coq()
    ok, out = vlib.build_modelrun('LineCache')
    chk.obligation('modelrun_LineCache builds', 'build', ok, out[-500:])
    if ok:
        mr = ModelRun('LineCache')
        linebreak_table(chk, mr)
        var = Variants()
        chk.extra['code_variant'] = {'sentinel': var.sentinel,
                                     'buffer_guards': {f'{k[0]}.{k[1]}': v for k, v in var.guard.items() if k[0] == 'Buffer'},
                                     'lineinfo_column_fixed': {f'{k[0]}.{k[1]}': v for k, v in var.colfix.items()}}
        if chk.replay:
            rep = json.loads(Path(chk.replay).read_text())
            cases = [rep.get('text', '')]
        else:
            cases = gen_cases(chk)
        seen: dict = {}
        ncorr = nspec = 0
        for i in range(0, len(cases), 2000):
            a, b = run_case_batch(chk, mr, var, cases[i:i + 2000], seen)
            ncorr += a
            nspec += b
        chk.obligation('L1:TextLines and Buffer vs LineCache.v on every text x offset', 'correspondence', ncorr == 0,
                       f'{ncorr} texts differ')
        chk.obligation('S1:Coq specification spec_info/spec_line = Python reference by regex split', 'correspondence',
                       nspec == 0, f'{nspec} differ')
        replay_witnesses(chk)
        ok2, out2 = vlib.build_modelrun('Engine')
        chk.obligation('modelrun_Engine builds', 'build', ok2, out2[-500:])
        if ok2:
            vlib.run_sharded(chk, shard_parseinfo, 14, extra=((8, 8) if chk.quick else (60, 12)))
            chk.obligation('E1 with parseinfo: rule/pos/endpos/line/endline of every dict result vs the engine model', 'correspondence',
                           not any(v['signature'].startswith('E1pinfo') for v in chk.violations))
            chk.obligation('parseinfo delimits the consumed text and its line matches the start offset (implementation only)', 'oracle',
                           not any(v['signature'].startswith('oracle:parseinfo') for v in chk.violations))
        chk.sample({'text': 'a\r\nb', 'reference': [ref_info('a\r\nb', p, 'editor') for p in range(5)]})
        chk.exhaustive = False
    return chk.finish()


if __name__ == '__main__':
    sys.exit(main())
