"""C12 (text/line part) - source positions are exact: lineinfo / lineat / poscol / linecount of TextLines
and of the legacy Buffer, against (a) the extracted Coq model (correspondence L1) and (b) an independent
Python reference that splits the text at its line breaks with a regular expression (oracle).

The parseinfo-of-rules part of C12 (engine: make_parseinfo/set_parseinfo) is not checked here.
"""
from __future__ import annotations

import ast
import json
import re
import sys
from pathlib import Path

sys.path.insert(0, str(Path(__file__).resolve().parent.parent))
import vlib
from vlib import Check, ModelRun, sx, sx_str

PID = 'C12'
ALPHA = 'a \n\r'
OTHER = '\x0b\x0c\x1c\x1d\x1e\x85\u2028\u2029'
SEPS = '\n\r' + OTHER


# ------------------------------------------------------------------ source shape (fail closed)
def source_shape(chk: Check):
    """The pieces of source the model was written against: which functions exist and the constants in them."""
    def funcs(path):
        tree = ast.parse((vlib.REPO / path).read_text())
        out = {}
        for cls in [n for n in tree.body if isinstance(n, ast.ClassDef)]:
            for fn in [n for n in cls.body if isinstance(n, ast.FunctionDef)]:
                out[f'{cls.name}.{fn.name}'] = fn
        for fn in [n for n in tree.body if isinstance(n, ast.FunctionDef)]:
            out[fn.name] = fn
        return out

    def consts(fn):
        return [n.value for n in ast.walk(fn) if isinstance(n, ast.Constant) and not isinstance(n.value, type(None))
                and not (isinstance(n.value, str) and len(n.value) > 60)]

    inf = funcs('tatsu/input/infos.py')
    blc = inf.get('PosLine.build_line_cache')
    ok = blc is not None and {'\r', '\n'} <= set(consts(blc)) and \
        not [c for c in consts(blc) if isinstance(c, str) and c not in ('\r', '\n')]
    chk.obligation('T1:infos.py build_line_cache newline set is {CR, LF}', 'translator', ok,
                   str(consts(blc) if blc else None))
    st = funcs('tatsu/util/strtools.py')
    lc = st.get('linecount')
    pats = [c for c in consts(lc) if isinstance(c, str)] if lc else []
    chk.obligation('T1:strtools.py linecount regex', 'translator', pats == [r'(?m)\r?\n|\r'], str(pats))
    for path, cls, names in (
            ('tatsu/input/textlines.py', 'TextLines', ['split_block_lines', 'join_block_lines', '_postprocess']),
            ('tatsu/input/textlines.py', 'TextLinesCursor', ['lineinfo', 'lineat', 'poscol']),
            ('tatsu/input/buffer.py', 'Buffer', ['split_block_lines', 'join_block_lines', '_postprocess', 'lineinfo',
                                                 'posline', 'poscol']),
            ('tatsu/input/buffer.py', 'BufferCursor', ['lineinfo', 'lineat', 'poscol'])):
        fs = funcs(path)
        missing = [n for n in names if f'{cls}.{n}' not in fs]
        ok = not missing
        if ok and 'split_block_lines' in names:
            src = ast.unparse(fs[f'{cls}.split_block_lines'])
            ok = 'splitlines(True)' in src
        chk.obligation(f'T1:{cls} has the modelled methods', 'translator', ok, f'missing {missing}')


# ------------------------------------------------------------------ independent reference (the oracle)
_S = ''.join('\\x%02x' % ord(c) if ord(c) < 256 else '\\u%04x' % ord(c) for c in SEPS)
LINE_RE = re.compile('[^%s]*(?:\r\n|[%s])|[^%s]+' % (_S, _S, _S))


def ref_lines(s: str) -> list[str]:
    """the text split at its line breaks, each line with its terminator"""
    return LINE_RE.findall(s)


def ref_info(s: str, pos: int, reading: str):
    """(line, col, start, end, text) of offset pos, 0 <= pos <= len(s).
    At pos == len(s) after a final line break: reading 'editor' = a new empty last line,
    reading 'clamp' = still the last line of the split (what tests/buffering_test.py pins for lineinfo)."""
    lines = ref_lines(s)
    start = 0
    for n, l in enumerate(lines):
        if pos < start + len(l):
            return (n, pos - start, start, start + len(l), l)
        start += len(l)
    assert pos == len(s)
    if not lines:
        return (0, 0, 0, 0, '')
    last = lines[-1]
    if last[-1] in SEPS and reading == 'editor':
        return (len(lines), 0, len(s), len(s), '')
    st = len(s) - len(last)
    return (len(lines) - 1, pos - st, st, len(s), last)


def ref_linecount(s: str) -> int:
    return len(s.replace('\r\n', '\n').replace('\r', '\n').split('\n'))


# ------------------------------------------------------------------ observation of the real code
def _call(f, *a):
    try:
        v = f(*a)
    except IndexError:
        return 'IndexError'
    except Exception as e:  # noqa: BLE001
        return 'raise:' + type(e).__name__
    if hasattr(v, 'text') and hasattr(v, 'col'):
        return (v.line, v.col, v.start, v.end, v.text)
    return v


def _prop(obj, name):
    try:
        return getattr(obj, name)
    except IndexError:
        return 'IndexError'
    except Exception as e:  # noqa: BLE001
        return 'raise:' + type(e).__name__


def observe(cls_name: str, s: str, upto: int) -> dict:
    """every accessor at every offset 0..upto; {accessor: [value per offset]} plus linecount/lines/cache"""
    from tatsu.input.buffer import Buffer
    from tatsu.input.textlines import TextLines
    cls = TextLines if cls_name == 'TextLines' else Buffer
    t = cls(s, whitespace='')
    c = t.newcursor()
    text = t.textstr if cls_name == 'TextLines' else t.text
    cache = t.line_cache if cls_name == 'TextLines' else t.linecache
    obs = {'text': text, 'lines': list(t.lines), 'cache': [tuple(p) for p in cache],
           'linecount': _prop(t, 'linecount'), 'cursor.linecount': _prop(c, 'linecount'), 'len': len(c)}
    acc = {'cursor.lineinfo': [], 'cursor.lineat': [], 'cursor.poscol': [], 'cursor.line': [], 'cursor.col': []}
    if cls_name == 'Buffer':
        acc.update({'buf.lineinfo': [], 'buf.posline': [], 'buf.poscol': [], 'buf.line': [], 'buf.col': []})
    for p in range(upto + 1):
        acc['cursor.lineinfo'].append(_call(c.lineinfo, p))
        acc['cursor.lineat'].append(_call(c.lineat, p))
        acc['cursor.poscol'].append(_call(c.poscol, p))
        c.goto(p)
        acc['cursor.line'].append((c.pos, _prop(c, 'line')))
        acc['cursor.col'].append((c.pos, _prop(c, 'col')))
        if cls_name == 'Buffer':
            acc['buf.lineinfo'].append(_call(t.lineinfo, p))
            acc['buf.posline'].append(_call(t.posline, p))
            acc['buf.poscol'].append(_call(t.poscol, p))
            t.goto(p)
            acc['buf.line'].append((t.pos, _prop(t, 'line')))
            acc['buf.col'].append((t.pos, _prop(t, 'col')))
    obs['acc'] = acc
    return obs


# ------------------------------------------------------------------ cursors that have MOVED (state independence)
# observe() asks every accessor of a cursor that is fresh or was just sent to the offset it is asked about.  The answers
# for an EXPLICIT offset must not depend on where the cursor (or the legacy Buffer, which carries a position itself)
# stands, however it got there, and the forms WITHOUT an argument must answer for the cursor's own position; none of the
# accessors (nor the tracer's lookahead()/lookahead_pos()) may move the cursor.
MOVERS = ('goto', 'move', 'next', 'clone', 'copy', 'ctor', 'back')
BUF_MOVERS = ('goto', 'move', 'next', 'back')


def parked_cursor(t, park: int, how: str):
    """a cursor of the input t that stands at offset park, brought there by `how`"""
    import copy
    c = t.newcursor()
    if how == 'goto':
        c.goto(park)
    elif how == 'move':
        c.move(park)
    elif how == 'next':
        for _ in range(park):
            c.next()
    elif how == 'clone':
        c.goto(park)
        c = c.clone()
    elif how == 'copy':
        c.goto(park)
        c = copy.copy(c)
    elif how == 'ctor':
        c = type(c)(t, pos=park)
    else:                       # all the way to the end and back
        c.goto(len(c))
        c.move(park - len(c))
    return c


def park_buffer(t, park: int, how: str):
    if how == 'goto':
        t.goto(park)
    elif how == 'move':
        t.goto(0)
        t.move(park)
    elif how == 'next':
        t.goto(0)
        for _ in range(park):
            t.next()
    else:
        t.goto(len(t.text))
        t.move(park - len(t.text))


def moved_plan(s: str, idx: int, exhaustive: bool) -> list[tuple[int, str]]:
    """[(park offset, how the cursor gets there)] - every offset for short texts, a spread for long ones; the way of
    moving rotates with the case index so that every pair (way, park class) comes up"""
    n = len(s)
    parks = list(range(n + 1)) if exhaustive or n <= 6 else sorted({(idx * 7 + 3) % (n + 1), n if idx % 2 else n // 2, 1})
    return [(p, MOVERS[(idx + k + p) % len(MOVERS)]) for k, p in enumerate(parks)]


def observe_moved(cls_name: str, s: str, plan) -> list[dict]:
    """for every (park, how): the answers of a cursor standing at park for every explicit offset 0..len+1, the forms
    without argument, get_line, and where the cursor stands afterwards"""
    from tatsu.input.buffer import Buffer
    from tatsu.input.textlines import TextLines
    cls = TextLines if cls_name == 'TextLines' else Buffer
    n = len(s)
    out = []
    for park, how in plan:
        t = cls(s, whitespace='')
        try:
            c = parked_cursor(t, park, how)
        except Exception as e:  # noqa: BLE001
            out.append({'park': park, 'how': how, 'broken': 'raise:' + type(e).__name__})
            continue
        rec = {'park': park, 'how': how, 'pos': c.pos, 'explicit': {}, 'noarg': {}, 'moved_by': []}
        for name, f in (('cursor.lineinfo', c.lineinfo), ('cursor.lineat', c.lineat), ('cursor.poscol', c.poscol)):
            vals = []
            for p in range(n + 2):
                vals.append(_call(f, p))
                if c.pos != rec['pos'] and name not in rec['moved_by']:
                    rec['moved_by'].append(name)
                    c.goto(rec['pos'])
            rec['explicit'][name] = vals
            rec['noarg'][name] = _call(f)
        rec['noarg']['cursor.line'] = (c.pos, _prop(c, 'line'))
        rec['noarg']['cursor.col'] = (c.pos, _prop(c, 'col'))
        nl = len(t.lines)
        rec['get_line'] = [_call(c.get_line, k) for k in range(nl)]
        rec['get_line()'] = _call(c.get_line)
        rec['get_lines'] = _call(c.get_lines, 0, nl)
        for name in ('lookahead', 'lookahead_pos', 'atend', 'ateol', 'peek', 'lineinfo', 'lineat', 'poscol', 'get_line'):
            before = c.pos
            _call(getattr(c, name))
            if c.pos != before:
                rec['moved_by'].append(name + '()')
                c.goto(before)
        if cls_name == 'Buffer':
            bhow = BUF_MOVERS[(park + len(how)) % len(BUF_MOVERS)]
            park_buffer(t, park, bhow)
            rec['bhow'] = bhow
            rec['bpos'] = t.pos
            for name, f in (('buf.lineinfo', t.lineinfo), ('buf.posline', t.posline), ('buf.poscol', t.poscol)):
                rec['explicit'][name] = [_call(f, p) for p in range(n + 2)]
                rec['noarg'][name] = _call(f)
            rec['noarg']['buf.line'] = (t.pos, _prop(t, 'line'))
            rec['noarg']['buf.col'] = (t.pos, _prop(t, 'col'))
            rec['buf.get_line'] = [_call(t.get_line, k) for k in range(nl)]
            rec['buf.get_line()'] = _call(t.get_line)
            if t.pos != rec['bpos']:
                rec['moved_by'].append('Buffer accessors')
            # the buffer's own position must not leak into a cursor of it either
            c2 = t.newcursor()
            rec['explicit']['cursor.lineinfo@buffer-moved'] = [_call(c2.lineinfo, p) for p in range(n + 2)]
        out.append(rec)
    return out


NOARG_OF = {'cursor.line': 'cursor.line', 'cursor.col': 'cursor.col', 'buf.line': 'buf.line', 'buf.col': 'buf.col'}


def moved_findings(cls_name: str, s: str, idx: int, exhaustive: bool, fresh: dict | None = None, moved=None):
    """implementation-only oracle: [(signature, what, detail)] - a moved cursor answers like a fresh one"""
    if fresh is None:
        fresh = observe(cls_name, s, len(s) + 1)
    if moved is None:
        moved = observe_moved(cls_name, s, moved_plan(s, idx, exhaustive))
    n = len(s)
    lines = ref_lines(s)
    out = []
    for rec in moved:
        park, how = rec['park'], rec['how']
        here = f'{cls_name}({s!r}) cursor brought to {park} by {how}'
        if 'broken' in rec:
            out.append((f'state:{cls_name}:cannot-move:{how}:{rec["broken"]}', f'{here}: {rec["broken"]}', {'park': park, 'how': how}))
            continue
        if rec['pos'] != park:
            out.append((f'state:{cls_name}:position-after:{how}', f'{here} stands at {rec["pos"]}', {'park': park, 'how': how}))
            continue
        for name in rec['moved_by']:
            out.append((f'state:{cls_name}:{name}:moves-the-cursor', f'{here}: {name} left it somewhere else',
                        {'park': park, 'how': how}))
        for acc, vals in rec['explicit'].items():
            base = acc.split('@')[0]
            for p in range(n + 2):
                if vals[p] != fresh['acc'][base][p]:
                    cls0 = 'zero' if p == 0 else ('end' if p >= n else 'mid')
                    out.append((f'state:{cls_name}.{acc}:explicit-offset-{cls0}:depends-on-position',
                                f'{here}: {acc.split("@")[0]}({p}) = {vals[p]!r}, a fresh cursor says {fresh["acc"][base][p]!r}',
                                {'park': park, 'how': how, 'pos': p, 'bhow': rec.get('bhow')}))
                    break
        for acc, v in rec['noarg'].items():
            pp = rec['bpos'] if acc.startswith('buf.') else park
            want = fresh['acc'][acc][pp]
            if v != want:
                out.append((f'state:{cls_name}.{acc}:no-argument:not-the-own-position',
                            f'{here}: {acc}() = {v!r}, for its own position {pp} a fresh cursor says {want!r}',
                            {'park': park, 'how': how, 'bhow': rec.get('bhow')}))
        for key in ('get_line', 'buf.get_line'):
            if key in rec and rec[key] != lines:
                out.append((f'state:{cls_name}.{key}:explicit-line', f'{here}: {key}(k) for every k = {rec[key]!r}, the lines are {lines!r}',
                            {'park': park, 'how': how}))
        if rec['get_lines'] != lines:
            out.append((f'state:{cls_name}.get_lines', f'{here}: get_lines(0, {len(lines)}) = {rec["get_lines"]!r}', {'park': park, 'how': how}))
        for key, pp in (('get_line()', park), ('buf.get_line()', rec.get('bpos'))):
            if key in rec and pp is not None and pp < n and rec[key] != ref_info(s, pp, 'clamp')[4]:
                out.append((f'state:{cls_name}.{key}:not-the-own-line', f'{here}: {key} = {rec[key]!r}, offset {pp} lies in {ref_info(s, pp, "clamp")[4]!r}',
                            {'park': park, 'how': how}))
    return out


def moved_model_diffs(cls_name: str, s: str, moved: list[dict], q1, q0, var) -> list[tuple]:
    """L1 on moved cursors: the model's answer for the offset (explicit, or the cursor's own) whatever the position"""
    n = len(s)
    diffs = []
    for rec in moved:
        if 'broken' in rec:
            continue
        for acc, vals in rec['explicit'].items():
            base = acc.split('@')[0]
            q = q1 if var.g(cls_name, base) else q0
            for p in range(n + 2):
                want = model_expect(cls_name, base, q, p, n, var.colfix.get((cls_name, base), False))
                if vals[p] != want:
                    diffs.append((f'moved:{acc}({p}) with the cursor at {rec["park"]} by {rec["how"]}', vals[p], want))
                    break
        for acc, v in rec['noarg'].items():
            pp = rec['bpos'] if acc.startswith('buf.') else rec['pos']
            q = q1 if var.g(cls_name, acc) else q0
            want = model_expect(cls_name, acc, q, pp, n, var.colfix.get((cls_name, acc), False))
            if v != want:
                diffs.append((f'moved:{acc}() with the cursor at {pp} by {rec["how"]}', v, want))
    return diffs


# accessor -> (family, guard key) ; family decides the model column and the oracle reading
FAMILY = {
    'TextLines': {'cursor.lineinfo': 'lineinfo', 'cursor.lineat': 'lineat', 'cursor.poscol': 'poscol',
                  'cursor.line': 'lineat@', 'cursor.col': 'poscol@'},
    'Buffer': {'cursor.lineinfo': 'lineinfo', 'cursor.lineat': 'lineat', 'cursor.poscol': 'poscol',
               'cursor.line': 'posline@', 'cursor.col': 'poscol@',
               'buf.lineinfo': 'lineinfo', 'buf.posline': 'posline', 'buf.poscol': 'poscol',
               'buf.line': 'posline@', 'buf.col': 'poscol@'},
}


# ------------------------------------------------------------------ model side
def _opt(x, conv):
    if x == 'none':
        return 'IndexError'
    return conv(x[1])


def _li(x):
    return (int(x[0]), int(x[1]), int(x[2]), int(x[3]), sx_str(x[4]))


def parse_query(rep):
    """model reply of (query ...) -> per offset dict"""
    out = []
    for e in rep:
        out.append({'lineinfo': _opt(e[0], _li), 'lineat': _opt(e[1], int), 'poscol': _opt(e[2], int),
                    'posline': _opt(e[3], int), 'lineinfo_cf': _opt(e[4], _li)})
    return out


def model_expect(cls_name, accessor, q, p, n, colfix=False):
    """what the model predicts for `accessor` at offset p (text length n)"""
    fam = FAMILY[cls_name][accessor]
    if fam == 'lineinfo' and colfix:
        fam = 'lineinfo_cf'
    if fam.endswith('@'):              # property read after goto(p): goto clamps to [0, len]
        pp = max(0, min(n, p))
        return (pp, q[pp][fam[:-1]])
    return q[p][fam]


class Variants:
    """which sentinel variant / which guards the code under test has (probed, then every case must agree)"""

    def __init__(self):
        from tatsu.input.infos import PosLine
        from tatsu.input.buffer import Buffer
        cache, _ = PosLine.build_line_cache(['a'], 1)
        self.sentinel = 'fixed' if tuple(cache[-1]) == (0, 0, 1) else 'shipped'
        b = Buffer('', whitespace='')
        c = b.newcursor()
        self.guard = {
            ('TextLines', 'cursor.lineat'): 1, ('TextLines', 'cursor.poscol'): 1,
            ('TextLines', 'cursor.line'): 1, ('TextLines', 'cursor.col'): 1,
            ('Buffer', 'cursor.lineat'): int(_call(c.lineat, 0) != 'IndexError'),
            ('Buffer', 'cursor.poscol'): int(_call(c.poscol, 0) != 'IndexError'),
            ('Buffer', 'buf.poscol'): int(_call(b.poscol, 0) != 'IndexError'),
        }
        # which lineinfo bodies compute the column from the unclamped offset (fixes/C12-lineinfo-col.patch)
        from tatsu.input.textlines import TextLines
        ba = Buffer('a', whitespace='')
        self.colfix = {
            ('TextLines', 'cursor.lineinfo'): _call(TextLines('a', whitespace='').newcursor().lineinfo, 1)[1] == 1,
            ('Buffer', 'cursor.lineinfo'): _call(ba.newcursor().lineinfo, 1)[1] == 1,
            ('Buffer', 'buf.lineinfo'): _call(ba.lineinfo, 1)[1] == 1,
        }
        self.guard[('Buffer', 'cursor.col')] = self.guard[('Buffer', 'buf.poscol')]
        self.guard[('Buffer', 'buf.col')] = self.guard[('Buffer', 'buf.poscol')]

    def g(self, cls_name, accessor):
        return self.guard.get((cls_name, accessor), 1)


# ------------------------------------------------------------------ oracle on one observed text
def oracle_findings(cls_name: str, s: str, obs: dict) -> list[tuple[str, str, dict]]:
    """violations of the property by the real code on text s: [(signature, what, detail)]"""
    out = []
    n = len(s)
    if obs['text'] != s:
        out.append((f'text:{cls_name}:changed', f'{cls_name}({s!r}) holds the text {obs["text"]!r}', {}))
    if obs['lines'] != ref_lines(s):
        out.append((f'lines:{cls_name}', f'{cls_name}({s!r}).lines = {obs["lines"]!r}, split gives {ref_lines(s)!r}', {}))
    for key in ('linecount', 'cursor.linecount'):
        if obs[key] != ref_linecount(s):
            out.append((f'linecount:{cls_name}', f'{cls_name}({s!r}).{key} = {obs[key]!r}, expected {ref_linecount(s)}', {}))
    other_tail = bool(s) and s[-1] in OTHER
    for accessor, values in obs['acc'].items():
        fam = FAMILY[cls_name][accessor]
        for p in range(n + 1):
            got = values[p]
            if fam.endswith('@'):
                if got[0] != p:
                    out.append((f'goto:{cls_name}', f'goto({p}) left pos={got[0]}', {}))
                    continue
                got = got[1]
            base = fam.rstrip('@')
            where = 'empty' if n == 0 else ('end' if p == n else 'mid')
            if p == n and other_tail and base in ('lineat', 'poscol'):
                # the text ends in VT/FF/FS/GS/RS/NEL/LS/PS: outside "LF, CR and CRLF conventions"; the sentinel
                # only knows CR and LF (recorded as an observation in notes/C12.md), the model covers it
                continue
            reading = 'clamp' if base in ('lineinfo', 'posline') else 'editor'
            ref = ref_info(s, p, reading)
            if base == 'lineinfo':
                if not isinstance(got, tuple):
                    out.append((f'{where}:{cls_name}.lineinfo:{got}', f'{cls_name}({s!r}) {accessor}({p}) -> {got}',
                                {'accessor': accessor, 'pos': p}))
                    continue
                for i, field in enumerate(('line', 'col', 'start', 'end', 'text')):
                    if got[i] != ref[i]:
                        kind = f'{got[i] - ref[i]:+d}' if isinstance(ref[i], int) else 'differs'
                        out.append((f'{where}:{cls_name}.lineinfo.{field}:{kind}',
                                    f'{cls_name}({s!r}) {accessor}({p}).{field} = {got[i]!r}, splitting the text gives {ref[i]!r}',
                                    {'accessor': accessor, 'pos': p, 'got': got, 'expected': ref}))
            else:
                want = ref[0] if base in ('lineat', 'posline') else ref[1]
                if got != want:
                    if not isinstance(got, int):
                        kind = str(got)
                    elif base == 'poscol' and got == 0:
                        kind = 'col=0'
                    else:
                        kind = f'{got - want:+d}'
                    out.append((f'{where}:{cls_name}.{base}:{kind}',
                                f'{cls_name}({s!r}) {accessor}({p}) = {got!r}, splitting the text gives {want!r}',
                                {'accessor': accessor, 'pos': p, 'got': got, 'expected': want}))
    return out


# ------------------------------------------------------------------ drive
def gen_cases(chk: Check) -> list[str]:
    n = 5 if chk.quick else 6
    cases = list(vlib.all_strings(ALPHA, n))
    chk.extra['exhaustive_scope'] = f'all {len(cases)} strings over {{a, space, LF, CR}} up to length {n} x offsets 0..len+1 x TextLines, Buffer'
    rng = chk.rng
    alpha2 = 'ab \n\r' + OTHER + '\t\xe9\U0001f600'
    for i in range(1500 if chk.quick else 15000):
        k = rng.randint(1, 40)
        parts = []
        while len(parts) < k:
            r = rng.random()
            if r < 0.12:
                parts.append('\r\n')
            elif r < 0.45:
                parts.append(rng.choice(SEPS))
            else:
                parts.append(rng.choice(alpha2))
        s = ''.join(parts)
        if i % 7 == 0:
            s += rng.choice(SEPS)
        cases.append(s)
    return cases


def run_case_batch(chk: Check, mr: ModelRun, var: Variants, cases: list[str], seen_sigs: dict, first: int = 0, nexh: int = 0):
    reqs = []
    for s in cases:
        up = len(s) + 1
        reqs.append(f'(query 1 {var.sentinel} {sx(s)} {up})')
        reqs.append(f'(query 0 {var.sentinel} {sx(s)} {up})')
        reqs.append(f'(cache {var.sentinel} {sx(s)})')
        reqs.append(f'(spec {sx(s)})')
        reqs.append(f'(linecount {sx(s)})')
        reqs.append(f'(splitlines {sx(s)})')
    reps = mr.ask(reqs)
    ncorr = 0
    nspec = 0
    for k, s in enumerate(cases):
        q1, q0 = parse_query(reps[6 * k]), parse_query(reps[6 * k + 1])
        crep = reps[6 * k + 2]
        mcache = [tuple(int(x) for x in e) for e in crep[0]] if crep[0] != 'nil' else []
        spec = reps[6 * k + 3]
        mlinecount = int(reps[6 * k + 4])
        mlines = [sx_str(x) for x in reps[6 * k + 5]] if reps[6 * k + 5] != 'nil' else []
        n = len(s)
        has_brk = any(c in SEPS for c in s)
        # S1: the Coq specification is the Python reference (editor reading at pos = len)
        for p in range(n + 1):
            e = spec[p]
            got = (int(e[0]), int(e[1]), int(e[2]), int(e[3]), sx_str(e[4]))
            if got != ref_info(s, p, 'editor'):
                nspec += 1
                chk.violation('spec:coq-vs-reference', f'Coq spec_info differs from the Python reference on {s!r} at {p}',
                              {'text': s, 'pos': p, 'coq': got, 'reference': ref_info(s, p, 'editor')})
        if int(spec[n][5]) + 1 != ref_linecount(s):
            nspec += 1
            chk.violation('spec:coq-linecount', f'Coq crlf break count differs from the reference on {s!r}', {'text': s})
        for cls_name in ('TextLines', 'Buffer'):
            obs = observe(cls_name, s, n + 1)
            chk.case(f'{cls_name}:{s}', nontrivial=has_brk)
            chk.count(f'{cls_name}.texts')
            chk.count('offsets', n + 2)
            if has_brk:
                chk.count('texts.with-linebreak')
            if s and s[-1] in SEPS:
                chk.count('texts.trailing-linebreak')
            if any(c in OTHER for c in s):
                chk.count('texts.other-separators')
            # ---- L1 correspondence
            diffs = []
            if obs['lines'] != mlines:
                diffs.append(('lines', obs['lines'], mlines))
            if obs['text'] != s:
                diffs.append(('text', obs['text'], s))
            if obs['cache'] != mcache:
                diffs.append(('cache', obs['cache'], mcache))
            if obs['linecount'] != mlinecount or obs['cursor.linecount'] != mlinecount:
                diffs.append(('linecount', obs['linecount'], mlinecount))
            if obs['len'] != n:
                diffs.append(('len', obs['len'], n))
            for accessor, values in obs['acc'].items():
                q = q1 if var.g(cls_name, accessor) else q0
                for p in range(n + 2):
                    want = model_expect(cls_name, accessor, q, p, n, var.colfix.get((cls_name, accessor), False))
                    if values[p] != want:
                        diffs.append((f'{accessor}({p})', values[p], want))
                        break
            # ---- the same on cursors that have moved (every accessor again, explicit offsets and the forms without argument)
            idx = first + k
            exh = idx < nexh
            moved = observe_moved(cls_name, s, moved_plan(s, idx, exh))
            chk.count(f'{cls_name}.moved-cursors', len(moved))
            for rec in moved:
                chk.count('moved.by.' + rec['how'])
            diffs += moved_model_diffs(cls_name, s, moved, q1, q0, var)
            if diffs:
                ncorr += 1
                what, impl, model = diffs[0]
                chk.violation(f'corr:{cls_name}:{what.split("(")[0]}',
                              f'{cls_name}({s!r}) {what}: code {impl!r}, model[{var.sentinel}] {model!r}',
                              {'correspondence': 'L1', 'class': cls_name, 'text': s, 'what': what, 'impl': impl,
                               'model': model, 'variant': var.sentinel, 'all': [d[0] for d in diffs]})
            # ---- oracle
            for sig, what, detail in oracle_findings(cls_name, s, obs):
                if sig not in seen_sigs:
                    small = vlib.shrink_string(
                        s, lambda t: any(f[0] == sig for f in oracle_findings(cls_name, t, observe(cls_name, t, len(t) + 1))))
                    f = [f for f in oracle_findings(cls_name, small, observe(cls_name, small, len(small) + 1)) if f[0] == sig][0]
                    seen_sigs[sig] = (f[1], {'oracle': 'reference by regex split', 'class': cls_name, 'text': small, **f[2]})
                w, rep = seen_sigs[sig]
                chk.violation(sig, w, rep)
            for sig, what, detail in moved_findings(cls_name, s, idx, exh, obs, moved):
                if sig not in seen_sigs:
                    small = vlib.shrink_string(s, lambda t: any(f[0] == sig for f in moved_findings(cls_name, t, idx, True)))
                    fs = [f for f in moved_findings(cls_name, small, idx, True) if f[0] == sig] or [(sig, what, detail)]
                    if fs[0][1] is what:
                        small = s
                    seen_sigs[sig] = (fs[0][1], {'oracle': 'a cursor that has moved answers like a fresh one', 'class': cls_name,
                                                 'text': small, 'moved_case_index': idx, **fs[0][2]})
                w, rep = seen_sigs[sig]
                chk.violation(sig, w, rep)
    return ncorr, nspec


def linebreak_table(chk: Check, mr: ModelRun):
    model = sorted(int(x) for x in mr.ask(['(linebreaks)'])[0])
    py = [c for c in range(0x110000) if not (0xD800 <= c <= 0xDFFF) and len(('a' + chr(c) + 'b').splitlines()) == 2]
    chk.obligation('L1:line break table = str.splitlines over every code point', 'correspondence', model == py,
                   f'model {model} python {py}')
    ok = sorted(ord(c) for c in SEPS) == py
    chk.obligation('oracle separator set = str.splitlines over every code point', 'oracle', ok, str(py))


def replay_witnesses(chk: Check):
    """the witnesses of the _refuted theorems, replayed on the code under test (informative; the oracle decides)"""
    from tatsu.input.buffer import Buffer
    from tatsu.input.textlines import TextLines
    t = TextLines('a', whitespace='').newcursor()
    b = Buffer('', whitespace='').newcursor()
    chk.extra['refuted_witness_replay'] = {
        "TextLines('a').lineat(1)  [split: 0]": _call(t.lineat, 1),
        "TextLines('a').poscol(1)  [split: 1]": _call(t.poscol, 1),
        "TextLines('a').lineinfo(1).col  [split: 1]": _call(t.lineinfo, 1)[1],
        "Buffer('').newcursor().lineat(0)  [split: 0]": _call(b.lineat, 0),
    }



# ------------------------------------------------------------------ parse information of rules (engine part)
def _walk_infos(canon, out):
    if isinstance(canon, dict):
        if 'dict' in canon:
            d = canon['dict']
            if d.get('parseinfo') is not None:
                out.append(d['parseinfo'])
            for k, v in d.items():
                if k not in ('parseinfo', '__parseinfo__'):
                    _walk_infos(v, out)
        else:
            for v in canon.values():
                _walk_infos(v, out)
    elif isinstance(canon, list):
        for x in canon:
            _walk_infos(x, out)


def shard_parseinfo(col, shard_i, ngrammars, ninputs):
    """grammars with named rules x inputs with parseinfo on: implementation vs engine model (rule, pos, endpos, line,
    endline of every dict result) and the property oracle on the implementation."""
    import enginelib as E
    import enginegen as G
    import enginerun as R
    mr = ModelRun('Engine')
    rng = col.rng
    cases = []
    for gi in range(ngrammars):
        cfg = G.GenCfg(names=0.3, overrides=0.0, dots=0.0, skipto=0.0, consts=0.0)
        g = G.gen_grammar(rng, cfg, depth=rng.choice([2, 3]))
        # make every rule produce a dict: wrap the body in a named group, and let some rules match empty
        rules = []
        for i, (n, d, e) in enumerate(g['rules']):
            body = ('named', False, 'val', ('group', e)) if rng.random() < 0.7 else e
            if i > 0 and rng.random() < 0.3:
                body = ('seq', [('named', False, 'opt', ('opt', ('tok', 'zz'))), body]) if rng.random() < 0.5 else ('named', False, 'opt', ('opt', ('tok', 'zz')))
            if i > 0 and rng.random() < 0.3:
                d = list(d) + ['nomemo']       # @nomemo rules take another path to their memo key (and so to parseinfo.pos)
            rules.append((n, d, body))
        g['rules'] = rules
        both = rng.random() < 0.6
        if both or rng.random() < 0.3:
            g['directives']['comments'] = r'\(\*.*?\*\)'
        if both or rng.random() < 0.3:
            g['directives']['eol_comments'] = r'#[^\n]*'
        gaps = [' ', ' ', '\n', '\r\n', '  ', '\t']
        if 'comments' in g['directives']:
            gaps += [' (* c *) ', '(* c *)']
        if 'eol_comments' in g['directives']:
            gaps += [' # e\n', '# e\n']
        if both:
            gaps += ['(* c *)# e\n', ' (* c *)# e\n ', '# e\n(* c *)']
        for _ in range(ninputs):
            lex = G.sample_sentence(rng, g, g['rules'][0][2])
            t = G.join_lexemes(rng, lex, gaps=tuple(gaps))
            t = rng.choice(['', '', ' ', '\n'] + gaps[-2:]) + t + rng.choice(['', '\n', '\r\n', ' \n', '\r'] + gaps[-1:])
            cases.append(R.Case(g, t[:60], None, E.Settings(parseinfo=True)))
    # rules that hand on the AST of another rule (lone call, override, the SAME rule recursively) and a rule used in a lookahead and
    # then for the real match at the same offset: the memo cache serves one object to both, each must carry its own record
    for _ in range(max(2, ngrammars // 3)):
        h = rng.choice([
            ('choice', [('seq', [('tok', '('), ('over', False, ('call', 'h')), ('tok', ')')]), ('named', False, 'v', ('pat', r'[a-z]+'))]),
            ('call', 'k'),
            ('seq', [('over', False, ('call', 'k')), ('opt', ('tok', '!'))]),
        ])
        start = rng.choice([
            ('choice', [('seq', [('call', 'h'), ('tok', '!'), 'eof']), ('seq', [('tok', '('), ('named', False, 'inner', ('call', 'h')), ('tok', ')'), 'eof']), ('call', 'h')]),
            ('choice', [('seq', [('look', False, ('seq', [('call', 'h'), ('tok', '=')])), ('named', False, 'lhs', ('call', 'h')), ('tok', '='), ('named', False, 'rhs', ('call', 'h'))]),
                        ('named', False, 'call', ('call', 'h'))]),
            ('seq', [('look', True, ('seq', [('call', 'h'), ('tok', '?')])), ('rep', True, None, False, ('call', 'h'))]),
        ])
        g = {'rules': [('start', [], start), ('h', ['nomemo'] if rng.random() < 0.2 else [], h), ('k', [], ('named', False, 'v', ('pat', r'[a-z]+')))],
             'directives': {}, 'keywords': []}
        for t in ['(x)', '(x)!', '((x))', 'x', 'x = y', 'x=y', ' x  =  y ', 'x y z', '(x', 'x ?', 'x!', '\n(x)\n']:
            cases.append(R.Case(g, t, None, E.Settings(parseinfo=True)))
            cases.append(R.Case(g, t, None, E.Settings(parseinfo=True, memoization=False)))
    results = []
    for off in range(0, len(cases), 400):
        results += R.run_cases(mr, cases[off:off + 400])
    for (c, io, mo, extra) in results:
        fp = ['pinfo', E.grammar_text(c.g), c.text]
        if mo is None:
            col.case(fp, nontrivial=False)
            continue
        infos = []
        if io[0] == 'ok':
            _walk_infos(io[1], infos)
        col.case(fp, nontrivial=bool(infos))
        col.count('parseinfo.results.' + io[0])
        col.count('parseinfo.entries', len(infos))
        if mo[0] != 'recursion' and io != mo:
            def bad(cc):
                rr = R.run_cases(mr, [cc])[0]
                return rr[2] is not None and rr[2][0] != 'recursion' and rr[1] != rr[2]
            small = R.shrink_case(c, bad, budget=120)
            rr = R.run_cases(mr, [small])[0]
            col.violation(f'E1pinfo:{R.kinds_signature(small)}:{sorted(small.g["directives"])}:impl={rr[1][0]}:model={rr[2][0] if rr[2] else None}',
                          'implementation and engine model disagree with parseinfo on (value or parseinfo entries)',
                          {'correspondence': 'E1 with parseinfo', 'case': small.describe(), 'impl': rr[1], 'model': rr[2]})
        names = {n for n, _, _ in c.g['rules']}
        text = c.text
        for inf in infos:
            _, rule, pos, endpos, line, endline = inf
            problems = []
            if rule not in names:
                problems.append('rule')
            if not (0 <= pos <= endpos <= len(text)):
                problems.append('offsets')
            else:
                if line != ref_info(text, pos, 'editor')[0] if pos <= len(text) else False:
                    problems.append('line')
                if endline != ref_info(text, endpos, 'editor')[0]:
                    problems.append('endline')
                tokn = rule.lstrip('_')[:1].isupper()      # upper-case rules do not skip whitespace at entry
                if not tokn and pos < endpos and text[pos].isspace():
                    problems.append('starts-in-whitespace')
                if not tokn and pos < endpos and (text.startswith('(*', pos) and 'comments' in c.g['directives']
                                     or text.startswith('#', pos) and 'eol_comments' in c.g['directives']):
                    problems.append('starts-in-comment')
            if problems:
                col.violation('oracle:parseinfo:' + '+'.join(problems),
                              f'parseinfo {inf} does not delimit the text consumed / has the wrong line',
                              {'oracle': 'parseinfo delimits', 'case': c.describe(), 'parseinfo': inf, 'problems': problems})
    if cases:
        col.sample(cases[len(cases) // 2].describe())


# ------------------------------------------------------------------ parse information under OBSERVERS and other inputs
# shard_parseinfo parses a str with parseinfo on and nothing else.  This family mirrors its generator (other cases: its
# own random stream) and parses every case again under configurations that must not change the result:
#   * trace=True (the ConsoleTracer is handed the parser's LIVE cursor at every rule entry/exit, token and cut),
#     with colorize on/off, trace_filename (asks the cursor for lineinfo()), short trace_length, memoization off;
#   * the text handed over as a legacy Buffer with the same whitespace/comments (and that traced as well);
# O1 (correspondence): plain str parse vs the engine model (E1 with parseinfo, as shard_parseinfo); every variant vs
#     the plain parse: outcome, value, rule/pos/endpos/line/endline of every dict, and for failures the exception
#     class, offset and FailedParse.info.
# O2 (oracle, implementation only): the cursor kept in every ParseInfo - it has MOVED (it rests where the rule ended) -
#     answers lineinfo(pos)/lineat(pos)/poscol(pos), lineinfo(endpos)/lineat(endpos) like a fresh cursor and like the
#     split of the text, agrees with the record's line/endline, and holds the text that was parsed.
OBSERVERS = [
    ('trace', {'trace': True, 'colorize': False}),
    ('trace', {'trace': True}),
    ('trace+colorize', {'trace': True, 'colorize': True}),
    ('trace+filename', {'trace': True, 'colorize': False, 'trace_filename': True}),
    ('trace+short', {'trace': True, 'colorize': False, 'trace_length': 4}),
    ('trace+nomemo', {'trace': True, 'colorize': False, 'memoization': False}),
    ('colorize', {'colorize': True}),
]


def gen_pinfo_grammar(rng):
    """the generator of shard_parseinfo (every rule yields a dict, optional empties, @nomemo, comments) + rules that END in
    a rule call, a cut, a closure or an optional (what follows the last token is where observers may leak into endpos)"""
    import enginegen as G
    cfg = G.GenCfg(names=0.3, overrides=0.0, dots=0.0, skipto=0.0, consts=0.0, cuts=rng.choice([0.04, 0.12]))
    g = G.gen_grammar(rng, cfg, depth=rng.choice([2, 3]))
    names = [n for n, _, _ in g['rules']]
    rules = []
    for i, (n, d, e) in enumerate(g['rules']):
        later = names[i + 1:]
        r = rng.random()
        if later and r < 0.35:
            tail = rng.choice([('call', rng.choice(later)), ('seq', [('call', rng.choice(later)), 'cut']),
                               ('rep', False, None, False, ('call', rng.choice(later))), ('opt', ('call', rng.choice(later))),
                               ('named', False, 'last', ('call', rng.choice(later)))])
            e = ('seq', [e, tail])
        elif r < 0.45:
            e = ('seq', [e, 'cut'])
        body = ('named', False, 'val', ('group', e)) if rng.random() < 0.7 else e
        if i > 0 and rng.random() < 0.25:
            body = ('seq', [('named', False, 'opt', ('opt', ('tok', 'zz'))), body]) if rng.random() < 0.5 else ('named', False, 'opt', ('opt', ('tok', 'zz')))
        if i > 0 and rng.random() < 0.25:
            d = list(d) + ['nomemo']
        rules.append((n, d, body))
    g['rules'] = rules
    both = rng.random() < 0.6
    if both or rng.random() < 0.3:
        g['directives']['comments'] = r'\(\*.*?\*\)'
    if both or rng.random() < 0.3:
        g['directives']['eol_comments'] = r'#[^\n]*'
    gaps = [' ', ' ', '\n', '\r\n', '  ', '\t', '\r', ' \n ']
    if 'comments' in g['directives']:
        gaps += [' (* c *) ', '(* c *)']
    if 'eol_comments' in g['directives']:
        gaps += [' # e\n', '# e\n']
    if both:
        gaps += ['(* c *)# e\n', ' (* c *)# e\n ', '# e\n(* c *)']
    return g, gaps


def _pinfo_tuple(pi):
    return ['info', pi.rule if isinstance(pi.rule, str) else {'other': type(pi.rule).__name__}, pi.pos, pi.endpos, pi.line, pi.endline]


def cursor_idiom_problems(v, text: str) -> list:
    """O2 on a raw result: [(problem, parseinfo, detail)]"""
    from tatsu.contexts.ast import AST
    out = []
    seen = set()

    def li(x):
        return (x.line, x.col, x.start, x.end, x.text) if hasattr(x, 'col') else x

    def judge(pi):
        c = pi.cursor
        info = _pinfo_tuple(pi)
        if c is None or not (isinstance(pi.pos, int) and isinstance(pi.endpos, int) and 0 <= pi.pos <= pi.endpos <= len(text)):
            return
        key = (id(c), c.pos, pi.pos, pi.endpos)
        if key in seen:
            return
        seen.add(key)
        if getattr(c, 'textstr', None) != text:
            out.append(('cursor-text', info, None))
            return
        stands = c.pos
        fresh = c.input.newcursor()
        for which, p, recorded in (('pos', pi.pos, pi.line), ('endpos', pi.endpos, pi.endline)):
            for name in ('lineinfo', 'lineat', 'poscol'):
                got, want = _call(getattr(c, name), p), _call(getattr(fresh, name), p)
                if got != want:
                    cls0 = 'zero' if p == 0 else ('end' if p >= len(text) else 'mid')
                    out.append((f'{name}({which})-{cls0}:differs-from-a-fresh-cursor', info,
                                {'cursor stands at': stands, 'offset': p, 'got': got, 'fresh cursor': want}))
                if p < len(text):
                    ref = ref_info(text, p, 'clamp')
                    w2 = ref if name == 'lineinfo' else (ref[0] if name == 'lineat' else ref[1])
                    if got != w2:
                        out.append((f'{name}({which}):differs-from-the-split', info, {'offset': p, 'got': got, 'split': w2}))
            if _call(c.lineat, p) != recorded:
                out.append((f'record-{"line" if which == "pos" else "endline"}-is-not-lineat({which})', info,
                            {'offset': p, 'lineat': _call(c.lineat, p), 'recorded': recorded}))
        if c.pos != stands:
            out.append(('accessors-move-the-cursor', info, None))

    def go(x):
        if isinstance(x, (AST, dict)):
            for k in PINFO_KEYS:
                pi = x.get(k)
                if pi is not None:
                    judge(pi)
            for k, y in x.items():
                if k not in PINFO_KEYS:
                    go(y)
        elif isinstance(x, (list, tuple)):
            for y in x:
                go(y)
    go(v)
    return out


def observed_parse(model, text: str, kw: dict, as_buffer=None):
    """-> (outcome, O2 problems); outcome = ('ok', canon) | ('fail', [class, offset, info]) | ('exc', name) | ..."""
    import contextlib
    import io
    import enginelib as E
    import enginerun as R
    from tatsu.exceptions import FailedParse

    def target():
        src = text
        if as_buffer is not None:
            from tatsu.input.buffer import Buffer
            src = Buffer(text, **as_buffer)
        try:
            with contextlib.redirect_stderr(io.StringIO()), contextlib.redirect_stdout(io.StringIO()):
                v = model.parse(src, **kw)
            return ('ok', E.canon(v)), cursor_idiom_problems(v, text)
        except FailedParse as e:
            inf = getattr(e, 'info', None)
            return ('fail', [type(e).__name__, getattr(e, 'pos', None),
                             [inf.line, inf.col, inf.start, inf.end, inf.text] if inf is not None else None]), []
        except RecursionError:
            return ('recursion', None), []
        except Exception as e:  # noqa
            return ('exc', type(e).__name__), []
    r = R.with_timeout(target, 4)
    if r == ('timeout', None):
        return r, []
    return r


def first_info_difference(a, b):
    """which part of two canonical outcomes differs first: 'outcome' | 'failure' | 'value' | 'info.<fields>'"""
    if a[0] != b[0]:
        return 'outcome'
    if a[0] == 'fail':
        x, y = a[1], b[1]
        if x[0] != y[0]:
            return 'failure.class'
        if x[1] != y[1]:
            return 'failure.offset'
        return 'failure.info'
    found = []

    def go(x, y):
        if found:
            return
        if isinstance(x, dict) and isinstance(y, dict) and sorted(x) == sorted(y):
            for k in x:
                if k in PINFO_KEYS and isinstance(x[k], list) and isinstance(y[k], list) and x[k] != y[k] and not found:
                    fields = ('', 'rule', 'pos', 'endpos', 'line', 'endline')
                    found.append('info.' + '+'.join(fields[i] for i in range(1, 6) if x[k][i] != y[k][i]))
            for k in x:
                if k not in PINFO_KEYS:
                    go(x[k], y[k])
            if not found and x != y:
                found.append('value')
        elif isinstance(x, list) and isinstance(y, list) and len(x) == len(y):
            for p, q in zip(x, y):
                go(p, q)
        elif x != y:
            found.append('value')
    go(a[1], b[1])
    return found[0] if found else 'value'


def observer_class(inp, kw):
    """signature class of a variant: what is being observed, not the cosmetic settings of the tracer"""
    if kw.get('trace'):
        return 'trace' + ('+nomemo' if kw.get('memoization') is False else '')
    if kw.get('colorize'):
        return 'colorize'
    return inp + '-input'


def buffer_config(model, text, settings):
    """the Buffer that scans like the str input of this parse: same whitespace, comments, name settings"""
    import enginelib as E
    eff = E.effective_config(model, text, settings)
    cfg = {'whitespace': eff.whitespace, 'nameguard': eff.nameguard, 'ignorecase': eff.ignorecase, 'namechars': eff.namechars}
    if eff.comments:
        cfg['comments'] = eff.comments
    if eff.eol_comments:
        cfg['eol_comments'] = eff.eol_comments
    return cfg


def shard_observed(col, shard_i, ngrammars, ninputs):
    import random
    import enginelib as E
    import enginegen as G
    import enginerun as R
    mr = ModelRun('Engine')
    rng = random.Random(f'{col.pid}-{col.seed}-observed-{shard_i}')     # not the stream of shard_parseinfo: other cases
    cases = []
    for gi in range(ngrammars):
        g, gaps = gen_pinfo_grammar(rng)
        for _ in range(ninputs):
            lex = G.sample_sentence(rng, g, g['rules'][0][2])
            t = G.join_lexemes(rng, lex, gaps=tuple(gaps))
            t = rng.choice(['', '', ' ', '\n'] + gaps[-2:]) + t + rng.choice(['', '\n', '\r\n', ' \n', '\r', '  '] + gaps[-1:])
            if rng.random() < 0.12 and t:
                k = rng.randrange(len(t))
                t = t[:k] + rng.choice(['?', '', 'a ', '\n?']) + t[k + 1:]        # a failing parse now and then: FailedParse.info
            cases.append(R.Case(g, t[:60], None, E.Settings(parseinfo=True)))
    results = []
    for off in range(0, len(cases), 400):
        results += R.run_cases(mr, cases[off:off + 400])
    reported = 0
    for ci, (c, io, mo, extra) in enumerate(results):
        fp = ['observed', E.grammar_text(c.g), c.text]
        model = R.compile_grammar(c.g)
        if mo is None or isinstance(model, tuple):
            col.case(fp, nontrivial=False)
            continue
        text = c.text
        base_kw = c.settings.kwargs()
        plain, idiom = observed_parse(model, text, base_kw)
        ninfo = []
        if plain[0] == 'ok':
            _walk_infos(plain[1], ninfo)
        col.case(fp, nontrivial=bool(ninfo) or plain[0] == 'fail')
        col.count('observed.plain.' + plain[0])
        col.count('observed.parseinfo.entries', len(ninfo))
        # ---- O1a: plain vs engine model (E1 with parseinfo on these cases too)
        if mo[0] != 'recursion' and io != mo and io[0] != 'timeout':
            def bad0(cc):
                rr = R.run_cases(mr, [cc])[0]
                return rr[2] is not None and rr[2][0] != 'recursion' and rr[1] != rr[2]
            small = R.shrink_case(c, bad0, budget=120) if reported < 3 else c
            reported += 1
            rr = R.run_cases(mr, [small])[0]
            col.violation(f'E1pinfo:{R.kinds_signature(small)}:{sorted(small.g["directives"])}:impl={rr[1][0]}:model={rr[2][0] if rr[2] else None}',
                          'implementation and engine model disagree with parseinfo on (value or parseinfo entries)',
                          {'correspondence': 'E1 with parseinfo', 'case': small.describe(), 'impl': rr[1], 'model': rr[2]})
        # ---- O2: the cursors kept in the parse information
        for problem, info, detail in idiom[:1]:
            col.violation('oracle:parseinfo.cursor:' + problem,
                          f'the cursor kept in parseinfo {info} (it stands where the rule ended) does not answer like a fresh cursor',
                          {'oracle': 'cursor of the parse information', 'case': c.describe(), 'parseinfo': info, 'detail': detail,
                           'problems': [p[0] for p in idiom[:6]]})
        if plain[0] in ('timeout', 'recursion'):
            continue
        # ---- O1b: every observer / input variant vs the plain parse
        try:
            bcfg = buffer_config(model, text, c.settings)
        except Exception:  # noqa
            bcfg = None
        variants = []
        k0 = ci + shard_i
        for j in range(2):
            name, kw = OBSERVERS[(k0 + 3 * j) % len(OBSERVERS)] if j else OBSERVERS[k0 % 2]
            variants.append((name, 'str', dict(base_kw, **kw), None))
        if bcfg is not None:
            variants.append(('plain', 'Buffer', dict(base_kw), bcfg))
            name, kw = OBSERVERS[(k0 + 1) % 5]
            variants.append((name, 'Buffer', dict(base_kw, **kw), bcfg))
        buf_plain = None
        for name, inp, kw, bc in variants:
            got, idiom_v = observed_parse(model, text, kw, as_buffer=bc)
            col.count(f'observed.{inp}.{name}.{got[0]}')
            if got[0] in ('timeout', 'recursion'):
                continue
            if inp == 'Buffer' and name == 'plain':
                buf_plain = got
            ref = plain if not (inp == 'Buffer' and name != 'plain' and buf_plain is not None and buf_plain != plain) else buf_plain
            against = 'the plain parse of the str' if ref is plain else 'the plain parse of the Buffer'
            for problem, info, detail in idiom_v[:1]:
                col.violation(f'oracle:parseinfo.cursor:{problem}' + ('' if inp == 'str' else ':Buffer'),
                              f'the cursor kept in parseinfo {info} ({inp} input, {name}) does not answer like a fresh cursor',
                              {'oracle': 'cursor of the parse information', 'case': c.describe(), 'settings': kw, 'input': inp,
                               'parseinfo': info, 'detail': detail})
            if got != ref:
                def bad(cc, kw=kw, inp=inp, name=name):
                    m2 = R.compile_grammar(cc.g)
                    if isinstance(m2, tuple):
                        return False
                    bc2 = None
                    if inp == 'Buffer':
                        try:
                            bc2 = buffer_config(m2, cc.text, cc.settings)
                        except Exception:  # noqa
                            return False
                    a, _ = observed_parse(m2, cc.text, base_kw, as_buffer=bc2 if name != 'plain' else None)
                    b, _ = observed_parse(m2, cc.text, kw, as_buffer=bc2)
                    return a[0] in ('ok', 'fail') and b[0] not in ('timeout', 'recursion') and a != b
                small = c
                if reported < 3 and bad(c):
                    small = R.shrink_case(c, bad, budget=150)
                reported += 1
                m2 = R.compile_grammar(small.g)
                bc2 = buffer_config(m2, small.text, small.settings) if inp == 'Buffer' else None
                a, _ = observed_parse(m2, small.text, base_kw, as_buffer=bc2 if name != 'plain' else None)
                b, _ = observed_parse(m2, small.text, kw, as_buffer=bc2)
                if a == b:
                    a, b, small = ref, got, c
                what = first_info_difference(a, b)
                col.violation(f'observer:{observer_class(inp, kw)}:{what}',
                              f'parsing with {name} ({inp} input) gives another result than {against}: {what} differs',
                              {'correspondence': 'O1 observers and inputs leave the parse information alone', 'case': small.describe(),
                               'variant_settings': kw, 'input': inp, 'buffer_config': bc2, 'plain': a, 'variant': b,
                               'observed_case': {'g': small.g, 'text': small.text, 'kw': kw, 'input': inp, 'name': name}})
    if cases:
        col.sample(dict(cases[len(cases) // 2].describe(), family='observed'))


def observed_family(chk: Check):
    chk.rule += (' Observers: grammars as for the parse information of rules plus rules that end in a rule call / cut / closure / '
                 'optional x sentences with blanks, CR, LF, CRLF, comments and a few spoiled ones, each parsed plain, under '
                 'trace=True (colorize on/off, trace_filename, short trace_length, memoization off) and from a legacy Buffer; '
                 'non-trivial: the result has parse information or is a parse failure.')
    chk.assumptions += ['a Buffer built with the whitespace/comments/name settings the grammar resolves to must parse like the str '
                        '(both input implementations); tracing and colorizing are observers (same value, parse information and failure)']
    rep = json.loads(Path(chk.replay).read_text()) if chk.replay else None
    if rep is None:
        vlib.run_sharded(chk, shard_observed, 14, extra=((8, 8) if chk.quick else (50, 12)))
    elif 'observed_case' in rep:
        replay_observed_case(chk, rep['observed_case'])
    chk.obligation('O1: parse information (and failures) are the same under trace/colorize/trace_filename and from a Buffer as in the '
                   'plain parse of the str, which is compared with the engine model', 'correspondence',
                   not any(v['signature'].startswith(('observer:', 'E1pinfo')) for v in chk.violations))
    chk.obligation('O2: the cursor kept in every ParseInfo answers lineinfo/lineat/poscol of pos and endpos like a fresh cursor and '
                   'like the split of the text (implementation only)', 'oracle',
                   not any(v['signature'].startswith('oracle:parseinfo.cursor') for v in chk.violations))


def replay_observed_case(chk, oc):
    import enginelib as E
    import enginerun as R
    g = oc['g']
    c = R.Case(g, oc['text'], None, E.Settings(parseinfo=True))
    model = R.compile_grammar(g)
    chk.case(['observed-replay', json.dumps(oc, sort_keys=True, default=str)])
    if isinstance(model, tuple):
        return
    bc = buffer_config(model, c.text, c.settings) if oc['input'] == 'Buffer' else None
    a, ia = observed_parse(model, c.text, c.settings.kwargs(), as_buffer=bc if oc['name'] != 'plain' else None)
    b, ib = observed_parse(model, c.text, oc['kw'], as_buffer=bc)
    for problem, info, detail in (ia + ib)[:1]:
        chk.violation('oracle:parseinfo.cursor:' + problem, f'the cursor kept in parseinfo {info} does not answer like a fresh cursor',
                      {'observed_case': oc, 'detail': detail})
    if a != b:
        what = first_info_difference(a, b)
        chk.violation(f'observer:{observer_class(oc["input"], oc["kw"])}:{what}', f'parsing with {oc["name"]} ({oc["input"]} input) differs: {what}',
                      {'observed_case': oc, 'plain': a, 'variant': b})


# ------------------------------------------------------------------ parse information of MODEL NODES (object model part)
# Family: grammars whose rules declare a type (rule::Type) parsed with ModelBuilderSemantics and parseinfo on.  The
# nodes are built by a semantic action from the rule's AST (its own named elements, the dict-like AST of an inner
# untyped rule, a list/str, another node) and receive their parseinfo at rule exit (engine.set_parseinfo: the
# `hasattr(node, 'parseinfo')` branch, not AST.set_parseinfo); untyped rules that hand a node on unchanged overwrite it.
#   N1 (correspondence): the TYPED grammar run by the implementation vs the proved engine model run on its UNTYPED
#      TWIN: every typed rule `r::T = e` becomes `r = n_r:r__b ; r__b = e`, so that the twin's rule r returns a fresh
#      dict exactly where the implementation returns a fresh node, with the same span, and every later overwrite by a
#      rule that hands it on happens to both alike.  The twin's result is translated (expected_nodes) into the node
#      tree ModelBuilderSemantics must build and compared field by field (type, rule, pos, endpos, line, endline,
#      attributes / .ast, Node.text, Node.line).
#   N2 (oracle, implementation only): the property text on every node and dict of the result.
NODE_TYPES = ['Alpha', 'Beta', 'Gamma', 'Delta', 'Omega']
PINFO_KEYS = ('parseinfo', '__parseinfo__')
ANY = ['any']


def typed_grammar_text(g, types) -> str:
    import enginelib as E
    head = E.grammar_text({'rules': [], 'directives': g.get('directives', {}), 'keywords': g.get('keywords', [])})
    out = [head.rstrip('\n')] if head.strip() else []
    for name, decorators, e in g['rules']:
        for d in decorators:
            out.append('@' + d)
        t = types.get(name)
        out.append(f'{name}{"::" + t if t else ""} = {E.to_text(e, "top")} ;')
    return '\n'.join(out) + '\n'


def twin_grammar(g, types):
    rules = []
    for name, decorators, e in g['rules']:
        if types.get(name):
            rules.append((name, list(decorators), ('named', False, 'n_' + name, ('call', name + '__b'))))
            rules.append((name + '__b', list(decorators), e))
        else:
            rules.append((name, list(decorators), e))
    return {'rules': rules, 'directives': dict(g.get('directives', {})), 'keywords': list(g.get('keywords', []))}


def gen_typed_grammar(rng):
    """A grammar of enginegen + the shapes through which nodes travel: typed rules over their own named elements, over
    the AST of an inner rule (lone reference, @:ref between tokens), rules that hand the result of another rule on
    (lone reference, choice of references, @:ref between tokens), nodes inside dicts and lists."""
    import enginegen as G
    cfg = G.GenCfg(names=0.25, overrides=0.10, dots=0.0, skipto=0.0, consts=0.0, max_rules=5, upper_rules=0.1)
    g = G.gen_grammar(rng, cfg, depth=rng.choice([2, 3]))
    names = [n for n, _, _ in g['rules']]
    rules = []
    for i, (n, d, e) in enumerate(g['rules']):
        later = names[i + 1:]
        r = rng.random()
        if later and r < (0.8 if i == 0 else 0.45):
            a = ('call', later[0] if rng.random() < 0.5 else rng.choice(later))
            b = ('call', rng.choice(later))
            lt, rt = rng.choice([('[', ']'), ('x', 'c'), ('(', ')'), ('if', ',')])
            shape = rng.choice(['ref', 'over', 'over', 'choice', 'overchoice', 'named', 'list', 'refvoid', 'over2'])
            if shape == 'ref':
                e = a
            elif shape == 'over':
                e = ('seq', [('tok', lt), ('over', False, a), ('tok', rt)])
            elif shape == 'choice':
                e = ('choice', [a, b, ('tok', 'b')])
            elif shape == 'overchoice':
                e = ('choice', [('seq', [('tok', lt), ('over', False, a), ('tok', rt)]), b])
            elif shape == 'named':
                e = ('seq', [('named', False, 'v', a), ('named', rng.random() < 0.4, 'm', ('opt', ('seq', [('tok', ','), b])))])
            elif shape == 'list':
                e = ('seq', [('tok', lt), ('rep', rng.random() < 0.5, ('tok', ',') if rng.random() < 0.5 else None, False, a),
                             ('tok', rt)])
            elif shape == 'refvoid':
                e = ('seq', [a, 'void'])
            else:
                e = ('seq', [('over', False, a), ('tok', rt)])
        elif r < 0.75:
            e = ('named', False, 'val', ('group', e))
        if i > 0 and rng.random() < 0.15:
            e = ('seq', [('named', False, 'opt', ('opt', ('tok', 'zz'))), e])
        if i > 0 and rng.random() < 0.15:
            d = list(d) + ['nomemo']        # never served from the memo cache: every invocation builds its own node
        rules.append((n, d, e))
    g['rules'] = rules
    types = {}
    for n in names:
        if rng.random() < 0.55:
            t = rng.choice(NODE_TYPES)
            if rng.random() < 0.15:
                t += '::' + rng.choice(['BaseOne', 'BaseTwo'])
            types[n] = t
    if not types:
        types[rng.choice(names)] = rng.choice(NODE_TYPES)
    return g, types


def _passes(e, rules_of=None, memo=None):
    """rule names whose result may be the WHOLE value of e, over-approximated by every rule the expression calls (an
    override inside a closure, a group or an optional makes the reference's value the value of the rule: `{@:ref}+`)."""
    from enginelib import kind, walk
    return {x[1] for x in walk(e) if kind(x) == 'call'}


def returners(g, types):
    """type name -> the rules that may return a node of that type: the rules that declare it and, transitively, the
    UNTYPED rules whose whole value may be the result of such a rule."""
    direct = {n: _passes(e, None, None) for n, _, e in g['rules']}
    out = {}
    for r, t in types.items():
        out.setdefault(t.split('::')[0], set()).add(r)
    changed = True
    while changed:
        changed = False
        for t, rs in out.items():
            for n, _, _ in g['rules']:
                if n not in rs and not types.get(n) and direct[n] & rs:
                    rs.add(n)
                    changed = True
    return out


def _info(pi):
    if pi is None:
        return None
    return [pi.rule if isinstance(pi.rule, str) else {'other': type(pi.rule).__name__}, pi.pos, pi.endpos, pi.line, pi.endline]


def canon_nodes(v):
    """canonical form of a result that contains model nodes"""
    import dataclasses as dc
    from tatsu.contexts.ast import AST
    from tatsu.objectmodel import Node
    if isinstance(v, Node):
        declared = [f.name for f in dc.fields(v) if f.name not in ('ast', 'ctx', 'parseinfo') and not f.name.startswith('_')]
        if declared or not hasattr(type(v), '__post_init__') or 'SynthNode' not in [c.__name__ for c in type(v).__mro__]:
            attrs = {k: canon_nodes(getattr(v, k, None)) for k in declared}
            style = 'declared'
        else:
            attrs = {k: canon_nodes(x) for k, x in vars(v).items()
                     if not k.startswith('_') and k not in ('ast', 'ctx', 'parseinfo')}
            style = 'synth'
        try:
            text = v.text
        except Exception as e:  # noqa
            text = {'exc': type(e).__name__}
        try:
            nline = v.line
        except Exception as e:  # noqa
            nline = {'exc': type(e).__name__}
        return {'node': type(v).__name__, 'style': style, 'info': _info(v.parseinfo), 'attrs': dict(sorted(attrs.items())),
                'ast': canon_nodes(v.ast), 'text': text, 'nline': nline}
    if isinstance(v, (AST, dict)):
        out = {}
        for k, x in v.items():
            if k not in PINFO_KEYS:
                out[str(k)] = canon_nodes(x)
        a, b = v.get('parseinfo'), v.get('__parseinfo__')
        info = _info(a)
        if _info(b) != info:
            info = {'parseinfo': info, '__parseinfo__': _info(b)}
        return {'dict': dict(sorted(out.items())), 'info': info}
    if isinstance(v, (list, tuple)):
        return [canon_nodes(x) for x in v]
    if isinstance(v, bool):
        return {'bool': v}
    if v is None or isinstance(v, (int, str)):
        return v
    return {'other': type(v).__name__}


def expected_nodes(m, types, text, declared=None):
    """the twin's result (canonical form of the engine model) -> the node tree the typed grammar must yield.
    declared: None (synthesized classes: every key of a dict AST becomes an attribute, .ast is cleared) or
    {type: [field, ...]} (declared classes: the declared fields are filled, .ast keeps the AST)."""
    if isinstance(m, list):
        return [expected_nodes(x, types, text, declared) for x in m]
    if not isinstance(m, dict):
        return m
    if 'dict' not in m:
        if 'tuple' in m:
            return [expected_nodes(x, types, text, declared) for x in m['tuple']]
        return m
    d = m['dict']
    info = d.get('parseinfo')
    info = list(info[1:]) if info else None
    if info and info[0].endswith('__b'):
        info = ANY          # handed on by the twin's extra rule level: the twin cannot tell
    keys = [k for k in d if k not in PINFO_KEYS]
    if len(keys) == 1 and keys[0].startswith('n_') and types.get(keys[0][2:]):
        t = types[keys[0][2:]].split('::')[0]
        v = d[keys[0]]
        out = {'node': t, 'style': 'synth' if declared is None else 'declared', 'info': info}
        ev = expected_nodes(v, types, text, declared)
        fields = sorted(declared.get(t, [])) if declared is not None else []
        if isinstance(ev, dict) and 'dict' in ev:
            # a dict-like AST: the rule's own named elements, or the AST of an inner untyped rule handed over
            if declared is None:
                # (attributes whose name starts with an underscore are not public: canon_nodes leaves them out as well)
                out['attrs'] = dict(sorted((k, x) for k, x in ev['dict'].items() if not k.startswith('_')))
                out['ast'] = None
            else:
                out['attrs'] = {f: ev['dict'].get(f) for f in fields}
                out['ast'] = {'dict': ev['dict'], 'info': ANY}
        else:
            out['attrs'] = {f: None for f in fields}
            out['ast'] = ev
        if info is ANY or info is None:
            out['text'] = ANY
            out['nline'] = ANY
        else:
            out['text'] = text[info[1]:info[2]]
            out['nline'] = info[3]
        return out
    return {'dict': {k: expected_nodes(d[k], types, text, declared) for k in sorted(keys)}, 'info': info}


def diff_nodes(exp, obs, path=''):
    """first difference -> (field class, path, expected, observed) | None"""
    if exp is ANY:
        return None
    if isinstance(exp, dict) and 'node' in exp:
        if not (isinstance(obs, dict) and 'node' in obs):
            return ('shape', path, 'node ' + exp['node'], _brief(obs))
        if exp['node'] != obs['node']:
            return ('type', path, exp['node'], obs['node'])
        if exp['info'] is not ANY:
            if obs['info'] is None:
                return ('noinfo', path, exp['info'], None)
            if exp['info'] is None:
                return ('info', path, None, obs['info'])
            for i, f in enumerate(('rule', 'pos', 'endpos', 'line', 'endline')):
                if exp['info'][i] != obs['info'][i]:
                    return ('info.' + f, path, exp['info'], obs['info'])
        for f in ('text', 'nline'):
            if f == 'text' and obs[f] is None:
                continue        # Node.text gives no text at all: judged by the oracle N2 under its own signature (D7e)
            if exp[f] is not ANY and exp[f] != obs[f]:
                return ('accessor.' + f, path, exp[f], obs[f])
        if sorted(exp['attrs']) != sorted(obs['attrs']):
            return ('attrs', path, sorted(exp['attrs']), sorted(obs['attrs']))
        for k in exp['attrs']:
            r = diff_nodes(exp['attrs'][k], obs['attrs'][k], f'{path}.{k}')
            if r:
                return r
        return diff_nodes(exp['ast'], obs['ast'], path + '.ast')
    if isinstance(exp, dict) and 'dict' in exp:
        if not (isinstance(obs, dict) and 'dict' in obs):
            return ('shape', path, 'dict', _brief(obs))
        if exp['info'] is not ANY and exp['info'] != obs['info']:
            return ('dictinfo', path, exp['info'], obs['info'])
        if sorted(exp['dict']) != sorted(obs['dict']):
            return ('keys', path, sorted(exp['dict']), sorted(obs['dict']))
        for k in exp['dict']:
            r = diff_nodes(exp['dict'][k], obs['dict'][k], f'{path}[{k}]')
            if r:
                return r
        return None
    if isinstance(exp, list):
        if not isinstance(obs, list) or len(obs) != len(exp):
            return ('shape', path, f'list of {len(exp)}', _brief(obs))
        for i, (a, b) in enumerate(zip(exp, obs)):
            r = diff_nodes(a, b, f'{path}[{i}]')
            if r:
                return r
        return None
    if exp != obs:
        return ('value', path, _brief(exp), _brief(obs))
    return None


def _brief(x):
    if isinstance(x, dict) and 'node' in x:
        return 'node ' + x['node']
    if isinstance(x, dict) and 'dict' in x:
        return 'dict'
    if isinstance(x, list):
        return f'list of {len(x)}'
    return x


def node_oracle(obs, text, g, types, directives, nested=False):
    """the property text on every node / dict of an implementation result -> list of (problems, what, info)"""
    rules = {n for n, _, _ in g['rules']}
    ret = returners(g, types)
    found = []
    notext = []

    def span_problems(info, who):
        problems = []
        if info is None:
            return ['noinfo']
        if not (isinstance(info, list) and len(info) == 5):
            return ['info-keys-differ']
        rule, pos, endpos, line, endline = info
        if not isinstance(rule, str) or rule not in rules:
            problems.append('rule')
        elif who is not None and rule not in ret.get(who, set()):
            problems.append('rule-never-returns-it')
        if not (isinstance(pos, int) and isinstance(endpos, int) and 0 <= pos <= endpos <= len(text)):
            problems.append('offsets')
            return problems
        if line != ref_info(text, pos, 'editor')[0]:
            problems.append('line')
        if endline != ref_info(text, endpos, 'editor')[0]:
            problems.append('endline')
        tokn = isinstance(rule, str) and rule.lstrip('_')[:1].isupper()
        if not tokn and pos < endpos and text[pos].isspace():
            problems.append('starts-in-whitespace')
        if not tokn and pos < endpos and (text.startswith('(*', pos) and 'comments' in directives
                                          or text.startswith('#', pos) and 'eol_comments' in directives):
            problems.append('starts-in-comment')
        return problems

    def go(x, outer):
        if isinstance(x, list):
            for y in x:
                go(y, outer)
            return
        if not isinstance(x, dict):
            return
        if 'node' in x or 'dict' in x:
            isnode = 'node' in x
            info = x['info']
            # a dict without parseinfo is not a rule's result (the AST of a group with an override, ...): not judged
            problems = span_problems(info, x['node'] if isnode else None) if isnode or info is not None else []
            ok_span = isinstance(info, list) and len(info) == 5 and 'offsets' not in problems
            if isnode and ok_span:
                if x['text'] is None:
                    notext.append(info)     # no text at all: reported once, under its own signature
                elif x['text'] != text[info[1]:info[2]]:
                    problems.append('Node.text')
                if x['nline'] != info[3]:
                    problems.append('Node.line')
            # (only without memoization: a memoized object handed on by a rule of a branch that was given up afterwards
            #  keeps that invocation's name and offsets - still a rule that returned it, but not one of the final tree)
            if ok_span and nested and outer is not None and not (outer[0] <= info[1] and info[2] <= outer[1]):
                problems.append('outside-enclosing')
            if problems:
                found.append((problems, 'node ' + x['node'] if isnode else 'dict', info))
            inner = (info[1], info[2]) if ok_span else outer
            if isnode:
                for y in x['attrs'].values():
                    go(y, inner)
                a = x['ast']
                if isinstance(a, dict) and 'dict' in a:
                    for y in a['dict'].values():      # the AST a declared node keeps is the inner rule's: not judged itself
                        go(y, inner)
                else:
                    go(a, inner)
            else:
                for y in x['dict'].values():
                    go(y, inner)
    go(obs, None)
    return found, notext


_typed_models: dict = {}


def compile_typed(txt):
    import tatsu
    import enginerun as R
    if txt in _typed_models:
        return _typed_models[txt]
    try:
        m = R.with_timeout(lambda: tatsu.compile(txt, name='G'), 20)
        if isinstance(m, tuple):
            m = ('compile-timeout',)
    except RecursionError:
        m = ('compile-recursion',)
    except Exception as e:  # noqa
        m = ('compile-error', type(e).__name__, str(e)[:200])
    if len(_typed_models) > 500:
        _typed_models.clear()
    _typed_models[txt] = m
    return m


_declared_sems: dict = {}


def declared_semantics(txt):
    """the object model tatsu generates for the grammar (declared node classes) -> (semantics factory, {type: fields})"""
    import dataclasses as dc
    import types as pytypes
    import enginerun as R
    from tatsu.api import to_python_model
    if txt in _declared_sems:
        return _declared_sems[txt]
    try:
        src = R.with_timeout(lambda: to_python_model(txt, name='G'), 20)
        if isinstance(src, tuple):
            res = ('model-codegen-timeout',)
        else:
            mod = pytypes.ModuleType(f'c12_generated_model_{len(_declared_sems)}')
            sys.modules[mod.__name__] = mod       # dataclasses resolves annotations through sys.modules
            exec(compile(src, '<generated model>', 'exec'), mod.__dict__)
            factory = mod.__dict__['GModelBuilderSemantics']
            fields = {}
            for name, cls in mod.__dict__.items():
                if isinstance(cls, type) and dc.is_dataclass(cls) and cls.__module__ == mod.__name__:
                    fields[name] = [f.name for f in dc.fields(cls)
                                    if f.name not in ('ast', 'ctx', 'parseinfo') and not f.name.startswith('_')]
            res = (factory, fields)
    except Exception as e:  # noqa
        res = ('model-codegen-error', type(e).__name__, str(e)[:200])
    if len(_declared_sems) > 500:
        _declared_sems.clear()
    _declared_sems[txt] = res
    return res


def run_typed(g, types, text, flavour, settings):
    """-> (outcome, declared fields | None); outcome = ('ok', canon) | ('fail', None) | ('exc', name) | ('skip', why)"""
    import enginerun as R
    from tatsu.exceptions import FailedParse
    txt = typed_grammar_text(g, types)
    model = compile_typed(txt)
    if isinstance(model, tuple):
        return ('skip', model[0]), None
    kw = dict(settings)
    declared = None
    if flavour == 'synth':
        kw['asmodel'] = True
    elif flavour == 'builder':
        from tatsu.objectmodel.builder import ModelBuilderSemantics
        kw['semantics'] = ModelBuilderSemantics()
    else:
        ds = declared_semantics(txt)
        if len(ds) != 2 or not callable(ds[0]):
            return ('skip', ds[0]), None
        try:
            kw['semantics'] = ds[0]()
        except Exception as e:  # noqa
            return ('skip', 'declared-semantics:' + type(e).__name__), None
        declared = ds[1]

    def target():
        import contextlib
        import io
        try:
            with contextlib.redirect_stderr(io.StringIO()), contextlib.redirect_stdout(io.StringIO()):      # trace=True prints
                v = model.parse(text, **kw)
            return ('ok', canon_nodes(v))
        except FailedParse:
            return ('fail', None)
        except RecursionError:
            return ('recursion', None)
        except Exception as e:  # noqa
            return ('exc', type(e).__name__)
    return R.with_timeout(target, 3), declared


def node_case(mr, g, types, text, flavour, settings):
    """one case of N1/N2 -> dict(verdict=..., ...)"""
    import enginelib as E
    import enginerun as R
    twin = twin_grammar(g, types)
    rr = R.run_cases(mr, [R.Case(twin, text, None, E.Settings(**settings))])[0]
    mo = rr[2]
    obs, declared = run_typed(g, types, text, flavour, settings)
    out = {'model': mo, 'impl': obs, 'twin_impl': rr[1], 'n1': None, 'n2': [], 'notext': []}
    if obs[0] == 'ok':
        out['n2'], out['notext'] = node_oracle(obs[1], text, g, types, g.get('directives', {}),
                                               nested=settings.get('memoization') is False)
    if mo is None or mo[0] in ('recursion', 'timeout', 'model-error') or obs[0] in ('skip', 'timeout', 'recursion'):
        out['verdict'] = 'none'
        return out
    out['reference'] = 'engine-model'
    if rr[1] != mo and rr[1][0] in ('ok', 'fail'):
        # E1 itself does not hold for the twin (that is shard_parseinfo's subject: e.g. the parseinfo of a MEMOIZED result
        # is overwritten in place by a later invocation that hands it on, even one that is discarded afterwards): the
        # nodes of the typed grammar must then behave exactly like the dicts of the twin in the implementation
        mo = rr[1]
        out['reference'] = 'twin-in-the-implementation'
    if mo[0] != obs[0]:
        out['n1'] = ('outcome', '', mo[0], obs[0] if obs[0] != 'exc' else 'exc:' + str(obs[1]))
    elif mo[0] == 'ok':
        out['n1'] = diff_nodes(expected_nodes(mo[1], types, text, declared), obs[1])
    out['verdict'] = 'diff' if out['n1'] else 'same'
    if out['n1'] and out['n1'][0].startswith(('info.', 'accessor.')) and settings.get('memoization') is not False:
        # does the parseinfo of the node depend on memoization?  (a node served from the memo cache to a rule that hands
        # it on is written in place: D7f)
        again = node_case(mr, g, types, text, flavour, dict(settings, memoization=False))
        out['memo_dependent'] = again['verdict'] == 'same'
        out['impl_without_memoization'] = again['impl']
    return out


def count_nodes(x):
    if isinstance(x, list):
        return sum(count_nodes(y) for y in x)
    if isinstance(x, dict) and 'node' in x:
        return 1 + sum(count_nodes(y) for y in x['attrs'].values()) + count_nodes(x['ast'])
    if isinstance(x, dict) and 'dict' in x:
        return sum(count_nodes(y) for y in x['dict'].values())
    return 0


def shape_signature(g, types):
    """which shapes of typed rules the (shrunk) grammar has"""
    from enginelib import kind, walk
    tags = set()
    for n, _, e in g['rules']:
        ks = {kind(x) for x in walk(e)}
        if types.get(n):
            if 'named' in ks:
                tags.add('typed-own-names')
            if 'call' in ks and 'named' not in ks:
                tags.add('typed-over-rule')
            if 'call' not in ks and 'named' not in ks:
                tags.add('typed-plain')
        elif 'call' in ks and 'named' not in ks:
            tags.add('handing-on')
    return '+'.join(sorted(tags))


def n1_signature(res, g, types):
    f, path, e, o = res['n1']
    what = (f'model node tree differs from the engine model of the untyped twin at {path or "the result"}: '
            f'{f} expected {e!r}, found {o!r}')
    if res.get('memo_dependent'):
        return ('N1:memo-dependent:node-parseinfo',
                what + '; with memoization=False the implementation gives the expected parseinfo: the node was served from the '
                       'memo cache to another invocation that handed it on and wrote its own parseinfo onto the shared object')
    return f'N1:{f}:{shape_signature(g, types)}', what


def shard_nodes(col, shard_i, ngrammars, ninputs):
    import enginelib as E
    import enginegen as G
    import enginerun as R
    mr = ModelRun('Engine')
    rng = col.rng
    reported = 0
    last = None
    notext = None
    for gi in range(ngrammars):
        g, types = gen_typed_grammar(rng)
        both = rng.random() < 0.4
        if both or rng.random() < 0.25:
            g['directives']['comments'] = r'\(\*.*?\*\)'
        if both or rng.random() < 0.25:
            g['directives']['eol_comments'] = r'#[^\n]*'
        if rng.random() < 0.2:
            g['directives']['parseinfo'] = 'True'      # the grammar asks for it instead of the caller
        gaps = [' ', ' ', '\n', '\r\n', '  ', '\t', '\n\n ']
        if 'comments' in g['directives']:
            gaps += [' (* c *) ', '(* c *)']
        if 'eol_comments' in g['directives']:
            gaps += [' # e\n', '# e\n']
        if 'comments' in g['directives'] and 'eol_comments' in g['directives']:
            gaps += ['(* c *)# e\n', ' (* c *)# e\n ', '# e\n(* c *)']
        flavours = ['synth', 'builder', 'declared']
        for ii in range(ninputs):
            lex = G.sample_sentence(rng, g, g['rules'][0][2])
            t = G.join_lexemes(rng, lex, gaps=tuple(gaps))
            t = rng.choice(['', '', ' ', '\n'] + gaps[-2:]) + t + rng.choice(['', '\n', '\r\n', ' \n', '\r'] + gaps[-1:])
            t = t[:70]
            settings = {} if 'parseinfo' in g['directives'] else {'parseinfo': True}
            if rng.random() < 0.3:
                settings['memoization'] = False
            if (gi * 5 + ii + shard_i) % 6 == 0:
                # an observer: the tracer is handed the live cursor; the nodes must come out as the (untraced) model says
                settings['trace'] = True
                settings['colorize'] = (gi + ii) % 4 == 0
            flavour = flavours[(gi + ii) % 3] if rng.random() < 0.8 else rng.choice(flavours)
            res = node_case(mr, g, types, t, flavour, settings)
            last = {'grammar': typed_grammar_text(g, types), 'text': t, 'flavour': flavour, 'settings': settings}
            nn = count_nodes(res['impl'][1]) if res['impl'][0] == 'ok' else 0
            col.case(['nodes', last['grammar'], t, flavour, sorted(settings)], nontrivial=nn > 0)
            col.count(f'nodes.{flavour}.{res["impl"][0]}' + (':' + str(res['impl'][1]) if res['impl'][0] in ('skip', 'exc') else ''))
            col.count('nodes.verdict.' + res['verdict'])
            if res.get('reference'):
                col.count('nodes.reference.' + res['reference'])
            if res['impl'][0] == 'ok' and nn:
                for tag in shape_signature(g, types).split('+'):
                    col.count('nodes.grammar-has.' + tag)
            col.count('nodes.nodes', nn)
            if res['notext'] and notext is None:
                notext = dict(last, nodes_without_text=res['notext'][:3])
            col.count('nodes.Node.text=None', len(res['notext']))
            if res['n1'] or res['n2']:
                reported += 1
                small = R.Case(g, t, None, E.Settings(**settings))
                r2 = res
                if reported <= 3:
                    def bad(cc, want1=bool(res['n1']), want2=bool(res['n2']), md=bool(res.get('memo_dependent'))):
                        rb = node_case(mr, cc.g, types, cc.text, flavour, settings)
                        return (want1 and bool(rb['n1']) and bool(rb.get('memo_dependent')) == md) or (want2 and bool(rb['n2']))
                    small = R.shrink_case(small, bad, budget=150)
                    r2 = node_case(mr, small.g, types, small.text, flavour, settings)
                used = {n for n, _, _ in small.g['rules']}
                stypes = {k: v for k, v in types.items() if k in used}
                rep = {'grammar': typed_grammar_text(small.g, stypes), 'untyped_twin': E.grammar_text(twin_grammar(small.g, stypes)),
                       'text': small.text, 'flavour': flavour, 'settings': settings, 'impl': r2['impl'],
                       'engine_model_on_twin': r2['model'], 'twin_in_the_implementation': r2['twin_impl'],
                       'reference': r2.get('reference'), 'original': last,
                       'node_case': {'g': small.g, 'types': stypes, 'text': small.text, 'flavour': flavour, 'settings': settings}}
                if r2['n1']:
                    f, path, e, o = r2['n1']
                    sig, what = n1_signature(r2, small.g, stypes)
                    col.violation(sig, what, dict(rep, correspondence='N1 model nodes vs engine model of the untyped twin',
                                                  difference=[f, path, e, o],
                                                  impl_without_memoization=r2.get('impl_without_memoization')))
                if r2['n2']:
                    problems, what, info = r2['n2'][0]
                    col.violation('oracle:nodeinfo:' + '+'.join(problems),
                                  f'parseinfo {info} of a {what} is not that of a rule that returned it / does not delimit its text',
                                  dict(rep, oracle='parseinfo of model nodes', problems=r2['n2'][:5]))
    if notext is not None:
        col.violation('oracle:Node.text:None', 'Node.text of a parsed model node with parseinfo is None instead of text[pos:endpos]',
                      dict(notext, oracle='Node.text'))
    if last:
        col.sample(last)


def replay_node_case(chk, nc):
    """--replay of a violation of N1/N2: the one case again"""
    mr = ModelRun('Engine')
    res = node_case(mr, nc['g'], nc['types'], nc['text'], nc['flavour'], nc['settings'])
    chk.case(['nodes-replay', json.dumps(nc, sort_keys=True, default=str)])
    rep = {'node_case': nc, 'impl': res['impl'], 'engine_model_on_twin': res['model']}
    if res['n1']:
        sig, what = n1_signature(res, nc['g'], nc['types'])
        chk.violation(sig, what, dict(rep, difference=list(res['n1']), impl_without_memoization=res.get('impl_without_memoization')))
    if res['n2']:
        problems, what, info = res['n2'][0]
        chk.violation('oracle:nodeinfo:' + '+'.join(problems),
                      f'parseinfo {info} of a {what} is not that of a rule that returned it / does not delimit its text', rep)
    if res['notext']:
        chk.violation('oracle:Node.text:None', 'Node.text of a parsed model node with parseinfo is None instead of text[pos:endpos]', rep)


def object_model_family(chk: Check):
    chk.rule += (' Object model: random grammars whose rules declare types (own named elements, the AST of an inner rule through a '
                 'lone reference or @:ref, rules handing a node on, nodes in dicts and lists) x sampled sentences with blanks, line '
                 'breaks and comments, parsed with asmodel=True / ModelBuilderSemantics() / the generated object model, parseinfo '
                 'from the caller or from @@parseinfo; non-trivial: the result contains a model node.')
    chk.trusted += ['N1 expectation: the node tree is derived from the proved engine model run on the untyped twin grammar '
                    '(r::T = e  ->  r = n_r:r__b ; r__b = e) by expected_nodes(), the harness\'s own statement of what '
                    'ModelBuilderSemantics builds from an AST (SynthNode: every key an attribute, .ast cleared; declared classes: '
                    'declared fields, .ast kept)']
    chk.assumptions += ['parseinfo of an object that the twin\'s extra rule level r__b handed on is not compared in N1 (the oracle N2 '
                        'still judges it); dicts without parseinfo (ASTs of groups with overrides) are not rule results']
    rep = json.loads(Path(chk.replay).read_text()) if chk.replay else None
    if rep is not None:
        if 'node_case' in rep:
            replay_node_case(chk, rep['node_case'])
    else:
        vlib.run_sharded(chk, shard_nodes, 14, extra=((12, 8) if chk.quick else (80, 12)))
    chk.obligation('N1: model nodes of typed rules (ModelBuilderSemantics; synthesized and generated node classes) vs the engine '
                   'model of the untyped twin grammar: type, rule, pos, endpos, line, endline, attributes, Node.text/line',
                   'correspondence', not any(v['signature'].startswith('N1:') for v in chk.violations))
    chk.obligation('every model node names a rule that may return it, with offsets that delimit text inside its enclosing node '
                   'and a line that matches the start offset (implementation only)', 'oracle',
                   not any(v['signature'].startswith(('oracle:nodeinfo', 'oracle:Node.text')) for v in chk.violations))


def main():
    chk = Check(PID)
    chk.rule = ('every string over {a, space, LF, CR} up to length 5 (quick) / 6 (thorough) and random texts up to length 41 '
                'with CRLF pairs and VT FF FS GS RS NEL LS PS, each at every offset 0..len+1, for TextLines and Buffer, every '
                'accessor (cursor.lineinfo/lineat/poscol/line/col, Buffer.lineinfo/posline/poscol/line/col, linecount, '
                'lines, line cache), asked of a fresh cursor and of cursors parked at every offset (short texts) / three offsets '
                '(long texts) by goto, move, next, clone, copy, the constructor, or from the end - with explicit offsets and '
                'without argument, get_line/get_lines too. Non-trivial: the text contains a line break; distinct by class and text.')
    chk.trusted += ['Python str.splitlines / re (the model of splitlines is compared with it; its table of line break '
                    'characters is compared over every code point)',
                    'modelled: splitlines(True), PosLine.build_line_cache, lineinfo/lineat/poscol/posline of both input '
                    'classes, linecount; not modelled here: parseinfo of rules (engine part of C12), includes/replace_lines '
                    'of Buffer, source names']
    chk.assumptions += ['offsets are 0..len (len+1 only in the correspondence); whitespace/comments settings play no part',
                        'at pos = len after a final line break: lineat/poscol are judged by the editor reading (a new empty '
                        'line, as linecount documents), lineinfo/Buffer.posline by the clamp reading (still the last line of '
                        'the split) because tests/buffering_test.py::test_line_info_consistency pins lineinfo(1+len).line',
                        'at pos = len lineat/poscol are not judged for texts ending in VT FF FS GS RS NEL LS PS '
                        '(property: LF, CR and CRLF conventions)']
    source_shape(chk)
    chk.coq()
    ok, out = vlib.build_modelrun('LineCache')
    chk.obligation('modelrun_LineCache builds', 'build', ok, out[-500:])
    if ok:
        mr = ModelRun('LineCache')
        linebreak_table(chk, mr)
        var = Variants()
        chk.extra['code_variant'] = {'sentinel': var.sentinel,
                                     'buffer_guards': {f'{k[0]}.{k[1]}': v for k, v in var.guard.items() if k[0] == 'Buffer'},
                                     'lineinfo_column_fixed': {f'{k[0]}.{k[1]}': v for k, v in var.colfix.items()}}
        if chk.replay:
            rep = json.loads(Path(chk.replay).read_text())
            cases = [rep.get('text', '')]
            first0 = int(rep.get('moved_case_index', 0))
        else:
            first0 = 0
            cases = gen_cases(chk)
        nexh = 10 ** 9 if chk.replay else len(list(vlib.all_strings(ALPHA, 5 if chk.quick else 6)))
        seen: dict = {}
        ncorr = nspec = 0
        for i in range(0, len(cases), 2000):
            a, b = run_case_batch(chk, mr, var, cases[i:i + 2000], seen, first=first0 + i, nexh=nexh)
            ncorr += a
            nspec += b
        chk.obligation('L1:TextLines and Buffer vs LineCache.v on every text x offset', 'correspondence', ncorr == 0,
                       f'{ncorr} texts differ')
        chk.obligation('S1:Coq specification spec_info/spec_line = Python reference by regex split', 'correspondence',
                       nspec == 0, f'{nspec} differ')
        chk.obligation('a cursor (or Buffer) that has MOVED - by goto, move, next, clone, copy, its constructor, to the end and back - '
                       'answers every explicit offset like a fresh one and the forms without argument for its own position; no '
                       'accessor moves it (implementation only; the same answers are compared with LineCache.v under L1)', 'oracle',
                       not any(v['signature'].startswith('state:') for v in chk.violations))
        replay_witnesses(chk)
        ok2, out2 = vlib.build_modelrun('Engine')
        chk.obligation('modelrun_Engine builds', 'build', ok2, out2[-500:])
        if ok2:
            vlib.run_sharded(chk, shard_parseinfo, 14, extra=((8, 8) if chk.quick else (60, 12)))
            chk.obligation('E1 with parseinfo: rule/pos/endpos/line/endline of every dict result vs the engine model', 'correspondence',
                           not any(v['signature'].startswith('E1pinfo') for v in chk.violations))
            chk.obligation('parseinfo delimits the consumed text and its line matches the start offset (implementation only)', 'oracle',
                           not any(v['signature'].startswith('oracle:parseinfo') for v in chk.violations))
        if ok2:
            observed_family(chk)          # the same parse information under trace/colorize and from a Buffer; ParseInfo.cursor (O1, O2)
            object_model_family(chk)      # model nodes of typed rules (N1, N2)
        chk.sample({'text': 'a\r\nb', 'reference': [ref_info('a\r\nb', p, 'editor') for p in range(5)]})
        chk.exhaustive = False
    return chk.finish()


if __name__ == '__main__':
    sys.exit(main())
